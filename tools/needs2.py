import subprocess, sys
import os
sys.path.insert(0, os.path.dirname(os.path.abspath(__file__)))
from needs import needs
import re
def needs2(path, idx):
    n = needs(path, idx)
    if n: return n
    # fallback: lines containing 'needs'
    L=open(path).read()
    parts=re.split(r'\n## ', L)
    secs=[p for p in parts if re.match(r'(Variant|variant|patch_)', p)]
    if idx < len(secs):
        m=re.search(r'(?is)(what it needs[^\n]*:|needs to manifest[^\n]*:|\*\*needs[^\n]*?\*\*:?|needs:)\s*(.+?)(\n\s*\n|\n[-*] \*\*|\n- |\Z)', secs[idx])
        if m: return ' '.join(m.group(2).split())
    return None
