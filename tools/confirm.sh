#!/bin/bash
# confirm.sh <W> <a|b>: demo on original, baseline + demo with the change, in the worktree; result lines to _seed/confirm_<v>.txt
W=$1; v=$2; cd /tmp/wt/$W || exit 2
out=_seed/confirm_$v.txt
git checkout -q -- .
/venv/bin/python _seed/demo_$v.py >/dev/null 2>&1; echo "demo_orig exit=$?" > $out
git apply _seed/patch_$v.diff || { echo "NOAPPLY" >> $out; exit 2; }
/venv/bin/python /verif/tools/baseline.py /tmp/wt/$W 2>&1 | tail -1 >> $out
/venv/bin/python _seed/demo_$v.py >/dev/null 2>&1; echo "demo_changed exit=$?" >> $out
git checkout -q -- .
