#!/bin/bash
# tools/rebase_diff.sh <diff> <old-commit> : re-express a kept diff (made against <old-commit> of /repo) against /repo's HEAD by a
# three-way merge of each touched file; prints CONFLICT and leaves the diff alone when the merge is not clean.
set -e
diff=$(readlink -f "$1"); old=$2
w=$(mktemp -d /tmp/rebase-XXXXXX)
mkdir -p $w/old $w/new $w/patched
for f in $(git -C /repo ls-tree --name-only $old | grep '\.py$'); do git -C /repo show $old:$f > $w/old/$f; cp $w/old/$f $w/patched/$f; done
for f in $(git -C /repo ls-tree --name-only HEAD | grep '\.py$'); do git -C /repo show HEAD:$f > $w/new/$f; done
(cd $w/patched && git init -q . && git apply "$diff")
rm -rf $w/patched/.git
mkdir -p $w/a $w/b
ok=1
for f in $w/new/*.py; do b=$(basename $f); cp $f $w/a/$b; cp $f $w/b/$b
  if ! cmp -s $w/old/$b $w/patched/$b; then
    if git merge-file -p $w/patched/$b $w/old/$b $w/new/$b > $w/b/$b 2>/dev/null; then :; else ok=0; echo "CONFLICT in $b"; fi
  fi
done
if [ $ok = 0 ]; then rm -rf $w; exit 4; fi
if [ $ok = 1 ]; then (cd $w && git diff --no-index --no-color a b | sed -e 's#^diff --git a/a/#diff --git a/#' -e 's# b/b/# b/#' -e 's#^--- a/a/#--- a/#' -e 's#^+++ b/b/#+++ b/#') > $w/out.diff || true
  if [ -s $w/out.diff ]; then cp $w/out.diff "$diff"; echo "rebased $1"; else echo "EMPTY result for $1"; fi
fi
rm -rf $w
