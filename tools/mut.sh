#!/bin/sh
# tools/mut.sh <Cnn> <file> <python-expr transforming s> : apply a textual mutant to a scratch copy and run a check on it
P=$1; F=$2; X=$3
D=$(mktemp -d /tmp/mut.XXXXXX)
cp /repo/*.py $D/
/venv/bin/python - "$D/$F" "$X" <<'PY'
import sys
p,x=sys.argv[1],sys.argv[2]
s=open(p).read()
t=eval(x)
assert t!=s, 'mutant did not change the file'
compile(t,p,'exec')
open(p,'w').write(t)
PY
[ $? -eq 0 ] && (cd /verif && ./check $P --root $D --no-evidence | grep -v "^    at" | cut -c1-260 | tail -6)
rm -rf $D
