"""F17: C01 - the IPsec SAs two peers install for one CHILD_SA are mirror images, selectors included.  Xfrm.create_child_sa took the
protocol of the selector from the LOCAL traffic selector only (child_sa.tsi.ip_proto).  The responder may pick a pair of selectors with
different protocols out of what the initiator offers (the configured TSi, protocol any, with the packet-specific TSr, protocol tcp - both
inside its own policy): the initiator then installs protocol `any`, the responder `tcp`, and whatever else the initiator sends through
the SA is dropped by the responder's kernel.  A packet has to match both selectors, so the protocol of the SA is the one either names.
Run: cd /repo && /venv/bin/python /verif/tools/repro/f17_selector_protocol.py   (exit 1 = defect present)"""
import sys, unittest.mock
from ipaddress import ip_network
sys.path.insert(0, '.')
import test_ikesa
import xfrm
from ikesa import IkeSa
from message import TrafficSelector

import logging
logging.disable(logging.CRITICAL)
calls = []


def spy(cls, src_selector, dst_selector, src_port, dst_port, spi, ip_proto, *rest, **kw):
    calls.append(dict(src=src_selector, dst=dst_selector, sport=src_port, dport=dst_port, spi=bytes(spi), proto=ip_proto))


with unittest.mock.patch('xfrm.Xfrm.send_recv'), unittest.mock.patch.object(xfrm.Xfrm, 'create_sa', classmethod(spy)):
    t = test_ikesa.TestIkeSa('test_initial_exchanges_transport')
    t.setUp()
    alice, bob = t.confdict['testconn_alice']['protect'][0], t.confdict['testconn_bob']['protect'][0]
    for d in (alice, bob):
        d.update(ip_proto='any', mode='tunnel')
        d.pop('peer_port', None)
    alice.update(my_subnet='10.0.1.0/24', peer_subnet='10.0.2.0/24')
    bob.update(my_subnet='10.0.2.5/32', peer_subnet='10.0.0.0/16')
    t.update_ike_sas_configuration()
    a, b = t.ike_sa1, t.ike_sa2
    small_tsi = TrafficSelector.from_network(ip_network('10.0.1.7/32'), 4000, TrafficSelector.IpProtocol.TCP)
    small_tsr = TrafficSelector.from_network(ip_network('10.0.2.5/32'), 80, TrafficSelector.IpProtocol.TCP)
    m = a.process_acquire(small_tsi, small_tsr, 1)
    m = b.process_message(m)
    m = a.process_message(m)
    m = b.process_message(m)
    assert a.process_message(m) is None
    assert a.state == IkeSa.State.ESTABLISHED and b.state == IkeSa.State.ESTABLISHED, (a.state, b.state)
    assert len(a.child_sas) == 1 and len(b.child_sas) == 1
    pass
    pass
    assert len(calls) == 4, calls
    by_spi = {}
    for c in calls:
        by_spi.setdefault(c['spi'], []).append(c)
    bad = 0
    for spi, (x, y) in by_spi.items():
        same = (x['src'], x['dst'], x['sport'], x['dport'], x['proto']) == (y['src'], y['dst'], y['sport'], y['dport'], y['proto'])
        print('SPI %s: %s %s:%s -> %s:%s proto %s | %s:%s -> %s:%s proto %s' % (
            spi.hex(), 'same selector' if same else 'SELECTORS DIFFER', x['src'], x['sport'], x['dst'], x['dport'], x['proto'].name,
            y['src'], y['sport'], y['dst'], y['dport'], y['proto'].name))
        bad += not same
    if bad:
        print('FAIL: the two ends of %d IPsec SA(s) do not have the same selector' % bad)
        sys.exit(1)
    print('PASS')
