"""F16: RFC 7296 2.18 - when an IKE_SA is rekeyed, SKEYSEED = prf(SK_d (old), g^ir (new) | Ni | Nr) is computed with the PRF of the
OLD IKE_SA (the exchange belongs to it); the new IKE_SA's PRF is used from prf+ on.  The code used the PRF negotiated for the NEW
IKE_SA for both, so when the rekey selects another PRF than the old IKE_SA has (both offered, the responder may pick either) the keys
of the new IKE_SA differ from what a conformant peer derives.  Property C04: keys of a rekeyed IKE_SA equal an independent RFC
implementation, for every combination of PRFs.
Run: cd /repo && /venv/bin/python /verif/tools/repro/f16_rekey_skeyseed_prf.py   (exit 1 = defect present)"""
import sys, time, hmac, hashlib, unittest.mock
sys.path.insert(0, '.')
import test_ikesa
from ikesa import IkeSa
from message import Transform

HASH = {Transform.PrfId.PRF_HMAC_SHA1: hashlib.sha1, Transform.PrfId.PRF_HMAC_SHA2_256: hashlib.sha256,
        Transform.PrfId.PRF_HMAC_SHA2_512: hashlib.sha512}


def prf(h, key, data):
    return hmac.new(key, data, h).digest()


def prfplus(h, key, seed, size):
    out, t, i = b'', b'', 1
    while len(out) < size:
        t = prf(h, key, t + seed + bytes([i]))
        out += t
        i += 1
    return out[:size]


calls = []
orig = IkeSa.generate_ike_sa_key_material


def spy(self, ike_proposal, nonce_i, nonce_r, spi_i, spi_r, shared_secret, old_sk_d=None, **kw):
    ring = orig(self, ike_proposal, nonce_i, nonce_r, spi_i, spi_r, shared_secret, old_sk_d, **kw)
    calls.append(dict(sa=self, proposal=ike_proposal, ni=nonce_i, nr=nonce_r, spi_i=spi_i, spi_r=spi_r, g=shared_secret, old=old_sk_d, ring=ring))
    return ring


with unittest.mock.patch('xfrm.Xfrm.send_recv'), unittest.mock.patch.object(IkeSa, 'generate_ike_sa_key_material', spy):
    t = test_ikesa.TestIkeSa('test_initial_exchanges_transport')
    t.setUp()
    # both ends offer sha256 and sha512 as PRF; the responder's preference decides
    t.confdict['testconn_alice']['prf'] = ['sha256', 'sha512']
    t.confdict['testconn_bob']['prf'] = ['sha256', 'sha512']
    t.update_ike_sas_configuration()
    t.test_initial_exchanges_transport()
    a, b = t.ike_sa1, t.ike_sa2
    old_prf_id = a.chosen_proposal.get_transform(Transform.Type.PRF).id
    # by the time of the rekey the responder prefers the other PRF (still one of those the initiator offers)
    t.confdict['testconn_bob']['prf'] = ['sha512', 'sha256']
    t.update_ike_sas_configuration()
    calls.clear()
    a.rekey_ike_sa_at = time.time()
    req = a.check_rekey_ike_sa_timer()
    res = b.process_message(req)
    a.process_message(res)
    assert a.new_ike_sa is not None and a.new_ike_sa.state == IkeSa.State.ESTABLISHED, a.state
    bad = []
    for c in calls:
        new_prf_id = c['proposal'].get_transform(Transform.Type.PRF).id
        h_old, h_new = HASH[old_prf_id], HASH[new_prf_id]
        skeyseed = prf(h_old, c['old'], c['g'] + c['ni'] + c['nr'])                 # RFC 7296 2.18: the old IKE_SA's prf
        sk_d = prfplus(h_new, skeyseed, c['ni'] + c['nr'] + c['spi_i'] + c['spi_r'], h_new().digest_size)[:h_new().digest_size]
        who = 'initiator' if c['sa'].is_initiator else 'responder'
        print('%s: old prf %s, new prf %s, SK_d %s' % (who, old_prf_id.name, new_prf_id.name, 'as RFC 7296 2.18' if sk_d == c['ring'].sk_d else 'DIFFERS'))
        if sk_d != c['ring'].sk_d:
            bad.append(who)
    if old_prf_id == new_prf_id:
        print('the rekey did not change the PRF: nothing shown')
        sys.exit(2)
    if bad:
        print('FAIL: SK_d of the rekeyed IKE_SA is not the RFC 7296 2.18 value on: ' + ', '.join(bad))
        sys.exit(1)
    print('PASS')
