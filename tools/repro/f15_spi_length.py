"""F15: an authenticated peer proposes a CHILD_SA whose SPI is not 4 octets long.  Xfrm.create_sa raises a ctypes TypeError (not a
NetlinkError), the CHILD_SA stays tracked, the IKE_SA goes to DELETED, and delete_child_sas() raises the same TypeError on every
later attempt - the dead IKE_SA is never removed and the timer section of the event loop aborts at it in every iteration.
Properties C17 (no peer input stops the daemon serving others) / C10 (a DELETED IKE_SA is removed with its kernel state).
Run: cd /repo && /venv/bin/python /verif/tools/repro/f15_spi_length.py   (exit 1 = defect present)"""
import sys, unittest.mock
sys.path.insert(0, '.')
import os
import test_ikesa
from test_ikesa import TrafficSelector, ip_network
from ikesa import IkeSa

real_urandom = os.urandom
with unittest.mock.patch('xfrm.Xfrm.send_recv'):
    t = test_ikesa.TestIkeSa('test_initial_exchanges_transport')
    t.setUp()
    t.test_initial_exchanges_transport()
    a, b = t.ike_sa1, t.ike_sa2
    tsi = TrafficSelector.from_network(ip_network("192.168.0.1/32"), 8765, TrafficSelector.IpProtocol.TCP)
    tsr = TrafficSelector.from_network(ip_network("192.168.0.2/32"), 23, TrafficSelector.IpProtocol.TCP)
    # the peer (alice) picks an 8-octet SPI for the CHILD_SA it proposes; bob runs the unmodified code
    with unittest.mock.patch('ikesa.os.urandom', lambda n: real_urandom(8 if n == 4 else n)):
        req = a.process_acquire(tsi, tsr, 1)
    problems = []
    before = (b.state, b.peer_msg_id, len(b.child_sas))
    try:
        res = b.process_message(req)
    except Exception as ex:   # noqa
        # a message the decoder refuses is dropped by the controller (it logs the error); nothing may have changed
        from message import InvalidSyntax
        if not isinstance(ex, InvalidSyntax) or (b.state, b.peer_msg_id, len(b.child_sas)) != before:
            problems.append('process_message raised %r' % ex)
        else:
            print('bob refused the message while decoding it: %s' % ex)
        res = None
    print('bob: state=%s child_sas=%d reply=%s' % (b.state.name, len(b.child_sas), 'yes' if res else 'no'))
    if b.state == IkeSa.State.DELETED:
        for attempt in (1, 2):
            try:
                b.delete_child_sas()
            except Exception as ex:  # noqa
                problems.append('teardown attempt %d raised %r' % (attempt, ex))
    if problems:
        print('FAIL: ' + '; '.join(problems))
        sys.exit(1)
    print('PASS: the odd SPI was refused (or handled) without an unhandled error; bob state %s, %d CHILD_SA(s)' % (b.state.name, len(b.child_sas)))
