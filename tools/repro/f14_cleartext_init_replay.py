"""F14: once keys exist, a forged cleartext "IKE_SA_INIT request" whose Message ID is the last answered one (not 0) is taken for a
retransmission and answered with the stored response of a LATER exchange (the IKE_AUTH response).  Property C03: an unprotected
datagram elicits no reply other than the re-sent IKE_SA_INIT response to a retransmitted IKE_SA_INIT request.
Run: cd /repo && /venv/bin/python /verif/tools/repro/f14_cleartext_init_replay.py   (exit 1 = defect present)"""
import sys, unittest.mock
sys.path.insert(0, '.')
import test_ikesa
from message import Message, Payload

with unittest.mock.patch('xfrm.Xfrm.send_recv'):
    t = test_ikesa.TestIkeSa('test_initial_exchanges_transport')
    t.setUp()
    a, b = t.ike_sa1, t.ike_sa2
    small_tsi = test_ikesa.TrafficSelector.from_network(test_ikesa.ip_network("192.168.0.1/32"), 8765, test_ikesa.TrafficSelector.IpProtocol.TCP) \
        if hasattr(test_ikesa, 'TrafficSelector') else None
    # drive the initial exchanges the way the fixture's own tests do
    t.test_initial_exchanges_transport() if hasattr(t, 'test_initial_exchanges_transport') else None
    a, b = t.ike_sa1, t.ike_sa2
    assert b.peer_crypto is not None and b.peer_msg_id >= 2, (b.state, b.peer_msg_id)
    before = (b.state, b.peer_msg_id, b.my_msg_id)
    forged = Message(spi_i=a.my_spi, spi_r=b.my_spi, major=2, minor=0, exchange_type=Message.Exchange.IKE_SA_INIT,
                     is_response=False, can_use_higher_version=False, is_initiator=True, message_id=b.peer_msg_id - 1,
                     payloads=[], encrypted_payloads=[], crypto=None)
    reply = b.process_message(forged.to_bytes())
    after = (b.state, b.peer_msg_id, b.my_msg_id)
    if reply:
        r = Message.parse(bytes(reply), header_only=True)
        print('FAIL: cleartext IKE_SA_INIT request with Message ID %d elicited a %d-octet reply of exchange type %s (ID %d)' % (
            forged.message_id, len(reply), r.exchange_type.name, r.message_id))
        sys.exit(1)
    print('PASS: no reply; state/counters', before, '->', after)
