"""F5 (C03/U2): cleartext messages sent to an IKE_SA that has keys.  Run: cd <repo> && /venv/bin/python <this>"""
import sys, unittest
from unittest.mock import patch
sys.path.insert(0, '.')
import test_ikesa
from ikesa import IkeSa
from message import Message, PayloadNONCE, Payload


class T(test_ikesa.TestIkeSa):
    def runTest(self):
        pass


def snap(sa):
    return (sa.state, sa.my_msg_id, sa.peer_msg_id, len(sa.child_sas), sa.start_dpd_at)


fails = 0
with patch('xfrm.Xfrm.send_recv'):
    for exch, is_resp in ((Message.Exchange.CREATE_CHILD_SA, False), (Message.Exchange.IKE_AUTH, False),
                          (Message.Exchange.INFORMATIONAL, False), (Message.Exchange.IKE_SA_INIT, False),
                          (Message.Exchange.IKE_SA_INIT, True), (Message.Exchange.INFORMATIONAL, True)):
        t = T()
        t.setUp()
        t.test_initial_exchanges_transport()
        victim, other = t.ike_sa2, t.ike_sa1
        if is_resp:   # make the victim wait for a response
            victim, other = t.ike_sa1, t.ike_sa2
            victim.process_expire(victim.child_sas[0].inbound_spi, hard=True)
        victim.start_dpd_at = 0
        before = snap(victim)
        forged = Message(spi_i=victim.spi_i, spi_r=victim.spi_r, major=2, minor=0, exchange_type=exch,
                         is_response=is_resp, can_use_higher_version=False, is_initiator=not victim.is_initiator,
                         message_id=victim.my_msg_id if is_resp else victim.peer_msg_id,
                         payloads=[PayloadNONCE()], encrypted_payloads=[], crypto=None)
        try:
            reply = victim.process_message(bytes(forged.to_bytes()))
            out = 'reply' if reply else 'no reply'
        except Exception as ex:
            out = 'raised ' + type(ex).__name__
        after = snap(victim)
        ok = before == after and out != 'reply'
        fails += not ok
        print('%-16s %-8s -> %-22s state %s->%s ids %s->%s dpd-reset=%s  %s' % (
            exch.name, 'response' if is_resp else 'request', out, before[0].name, after[0].name, before[1:3], after[1:3],
            before[4] != after[4], 'ok' if ok else 'AFFECTED'))
    # the granted exception: retransmitted IKE_SA_INIT request is answered with the stored response
    t = T(); t.setUp()
    ike_sa_init_req = t.ike_sa1.process_acquire(*t_args) if False else None
print('FAILED' if fails else 'PASSED')
sys.exit(1 if fails else 0)
