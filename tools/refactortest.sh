#!/bin/sh
# tools/refactortest.sh <diff> : apply a behaviour-preserving refactoring to /repo, run the 20 quick checks, list alarms, restore.
P=$1
git -C /repo apply "$P" || { echo "$P: does not apply"; exit 2; }
n=0
for i in 01 02 03 04 05 06 07 08 09 10 11 12 13 14 15 16 17 18 19 20; do
  out=$(cd /verif && ./check C$i --no-evidence 2>&1); rc=$?
  if [ $rc -ne 0 ]; then n=$((n+1)); echo "  C$i exit=$rc"; echo "$out" | grep -v "^    at\|^VIOLATION" | head -${2:-3} | cut -c1-260 | sed 's/^/      /'; fi
done
git -C /repo checkout -q -- .
echo "$P: $n check(s) alarmed"
