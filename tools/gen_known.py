#!/venv/bin/python
"""tools/gen_known.py : (re)generate sa/tables/known_functions.json - the functions of the reference tree (the pinned
commit of /repo plus the fix: commits).  Run only on a clean /repo at the reference commit."""
import json, os, subprocess, sys
sys.path.insert(0, os.path.dirname(os.path.dirname(os.path.abspath(__file__))))
from sa.model import Program
st = subprocess.run(['git', '-C', '/repo', 'status', '--porcelain'], capture_output=True, text=True).stdout.strip()
if st:
    sys.exit('refusing: /repo has local changes')
head = subprocess.run(['git', '-C', '/repo', 'rev-parse', 'HEAD'], capture_output=True, text=True).stdout.strip()
p = Program('/repo', normalise=False)
consts = []
for m in p.modules.values():
    consts += ['%s.%s' % (m.name, k) for k in m.consts]
for c in p.classes.values():
    consts += ['%s.%s' % (c.qual, k) for k in c.attrs]
from sa.resolve import Resolver
cg = Resolver(p).call_graph()
sigs = {q: f.params + ['*'] + f.kwonly for q, f in p.functions.items()}
from sa.normalise import function_refs, identifier_mentions, local_fingerprints
mentions, vocab = identifier_mentions(p)
refs = function_refs(p, {q.split('.')[-1] for q in p.functions})
out = {'reference_commit': head, 'functions': sorted(p.functions), 'constants': sorted(set(consts)),
       'calls': {k: sorted(v) for k, v in sorted(cg.items()) if v}, 'signatures': sigs,
       'mentions': {k: sorted(v) for k, v in sorted(mentions.items())}, 'vocabulary': sorted(vocab),
       'attr_reads': {q: sorted({x.attr for x in __import__('ast').walk(f.node) if isinstance(x, __import__('ast').Attribute)}) for q, f in p.functions.items()},
       'locals': {q: local_fingerprints(f.node) for q, f in sorted(p.functions.items()) if isinstance(f.node, __import__('ast').FunctionDef) and local_fingerprints(f.node)},
       'refs': {q: sorted(v) for q, v in sorted(refs.items()) if v},
       'kinds': {q: ('classmethod' if f.is_classmethod else 'staticmethod' if f.is_staticmethod else 'property' if f.is_property
                     else 'method' if f.cls is not None else 'function') for q, f in p.functions.items()}}
dst = os.path.join(os.path.dirname(os.path.dirname(os.path.abspath(__file__))), 'sa', 'tables', 'known_functions.json')
json.dump(out, open(dst, 'w'), indent=0)
print(len(out['functions']), 'functions ->', dst)
