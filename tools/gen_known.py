#!/venv/bin/python
"""tools/gen_known.py : (re)generate sa/tables/known_functions.json - the functions of the reference tree (the pinned
commit of /repo plus the fix: commits).  Run only on a clean /repo at the reference commit."""
import json, os, subprocess, sys
sys.path.insert(0, os.path.dirname(os.path.dirname(os.path.abspath(__file__))))
from sa.model import Program
st = subprocess.run(['git', '-C', '/repo', 'status', '--porcelain'], capture_output=True, text=True).stdout.strip()
if st:
    sys.exit('refusing: /repo has local changes')
head = subprocess.run(['git', '-C', '/repo', 'rev-parse', 'HEAD'], capture_output=True, text=True).stdout.strip()
p = Program('/repo', normalise=False)
out = {'reference_commit': head, 'functions': sorted(p.functions)}
dst = os.path.join(os.path.dirname(os.path.dirname(os.path.abspath(__file__))), 'sa', 'tables', 'known_functions.json')
json.dump(out, open(dst, 'w'), indent=0)
print(len(out['functions']), 'functions ->', dst)
