#!/venv/bin/python
"""Run /repo's test suite (or the suite of another checkout) and compare with BASELINE.json's stable_pass list.
usage: baseline.py [repo_dir]   exit 0 iff every stable_pass test passes."""
import json, os, subprocess, sys, tempfile, xml.etree.ElementTree as ET
repo = sys.argv[1] if len(sys.argv) > 1 else '/repo'
base = json.load(open('/root/.vp/BASELINE.json'))
want = set(base['stable_pass'])
with tempfile.TemporaryDirectory() as d:
    x = os.path.join(d, 'j.xml')
    subprocess.run(['/venv/bin/python', '-m', 'pytest', '-q', '-p', 'no:cacheprovider', '--timeout=900',
                    '--continue-on-collection-errors', '--junitxml=' + x], cwd=repo,
                   stdout=subprocess.DEVNULL, stderr=subprocess.DEVNULL)
    passed = set()
    for tc in ET.parse(x).getroot().iter('testcase'):
        ok = not any(c.tag in ('failure', 'error', 'skipped') for c in tc)
        name = tc.get('classname') + '::' + tc.get('name')
        if ok:
            passed.add(name)
missing = sorted(want - passed)
print('baseline: %d/%d stable tests pass' % (len(want) - len(missing), len(want)))
for m in missing:
    print('  MISSING', m)
sys.exit(1 if missing else 0)
