#!/venv/bin/python
"""tools/regress.py [--seeds] [--refactors] [--only SUBSTR] : regression of the checks against the kept corpora, in parallel,
on scratch copies of /repo's modules (never touches /repo; REGRESS_SRC=<dir> reads the modules from a snapshot instead,
for use while something else is patching /repo).
  seeds      /verif/seeded/<Cnn>-<v>/patch.diff      must be reported (exit 1) by the check of property Cnn
  refactors  /verif/seeded/refactors/*.diff          behaviour-preserving: every check must stay silent (exit 0)
"""
import concurrent.futures, glob, json, os, shutil, subprocess, sys, tempfile
PROPS = ['C%02d' % i for i in range(1, 21)]
try:
    UNDECIDED = {k: v for k, v in json.load(open('/verif/seeded/UNDECIDED.json')).items() if not k.startswith('_')}
except Exception:
    UNDECIDED = {}


def scratch(patch):
    d = tempfile.mkdtemp(prefix='sa-reg-')
    for p in glob.glob(os.environ.get('REGRESS_SRC', '/repo') + '/*.py'):
        if not os.path.basename(p).startswith('test_'):
            shutil.copy(p, d)
    r = subprocess.run(['git', 'apply', '--exclude=test_*', patch], cwd=d, capture_output=True, text=True)
    if r.returncode != 0:
        shutil.rmtree(d, ignore_errors=True)
        return None, r.stderr[:200]
    return d, ''


def run_check(prop, root):
    r = subprocess.run([os.environ.get('REGRESS_VERIF', '/verif') + '/check', prop, '--root', root, '--no-evidence'], capture_output=True, text=True, cwd=os.environ.get('REGRESS_VERIF', '/verif'))
    lines = [l for l in r.stdout.splitlines() if l and not l.startswith('    at') and not l.startswith('VIOLATION')]
    return r.returncode, lines


def job(args):
    kind, name, patch, props = args
    d, err = scratch(patch)
    if d is None:
        return kind, name, None, 'patch does not apply: ' + err
    try:
        out = {}
        for p in props:
            rc, lines = run_check(p, d)
            if rc != 0:
                out[p] = (rc, lines[:3])
        return kind, name, out, ''
    finally:
        shutil.rmtree(d, ignore_errors=True)


def main():
    a = sys.argv[1:]
    only = a[a.index('--only') + 1] if '--only' in a else None
    verbose = '-v' in a
    props = a[a.index('--props') + 1].split(',') if '--props' in a else PROPS
    jobs = []
    if '--seeds' in a or not any(x in a for x in ('--seeds', '--refactors')):
        sdir = a[a.index('--dir') + 1] if '--dir' in a else '/verif/seeded'
        for d in sorted(glob.glob(sdir + '/C*-*')):
            name = os.path.basename(d)
            if only and only not in name:
                continue
            if '--props' in a and name[:3] not in props:
                continue
            jobs.append(('seed', name, d + '/patch.diff', PROPS if '--all' in a else [name[:3]]))
    if '--refactors' in a or not any(x in a for x in ('--seeds', '--refactors')):
        for f in sorted(glob.glob('/verif/seeded/refactors*/*.diff')):
            name = os.path.basename(f)[:-5]
            if only and only not in name:
                continue
            jobs.append(('refactor', name, f, props))
    bad = 0
    results = {}
    with concurrent.futures.ProcessPoolExecutor(max_workers=14) as ex:
        for kind, name, out, err in ex.map(job, jobs):
            if out is None:
                print('%-9s %-8s ERROR %s' % (kind, name, err)); bad += 1; continue
            results[name] = {'kind': kind, 'reported_by': {k: {'exit': v[0], 'first': v[1][:2]} for k, v in sorted(out.items())}}
            if kind == 'seed':
                own = name[:3]
                rc = out.get(own, (0, []))[0]
                ok = rc == 1
                bad += not ok
                print('%-9s %-8s %s (own check exit=%d%s)' % (kind, name, 'detected' if ok else 'MISSED', rc,
                      ', also: ' + ' '.join('%s=%d' % (k, v[0]) for k, v in out.items() if k != own) if len(out) > (1 if own in out else 0) else ''))
            else:
                # refactorings that remove an anchored function: the listed checks answer exit 2 (undecided) - expected, not an alarm
                exp = set(UNDECIDED.get(name, []))
                und = {k for k, v in out.items() if v[0] == 2 and k in exp}
                ok = not (set(out) - und)
                bad += not ok
                word = 'silent' if not out else ('undecided ' + ' '.join(sorted(und)) + ' (listed in seeded/UNDECIDED.json)') if ok else \
                    'ALARM ' + ' '.join('%s=%d' % (k, v[0]) for k, v in sorted(out.items()))
                print('%-9s %-8s %s' % (kind, name, word))
                if verbose and out:
                    for k, v in sorted(out.items()):
                        for l in v[1]:
                            print('            %s %s' % (k, l[:240]))
    print('regress: %d job(s), %d problem(s)' % (len(jobs), bad))
    if '--all' in a and not only and '--props' not in a and '--dir' not in a:
        json.dump(results, open('/verif/seeded/RESULTS.json', 'w'), indent=1, sort_keys=True)
    sys.exit(1 if bad else 0)


main()
