#!/venv/bin/python
"""tools/regress_merge.py <props> : incremental form of `tools/regress.py --all` for the end of a round, when only some checks
changed: re-runs the checks named in <props> (comma separated) against every kept breaking change, and ALL twenty checks against the
changes that seeded/RESULTS.json does not hold yet, on scratch copies, and merges the outcome into seeded/RESULTS.json (same format).
Refactoring diffs are not run here: every thorough check replays all of them."""
import concurrent.futures, glob, json, os, shutil, subprocess, sys, tempfile
PROPS = ['C%02d' % i for i in range(1, 21)]


def scratch(patch):
    d = tempfile.mkdtemp(prefix='sa-reg-')
    for p in glob.glob('/repo/*.py'):
        if not os.path.basename(p).startswith('test_'):
            shutil.copy(p, d)
    r = subprocess.run(['git', 'apply', '--exclude=test_*', patch], cwd=d, capture_output=True, text=True)
    if r.returncode != 0:
        shutil.rmtree(d, ignore_errors=True)
        return None
    return d


def job(a):
    name, patch, props = a
    d = scratch(patch)
    if d is None:
        return name, None
    try:
        out = {}
        for p in props:
            r = subprocess.run(['/verif/check', p, '--root', d, '--no-evidence'], capture_output=True, text=True, cwd='/verif')
            lines = [l for l in r.stdout.splitlines() if l and not l.startswith('    at') and not l.startswith('VIOLATION')]
            out[p] = (r.returncode, lines[:2])
        return name, out
    finally:
        shutil.rmtree(d, ignore_errors=True)


def main():
    changed = sys.argv[1].split(',')
    res = json.load(open('/verif/seeded/RESULTS.json'))
    jobs = []
    for d in sorted(glob.glob('/verif/seeded/C*-*')):
        name = os.path.basename(d)
        if name in res and os.environ.get('ONLYNEW'):
            continue            # only the changes RESULTS.json does not hold yet (all twenty checks each)
        jobs.append((name, d + '/patch.diff', PROPS if name not in res else changed))
    bad = 0
    with concurrent.futures.ProcessPoolExecutor(max_workers=int(os.environ.get('JOBS', '14'))) as ex:
        for name, out in ex.map(job, jobs):
            if out is None:
                print('seed', name, 'ERROR patch does not apply'); bad += 1; continue
            e = res.setdefault(name, {'kind': 'seed', 'reported_by': {}})
            for p, (rc, lines) in out.items():
                if rc:
                    e['reported_by'][p] = {'exit': rc, 'first': lines}
                else:
                    e['reported_by'].pop(p, None)
            own = e['reported_by'].get(name[:3], {}).get('exit', 0)
            if own != 1:
                bad += 1
                print('seed', name, 'MISSED (own check exit=%d)' % own)
    for f in sorted(glob.glob('/verif/seeded/refactors*/*.diff')):
        res.setdefault(os.path.basename(f)[:-5], {'kind': 'refactor', 'reported_by': {}})
    json.dump(res, open('/verif/seeded/RESULTS.json', 'w'), indent=1, sort_keys=True)
    print('regress_merge: %d seed job(s), %d problem(s); checks re-run on all: %s' % (len(jobs), bad, ','.join(changed)))
    sys.exit(1 if bad else 0)


main()
