#!/venv/bin/python
"""tools/shownorm.py <patch.diff> [func-substr] : apply the patch to a scratch copy, print the normalisation report and the
normalised source of the functions that received inlined code."""
import ast, glob, json, os, shutil, subprocess, sys, tempfile
sys.path.insert(0, os.path.dirname(os.path.dirname(os.path.abspath(__file__))))
from sa.model import Program
d = tempfile.mkdtemp(prefix='sa-norm-')
try:
    for p in glob.glob('/repo/*.py'):
        if not os.path.basename(p).startswith('test_'):
            shutil.copy(p, d)
    r = subprocess.run(['git', 'apply', '--exclude=test_*', os.path.abspath(sys.argv[1])], cwd=d, capture_output=True, text=True)
    if r.returncode:
        sys.exit(r.stderr)
    p = Program(d)
    rep = p.normalisation
    print(json.dumps(rep, indent=1))
    funcs = sorted({c['into'] for c in rep['inlined_calls']})
    for q in funcs:
        if len(sys.argv) > 2 and sys.argv[2] not in q:
            continue
        if q in p.functions:
            print('#' * 20, q)
            print(ast.unparse(p.functions[q].node))
finally:
    shutil.rmtree(d, ignore_errors=True)
