#!/venv/bin/python
"""tools/keepseed.py <Cnn> <a|b> "<what it needs to manifest>" : confirm a sub-agent's seeded change in its scratch worktree
(baseline green with the change, demo passes without and fails with it), run the 20 quick checks against it with the patch applied
to /repo (undone straight afterwards), and keep it as /verif/seeded/<Cnn>-<v>/ {patch.diff, demo.py, NOTES.md, meta.json}."""
import json, os, re, shutil, subprocess, sys
pid, v, needs = sys.argv[1], sys.argv[2], sys.argv[3]
W = sys.argv[sys.argv.index('--wt') + 1] if '--wt' in sys.argv else '/tmp/wt/%s' % pid
save_as = sys.argv[sys.argv.index('--as') + 1] if '--as' in sys.argv else v
P = '%s/_seed/patch_%s.diff' % (W, v)
D = '_seed/demo_%s.py' % v
out = subprocess.run(['/verif/tools/seedtest.sh', W, P, D], capture_output=True, text=True).stdout
lines = out.splitlines()
demo_orig = lines[1].strip() if len(lines) > 1 else '?'
baseline_ok = '176/176' in out
m = re.search(r'--- demo with change:\n(exit=\d+)', out)
demo_changed = m.group(1) if m else '?'
detected = re.findall(r'^(C\d\d) exit=(\d)', out, flags=re.M)
reports = {}
cur = None
for l in lines:
    mm = re.match(r'^(C\d\d) exit=', l)
    if mm:
        cur = mm.group(1); reports[cur] = []
    elif cur and re.match(r'^[A-Z]\d: ', l):
        reports[cur].append(l[:300])
ok = demo_orig == 'exit=0' and baseline_ok and demo_changed == 'exit=1'
print('%s-%s confirmed=%s detected_by=%s' % (pid, v, ok, [d[0] for d in detected if d[1] == '1']))
if not ok:
    sys.exit(1)
dst = '/verif/seeded/%s-%s' % (pid, save_as)
os.makedirs(dst, exist_ok=True)
shutil.copy(P, dst + '/patch.diff')
shutil.copy('%s/%s' % (W, D), dst + '/demo.py')
if os.path.exists(W + '/_seed/NOTES.md'):
    shutil.copy(W + '/_seed/NOTES.md', dst + '/NOTES.md')
meta = {
    'property_broken': pid,
    'variant': save_as,
    'origin': 'independent sub-agent given only the property text and a scratch worktree of /repo (nothing from /verif)',
    'needs_to_manifest': needs,
    'confirmed_by_me': {
        'worktree': W,
        'commands': ['cd %s && /venv/bin/python %s   # original tree' % (W, D), 'git apply %s' % P,
                     '/venv/bin/python /verif/tools/baseline.py %s' % W, 'cd %s && /venv/bin/python %s   # with the change' % (W, D),
                     'git -C /repo apply <patch>; for each Cnn: ./check Cnn; git -C /repo checkout -- .'],
        'demo_on_original': demo_orig, 'baseline_with_change': '176/176 stable tests pass' if baseline_ok else 'FAILED',
        'demo_with_change': demo_changed},
    'how_to_run_demo': 'cd <checkout of /repo with patch.diff applied> && /venv/bin/python <path>/demo.py  (exit 1 = property violated; exit 0 on the unpatched tree)',
    'detected_by': [d[0] for d in detected if d[1] == '1'],
    'analysis_error_in': [d[0] for d in detected if d[1] == '2'],
    'reports': reports,
}
json.dump(meta, open(dst + '/meta.json', 'w'), indent=1)
