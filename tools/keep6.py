import json, os, re, shutil, subprocess, sys, concurrent.futures
sys.path.insert(0, os.path.dirname(os.path.abspath(__file__)))
from needs2 import needs2
PROPS = ['C%02d' % i for i in range(1, 21)]


def check(p):
    r = subprocess.run(['/verif/check', p, '--no-evidence'], capture_output=True, text=True, cwd='/verif')
    lines = [l for l in r.stdout.splitlines() if re.match(r'^[A-Z][A-Z0-9]: ', l)]
    return p, r.returncode, lines[:4]


for W in sys.argv[1:]:
    pid = 'C' + W[1:]
    for k, (v, w) in enumerate((('a', 'q'), ('b', 'r'))):
        if not os.path.exists('/tmp/wt/%s/_seed/confirm_%s.txt' % (W, v)):
            print(pid, v, 'not delivered'); continue
        conf = open('/tmp/wt/%s/_seed/confirm_%s.txt' % (W, v)).read()
        ok = 'demo_orig exit=0' in conf and '176/176' in conf and 'demo_changed exit=1' in conf
        if not ok:
            print(pid, v, 'NOT CONFIRMED', conf); continue
        P = '/tmp/wt/%s/_seed/patch_%s.diff' % (W, v)
        assert subprocess.run(['git', '-C', '/repo', 'status', '--porcelain'], capture_output=True, text=True).stdout.strip() == ''
        r = subprocess.run(['git', '-C', '/repo', 'apply', P], capture_output=True, text=True)
        if r.returncode:
            print(pid, v, 'does not apply to /repo', r.stderr[:200]); continue
        try:
            with concurrent.futures.ThreadPoolExecutor(max_workers=14) as ex:
                res = list(ex.map(check, PROPS))
        finally:
            subprocess.run(['git', '-C', '/repo', 'checkout', '-q', '--', '.'])
        n = needs2('/tmp/wt/%s/_seed/NOTES.md' % W, k) or 'see NOTES.md'
        dst = '/verif/seeded/%s-%s' % (pid, w)
        os.makedirs(dst, exist_ok=True)
        shutil.copy(P, dst + '/patch.diff')
        shutil.copy('/tmp/wt/%s/_seed/demo_%s.py' % (W, v), dst + '/demo.py')
        shutil.copy('/tmp/wt/%s/_seed/NOTES.md' % W, dst + '/NOTES.md')
        for h in os.listdir('/tmp/wt/%s/_seed' % W):  # helper modules a demonstration imports
            if h.endswith('.py') and not re.match(r'demo_[ab]\.py$', h):
                shutil.copy('/tmp/wt/%s/_seed/%s' % (W, h), dst + '/' + h)
        meta = {
            'property_broken': pid, 'variant': w,
            'origin': 'independent sub-agent given only the property text and a scratch worktree of /repo (nothing from /verif)',
            'needs_to_manifest': n[:700],
            'confirmed_by_me': {'worktree': '/tmp/wt/' + W,
                                'commands': ['cd /tmp/wt/%s && /venv/bin/python _seed/demo_%s.py   # original tree' % (W, v), 'git apply _seed/patch_%s.diff' % v,
                                             '/venv/bin/python /verif/tools/baseline.py /tmp/wt/%s' % W, '/venv/bin/python _seed/demo_%s.py   # with the change' % v,
                                             'git -C /repo apply <patch>; for each Cnn: ./check Cnn; git -C /repo checkout -- .'],
                                'demo_on_original': 'exit=0', 'baseline_with_change': '176/176 stable tests pass', 'demo_with_change': 'exit=1'},
            'how_to_run_demo': 'cd <checkout of /repo with patch.diff applied> && /venv/bin/python <path>/demo.py  (exit 1 = property violated; exit 0 on the unpatched tree)',
            'detected_by': [p for p, rc, _ in res if rc == 1],
            'analysis_error_in': [p for p, rc, _ in res if rc == 2],
            'reports': {p: l for p, rc, l in res if rc},
        }
        json.dump(meta, open(dst + '/meta.json', 'w'), indent=1)
        print(pid, w, 'kept; detected_by', meta['detected_by'], 'undecided', meta['analysis_error_in'])
print('repo status:', subprocess.run(['git', '-C', '/repo', 'status', '--porcelain'], capture_output=True, text=True).stdout.strip() or 'clean')
