import re,sys
def needs(path, idx):
    L=open(path).read().splitlines()
    out=[]
    i=0
    while i<len(L):
        if re.match(r'^\s*[-*]\s*(\*\*)?(What it n|N)eeds', L[i], flags=re.I) or re.match(r'^\s*[-*]\s*(\*\*)?What it needs', L[i], flags=re.I):
            para=[L[i].strip()]
            i+=1
            while i<len(L) and L[i].startswith('  ') and not re.match(r'^\s*[-*] ', L[i]):
                para.append(L[i].strip()); i+=1
            t=' '.join(para)
            t=re.sub(r'^[-*]\s*(\*\*)?(What it needs to manifest|What it needs|Needs to manifest|Needs)(\*\*)?\s*:?\s*(\*\*)?\s*','',t,flags=re.I)
            out.append(t)
        else:
            i+=1
    return out[idx] if idx<len(out) else None
if __name__=='__main__':
    for s in sys.argv[1:]:
        for k,v in enumerate('ab'):
            print(s,v,'::',needs('/tmp/wt/%s/_seed/NOTES.md'%s,k))
