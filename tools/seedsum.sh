#!/bin/sh
# tools/seedsum.sh <ID> [a|b] : one summary line per seeded variant
ID=$1
for v in ${2:-a b}; do
  W=/tmp/wt/$ID; P=$W/_seed/patch_$v.diff; D=_seed/demo_$v.py
  [ -f "$P" ] || { echo "$ID-$v: no patch"; continue; }
  out=$(/verif/tools/seedtest.sh $W $P $D 2>&1)
  o=$(echo "$out" | sed -n 2p); b=$(echo "$out" | grep -c "176/176"); w=$(echo "$out" | grep -A1 "demo with change" | tail -1)
  c=$(echo "$out" | grep "^C[0-9][0-9] exit=" | tr '\n' ' ')
  echo "$ID-$v: demo-orig $o, baseline-ok=$b, demo-changed $w | detected by: ${c:-NONE}"
done
