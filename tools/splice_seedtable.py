#!/venv/bin/python
"""tools/splice_seedtable.py : replace the table of kept changes in DESIGN.md 8.7 by the output of tools/seedtable.py"""
import subprocess, re
p = '/verif/DESIGN.md'
s = open(p).read()
tab = subprocess.run(['/venv/bin/python', '/verif/tools/seedtable.py'], capture_output=True, text=True, check=True).stdout.strip('\n')
head = '| seed | change (all keep 176/176) |'
i = s.index(head)
j = i
lines = s[i:].split('\n')
n = 0
for l in lines:
    if l.startswith('|'):
        n += 1
    else:
        break
end = i + sum(len(l) + 1 for l in lines[:n])
s = s[:i] + tab + '\n' + s[end:]
open(p, 'w').write(s)
print('spliced %d rows' % (len(tab.split('\n')) - 2))
