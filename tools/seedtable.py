#!/venv/bin/python
"""tools/seedtable.py : markdown table of the kept breaking changes (seeded/<Cnn>-<v>/) for DESIGN.md 8.7, from each seed's
meta.json (what it needs to manifest) and seeded/RESULTS.json (written by `tools/regress.py --all`: which checks report it, with
which rule).  Titles are written by hand below (one line per change: where, and what the edit looks like)."""
import glob, json, os, re

T = {
 'C01-a': 'ikesa.py: CHILD_SA key direction taken from the IKE_SA role instead of the exchange role',
 'C01-b': 'ikesa.py: initiator sizes CHILD_SA keys from the proposal it offered, not the one chosen',
 'C01-c': 'xfrm.py+ikesa.py: "simplified" key direction from the IKE_SA role (two cooperating sites)',
 'C01-d': 'ikesa.py: responder-side DH helper keeps its state in `self.dh` (clobbers an outstanding exchange)',
 'C02-a': 'ikesa.py: CREATE_CHILD_SA request admitted in INIT_RES_SENT (before IKE_AUTH)',
 'C02-b': 'configuration.py+ikesa.py: empty-string PSK default + PSK guard dropped in the verifier',
 'C02-c': 'ikesa.py: request state gate via `_states_up_to()` loses its lower bound',
 'C02-d': 'ikesa.py: "no PSK configured" becomes "empty PSK configured"',
 'C03-a': 'message.py: payload-less cleartext message keeps its `crypto` (protected indicator)',
 'C03-b': 'ikesa.py: cleartext gate only for established states',
 'C03-c': 'ikesa.py: cleartext gate compares the state numerically and misses INIT_RES_SENT',
 'C03-d': 'ikesacontroller.py: error cleanup removes a keyed half-open IKE_SA on any parse error',
 'C04-a': 'crypto.py: MODP shared secret loses leading zero octets',
 'C04-b': 'ikesa.py: new `_child_sa_keyseed` orders Ni|Nr by IKE_SA role',
 'C04-c': 'crypto.py: MODP shared secret via `int.to_bytes` of the minimal length',
 'C04-d': 'ikesa.py: initiator derives CHILD_SA keys for the offered proposal',
 'C05-a': 'message.py: SA "more" octet by equality with the last element',
 'C05-b': 'message.py: critical bit read as "octet non-zero"',
 'C05-c': 'message.py: `_pack_substructures` helper decides "more" by value equality',
 'C05-d': 'message.py: datagram trimmed to the header length field (trailing octets accepted)',
 'C06-a': 'message.py: TS parse advances by the declared selector length (0 = no progress)',
 'C06-b': 'crypto.py: Cipher lets a short body reach the block cipher (ValueError)',
 'C06-c': 'message.py: in-place traffic selector parsing (cursor by declared length)',
 'C06-d': 'crypto.py: shared `_get_cipher` helper loses the key-size check of decrypt',
 'C07-a': 'message.py: ICV taken from the end of the datagram, not of the header length',
 'C07-b': 'crypto.py: SHA1 ICV length 10',
 'C07-c': 'crypto.py: Integrity table: SHA1-96 truncated to 10 octets',
 'C07-d': 'message.py: datagram trimmed to the header length before the MAC check',
 'C08-a': 'ikesa.py: any older request ID answered from the cached response',
 'C08-b': 'ikesa.py: response ID compared with the retained request, not the send counter',
 'C08-c': 'ikesa.py: response matched against the last request object instead of the send counter',
 'C08-d': 'ikesa.py: INVALID_KE retry not recorded as the outstanding request',
 'C09-a': 'ikesa.py: TEMPORARY_FAILURE answer to IKE rekey requests narrowed to a state range without DPD_REQ_SENT',
 'C09-b': 'ikesa.py: retransmission timer misses DEL_AFTER_REKEY_IKE_SA_REQ_SENT',
 'C09-c': 'ikesa.py: `_create_successor_ike_sa` hands the CHILD_SA list over at request time',
 'C09-d': 'ikesa.py: `IkeSa.State` renumbering vs. `range()` users',
 'C10-a': 'ikesa.py+xfrm.py: crossed deletes remove only the outbound half',
 'C10-b': 'xfrm.py: second DELSA skipped when the first fails',
 'C10-c': 'ikesa.py: initiator installs the CHILD_SA before tracking it (second NEWSA fails)',
 'C10-d': 'ikesa.py: `delete_child_sas` walks the list it removes from',
 'C11-a': 'message.py: `Proposal.intersection` keeps the last common transform',
 'C11-b': 'ikesa.py: `handle_invalid_ke` looks the group up among all transform ids',
 'C11-c': 'ikesa.py: `handle_invalid_ke` membership test over transform ids of any type',
 'C11-d': 'message.py: `Proposal.__eq__` via a dict keyed by transform type',
 'C12-a': 'message.py: `is_subset` skips the comparison for ip_proto any',
 'C12-b': 'ikesa.py: initiator checks only the first returned selector',
 'C12-c': 'message.py: `is_subset` compares (port, address) tuples lexicographically',
 'C12-d': 'xfrm.py: inbound SA keeps the outbound port order',
 'C13-a': 'ikesa.py: explicit "request outstanding" list misses DPD_REQ_SENT',
 'C13-b': 'ikesa.py: soft lifetime tested before the hard lifetime',
 'C13-c': 'message.py: IV generated lazily and never stored (retransmission differs)',
 'C13-d': 'ikesa.py: `_schedule_rekey()` re-arms the hard lifetime too',
 'C14-a': 'xfrm.py: one address family for selector and endpoints',
 'C14-b': 'netlink.py: replies filtered by (seq, pid)',
 'C14-c': 'xfrm.py: "deduplicated" address-family expression',
 'C14-d': 'xfrm.py: lifetime literal factored into helpers (hard limit lost)',
 'C15-a': 'ikesacontroller.py: acquire selectors typed by the tunnel endpoints',
 'C15-b': 'xfrm.py: policies de-duplicated by (subnets, ports)',
 'C15-c': 'xfrm.py: one `family` for policy selector and template',
 'C15-d': 'ikesacontroller.py: only "live established" IKE_SAs are re-used',
 'C16-a': 'ikesacontroller.py: exception cleanup removes by SPI (a live IKE_SA)',
 'C16-b': 'ikesacontroller.py: rekeyed IKE_SA registered by position',
 'C16-c': 'ikesacontroller.py: successor registered when the rekey is attempted (phantom entry)',
 'C16-d': 'ikesacontroller.py: EXPIRE lookup skips IKE_SAs that await a response',
 'C17-a': 'message.py: unknown payload with length 0 loops',
 'C17-b': 'ikesacontroller.py: timer-driven sends outside the try',
 'C17-c': 'message.py: TS selector length 0 hangs the parser',
 'C17-d': 'ikesacontroller.py: error path removes the half-open IKE_SA of another peer',
 'C18-a': 'ikesa.py: cookie no longer bound to the source address',
 'C18-b': 'ikesacontroller.py: cached "under load" decision',
 'C18-c': 'ikesa.py: `InvalidCookie` subclass escapes the COOKIE answer',
 'C18-d': 'ikesa.py: stale retained request after the COOKIE retry',
 'C19-a': 'configuration.py: AH entries get a default encryption',
 'C19-b': 'configuration.py: narrowed catch-all in the error mapping',
 'C19-c': 'configuration.py: `_load_int` helper with `or default`',
 'C19-d': 'configuration.py: alias de-duplication keyed by transform id (drops a key size)',
 'C20-a': 'netlink.py: NetlinkError text carries the serialised request (CHILD_SA keys)',
 'C20-b': 'ikesa.py: TsUnacceptable text renders the configuration record (PSKs)',
 'C20-c': 'ikesa.py: AuthenticationFailed text renders the credential tuple (PSK)',
 'C20-d': 'netlink.py: request hex dump at WARNING on kernel errors',
 'C01-e': 'ikesa.py (addition): a new CHILD_SA inherits the selectors of `rekeying_child_sa`, which is never cleared',
 'C01-f': 'ikesa.py (data): `create_child_sa(..., is_initiator=self.is_initiator)` - IKE_SA role instead of exchange role',
 'C02-e': 'ikesa.py (addition): per-IKE_SA memo of the PSK key pad, shared by signing and verifying',
 'C02-f': 'ikesa.py (data): INIT_REQ_SENT / AUTH_REQ_SENT renumbered into the range the CREATE_CHILD_SA gate admits',
 'C03-e': 'ikesacontroller.py (addition): reply cache keyed by the clear header, consulted before process_message',
 'C03-f': 'crypto.py (data): Integrity table entry (sha1, 12): a one-octet ICV',
 'C04-e': 'ikesa.py (addition): `_new_dh` helper stores the responder-side DH object in `self.dh`',
 'C04-f': 'ikesa.py (data): KEYMAT split format arguments swapped (encr/integ widths exchanged)',
 'C05-e': 'message.py (addition): `Message.to_bytes` memoises its octets (stale after the COOKIE retry edits the message)',
 'C05-f': 'crypto.py (data): Integrity table entry (sha1, 160): an untruncated 20-octet ICV',
 'C06-e': 'message.py (addition): TLV transform attributes advance by their length field (0 = no progress)',
 'C06-f': 'message.py (data): new payload type 53 registered as PayloadSK (AttributeError escapes the parser)',
 'C07-e': 'crypto.py (addition): `Integrity.bind_key` fast path on an object shared by both directions',
 'C07-f': 'crypto.py (data): `hash_size` = digest_size // 2 (10 octets for SHA1)',
 'C08-e': 'ikesa.py (addition): hard EXPIRE in DPD_REQ_SENT resets the state and sends a second request with the same ID',
 'C08-f': 'ikesa.py (data): the successor IKE_SA is built with `self.is_initiator` on both roles',
 'C09-e': 'ikesacontroller.py (addition): "last used IKE_SA" fast path in the SPI lookup outlives the table entry',
 'C09-f': 'ikesa.py (data): DEL_AFTER_REKEY_IKE_SA_REQ_SENT renumbered out of the retransmission range',
 'C10-e': 'ikesa.py (addition): `except NetlinkError` in the CREATE_CHILD_SA response path untracks without deleting',
 'C10-f': 'ikesa.py (data): `IkeSa.__init__` parameter order my_addr/peer_addr swapped (positional callers at rekey)',
 'C11-e': 'message.py (addition): `Proposal.is_subset` fast path by plain set inclusion',
 'C11-f': 'ikesa.py (data): `chosen.intersection(mine)` instead of `mine.intersection(chosen)`',
 'C12-e': 'message.py (addition): `TrafficSelector.parse` widens the ports when the protocol is ANY',
 'C12-f': 'message.py (data): `get_port` returns the start of the range (0 = any port for the kernel)',
 'C13-e': 'ikesa.py (addition): retransmission bytes memoised by message ID (stale after COOKIE / INVALID_KE retries)',
 'C13-f': 'ikesa.py (data): DPD_REQ_SENT renumbered out of the retransmission range',
 'C14-e': 'xfrm.py (addition): `from_ipaddr` converts IPv4-mapped IPv6 addresses while the family stays AF_INET6',
 'C14-f': 'netlink.py (data): `NetlinkErrorMsg.error` declared c_uint32',
 'C15-e': 'ikesacontroller.py (addition): memo of handled ACQUIREs drops later ACQUIREs of the same policy',
 'C15-f': 'xfrm.py (data): `prefixlen_d` / `prefixlen_s` swapped in `XfrmSelector._fields_`',
 'C16-e': 'ikesacontroller.py (addition): memo CHILD_SA SPI -> IKE_SA survives the hand-over at rekey',
 'C16-f': 'ikesa.py (data): DEL_AFTER_REKEY_IKE_SA_REQ_SENT renumbered out of the retransmission range (entry never removed)',
 'C17-e': 'message.py (addition): TLV transform attribute with length 0 hangs the parser',
 'C17-f': 'ikesa.py (data): two IkeSa.State members share a value (alias): `None` is appended to the table',
 'C18-e': 'ikesacontroller.py (addition): "retransmitted IKE_SA_INIT" fast path by SPI, before the cookie logic',
 'C18-f': 'ikesa.py (data): cookie computed over `my_addr` instead of the initiator address',
 'C19-e': 'configuration.py (addition): ids starting with a letter are classified as names before ip_address() is tried',
 'C19-f': 'configuration.py (data): `ip_network(value, strict=False)`',
 'C20-e': 'ikesa.py (addition): bounded memo of PSK key pads; its KeyError carries the PSK into an ERROR record',
 'C20-f': "configuration.py (data): `.encode('ascii')`: the UnicodeEncodeError repr carries the PSK into an ERROR record",

}


def first_sentence(s, n=170):
    s = re.sub(r'\s+', ' ', s).strip()
    m = re.match(r'(.{40,%d}?)(?:[.;] |$)' % n, s)
    out = (m.group(1) if m else s[:n]).rstrip(' .;')
    return out.replace('|', '/')


def main():
    res = json.load(open('/verif/seeded/RESULTS.json')) if os.path.exists('/verif/seeded/RESULTS.json') else {}
    print('| seed | change (all keep 176/176) | needs, to show | own rule(s) reporting | other checks reporting |')
    print('|------|---------------------------|----------------|-----------------------|------------------------|')
    for d in sorted(glob.glob('/verif/seeded/C*-*')):
        n = os.path.basename(d)
        m = json.load(open(d + '/meta.json'))
        r = res.get(n, {}).get('reported_by', {})
        own = r.get(n[:3], {})
        rules = sorted({l.split(':')[0] for l in own.get('first', []) if re.match(r'^[A-Z]\d[a-z]?:', l)})
        others = ['%s%s' % (k, '' if v['exit'] == 1 else ' (exit %d)' % v['exit']) for k, v in sorted(r.items()) if k != n[:3]]
        print('| %s | %s | %s | %s | %s |' % (n, T.get(n, '?'), first_sentence(m['needs_to_manifest']),
                                           (n[:3] + ' ' + ','.join(rules)) if own.get('exit') == 1 else 'MISSED',
                                           ', '.join(others) or '-'))


main()
