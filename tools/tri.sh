#!/bin/sh
# tools/tri.sh <patch> <Cnn> : run one check against a scratch copy of /repo's modules with the patch applied (never touches /repo)
d=$(mktemp -d /tmp/sa-tri-XXXXXX)
cp /repo/*.py $d/ 2>/dev/null; rm -f $d/test_*.py
(cd $d && git apply --exclude='test_*' "$1") || { echo "patch does not apply"; rm -rf $d; exit 3; }
shift
/verif/check "$@" --root $d --no-evidence
rc=$?
rm -rf $d
exit $rc
