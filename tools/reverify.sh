#!/bin/bash
# reverify.sh <seed-dir>: demo exit 0 on HEAD, exit 1 with the patch, baseline 176 with the patch (scratch copy)
s=$1; t=$(mktemp -d /tmp/rv-XXXX)
git -C /repo archive HEAD | tar -x -C $t
mkdir -p $t/_seed; cp $s/*.py $t/_seed/; cp $s/demo.py $t/_seed/demo_x.py
cd $t
/venv/bin/python _seed/demo_x.py >/dev/null 2>&1; a=$?
git init -q . 2>/dev/null; git apply $s/patch.diff || echo "NOAPPLY"
/venv/bin/python _seed/demo_x.py >/dev/null 2>&1; b=$?
bl=$(/venv/bin/python /verif/tools/baseline.py $t 2>&1 | tail -1)
echo "$(basename $s): orig=$a patched=$b $bl"
cd /; rm -rf $t
