#!/bin/bash
# tools/withpatch.sh <patch.diff> <Cnn> [check args] : run one check against a scratch copy of /repo's modules with the patch applied
d=$(mktemp -d /tmp/sa-wp-XXXX)
cp /repo/*.py $d/ && rm -f $d/test_*.py
P=$(realpath "$1"); (cd $d && git apply --exclude="test_*" "$P") || { rm -rf $d; exit 9; }
shift
p=$1; shift
/verif/check $p --root $d --no-evidence "$@"
rc=$?
rm -rf $d
exit $rc
