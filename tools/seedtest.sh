#!/bin/sh
# tools/seedtest.sh <worktree dir> <patch file> <demo file> : confirm a seeded change (baseline green, demo fails with / passes without)
# and run all 20 quick checks against it (patch applied to /repo, undone straight afterwards).
W=$1; P=$2; D=$3
cd "$W" || exit 2
git checkout -q -- . 
echo "--- demo on original:"; /venv/bin/python "$D" >/dev/null 2>&1; echo "exit=$?"
git apply "$P" || { echo "patch does not apply in worktree"; exit 2; }
echo "--- baseline with change:"; /venv/bin/python /verif/tools/baseline.py "$W" | head -3
echo "--- demo with change:"; /venv/bin/python "$D" >/dev/null 2>&1; echo "exit=$?"
git checkout -q -- .
cd /verif
git -C /repo apply "$P" || { echo "patch does not apply to /repo"; exit 2; }
echo "--- checks on /repo with change:"
for i in 01 02 03 04 05 06 07 08 09 10 11 12 13 14 15 16 17 18 19 20; do
  out=$(./check C$i --no-evidence 2>&1); rc=$?
  if [ $rc -ne 0 ]; then echo "C$i exit=$rc"; echo "$out" | grep -v "^    at\|^VIOLATION" | head -4 | cut -c1-230; fi
done
git -C /repo checkout -q -- .
echo "--- /repo restored: $(git -C /repo status --short | wc -l) modified files"
