#!/venv/bin/python
"""Regenerate MANIFEST.json from the rule modules that exist (sa/rules/cNN.py with a MANIFEST dict).
Properties without a rule module are listed under not_applicable with the reason given in NA below."""
import importlib, json, os, sys, subprocess
sys.path.insert(0, '/verif')
props = [json.loads(l) for l in open('/verif/properties.jsonl')]
NA = {}
NA_DEFAULT = 'check not built yet (DESIGN.md section 6 build order); will be claimed for its structural clause'
commits = subprocess.run(['git', '-C', '/repo', 'log', '--format=%H %s'], capture_output=True, text=True).stdout.splitlines()
fix_commits = [c.split()[0] for c in commits if c.split(' ', 1)[1].startswith('fix:')]
checks, na, served = [], [], []
for p in props:
    pid = p['id']
    path = '/verif/sa/rules/%s.py' % pid.lower()
    meta = None
    if os.path.exists(path):
        mod = importlib.import_module('sa.rules.' + pid.lower())
        meta = getattr(mod, 'MANIFEST', None)
    if meta is None:
        na.append({'property_id': pid, 'reason': NA.get(pid, NA_DEFAULT)})
        continue
    served.append(pid)
    checks.append({
        'property_id': pid,
        'quick_cmd': './check %s --tier quick' % pid,
        'thorough_cmd': './check %s --tier thorough' % pid,
        'evidence_file': '/verif/evidence/%s.json' % pid,
        'replay_cmd_template': './check %s --replay {path}' % pid,
        'engine': 'sa',
        'level_claimed': {'category': 'other', 'text': meta['level'], 'design_ref': meta.get('design_ref', 'DESIGN.md section 3 ' + pid)},
        'level_note': meta['note'] + ' Every check also carries rule SS (run by the driver): the state the analysed functions keep per object '
                      '(IKE_SA, message, cipher context, configuration record) is not shared between objects - no class-/module-level '
                      'container, class attribute, mutable default or memoised mutable result is written at run time (DESIGN.md 8.7, round 6).',
        'technique': meta['technique'],
    })
m = {
    'version': 1,
    'setup_cmd': 'true',
    'hooks': {'guard': 'ALEJANDRO_PEREZ_PYIKEV2_VERIF',
              'enable': 'none needed: static analysis reads /repo\'s working tree as it is; no hook was added to the repository',
              'baseline_off_cmd': 'cd /repo && /venv/bin/python -m pytest -ra -q -p no:cacheprovider --timeout=900 --continue-on-collection-errors',
              'source_commits': [], 'add_only': True},
    'engines': [{'name': 'sa', 'path': '/verif/sa', 'serves_properties': served,
                 'kind_free_text': 'repository-specific static analysis over ast: program model, callee resolution, statement CFG with exception edges, exception-escape fixpoint, loop variants, typestate, dominance/must-pass-through, term extraction, codec agreement, pairing, taint, UAPI layout; pure stdlib, never imports or runs repository code'}],
    'checks': checks,
    'notes': 'Static-analysis family only (DESIGN.md). Exit 0 ok / 1 VIOLATION / 2 ANALYSIS-ERROR. Repairs of genuine defects are fix: commits in /repo, recorded in known_findings.json: ' + ', '.join(c[:7] for c in fix_commits),
    'not_applicable': na,
}
json.dump(m, open('/verif/MANIFEST.json', 'w'), indent=1)
print('checks:', served, 'not_applicable:', [x['property_id'] for x in na])
