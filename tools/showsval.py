#!/venv/bin/python
"""tools/showsval.py <qual> [root] : print the value terms of a function (calls with arguments, stores, returns)"""
import sys, os
sys.path.insert(0, os.path.dirname(os.path.dirname(os.path.abspath(__file__))))
from sa.model import Program
from sa.resolve import Resolver
from sa.sval import SVal, show, show_pc
p = Program(sys.argv[2] if len(sys.argv) > 2 else '/repo')
r = Resolver(p)
fi = p.func(sys.argv[1])
sv = SVal(p, r, fi)
for c in sv.calls:
    print('L%-4s %-40s %s' % (c.node.lineno, c.callee if isinstance(c.callee, str) else str(c.callee)[:40], show_pc(c.pc)[:150]))
    for k, v in c.args.items():
        print('        %s = %s' % (k, show(v)[:260]))
for t, v, pc, st, _ in sv.stores:
    print('STORE L%s %s = %s   [%s]' % (st.lineno, show(t), show(v)[:200], show_pc(pc)[:100]))
for pc, t, st in sv.returns:
    print('RETURN L%s %s   [%s]' % (st.lineno, show(t)[:600], show_pc(pc)[:150]))
for pc, t, st in sv.raises:
    print('RAISE L%s %s   [%s]' % (st.lineno, show(t)[:100], show_pc(pc)[:200]))
