"""Queries and patterns over value terms (sa.sval).

A pattern is a term in which ('global', '?_')  matches anything and ('global', '?_name') matches anything and must
match the same term wherever it occurs again.  Patterns are written as Python expressions over the function's
parameters and evaluated by SVal.expr, e.g.  `request.get_payload(Payload.Type.NONCE, _).nonce`.
A call in a pattern matches a call to the same callee on a matching receiver whose listed arguments match; arguments
the pattern does not list are not constrained.  Loop / try identifiers never matter.
"""
from .sval import NONE, show, strip_ids, subterms


def is_wild(p):
    return isinstance(p, tuple) and len(p) == 2 and p[0] == 'global' and isinstance(p[1], str) and p[1].startswith('?_')


def match(p, t, binds=None):
    """bindings dict when term t matches pattern p, else None"""
    binds = {} if binds is None else binds
    return binds if _m(strip_ids(p), strip_ids(t), binds) else None


def _m(p, t, b):
    if is_wild(p):
        name = p[1][2:]
        if name:
            if name in b:
                return b[name] == t
            b[name] = t
        return True
    if not isinstance(p, tuple) or not isinstance(t, tuple):
        return p == t
    if p and t and p[0] == 'call' and t[0] == 'call':
        if p[1] != t[1] and not (isinstance(p[1], tuple) and p[1] and p[1][0] == 'dyn' and is_wild(p[1][1])):
            return False
        if not _m(p[2], t[2], b):
            return False
        ta = dict(t[3])
        for k, v in p[3]:
            if k not in ta or not _m(v, ta[k], b):
                return False
        return True
    if len(p) != len(t):
        return False
    return all(_m(x, y, b) for x, y in zip(p, t))


def find(t, pred):
    return [x for x in subterms(t) if isinstance(x, tuple) and x and pred(x)]


def find_calls(t, callee=None, prefix=None):
    out = []
    for x in subterms(t):
        if isinstance(x, tuple) and len(x) in (4, 5) and x[0] == 'call':
            if callee is not None and x[1] != callee:
                continue
            if prefix is not None and not (isinstance(x[1], str) and x[1].startswith(prefix)):
                continue
            out.append(x)
    return out


def is_call(t, callee=None):
    return isinstance(t, tuple) and len(t) in (4, 5) and t[0] == 'call' and (callee is None or t[1] == callee)


def args(t):
    return dict(t[3])


def recv(t):
    return t[2]


def text(t, limit=400):
    s = show(strip_ids(t))
    return s if len(s) <= limit else s[:limit] + '...'


def contains(t, sub):
    sub = strip_ids(sub)
    return any(x == sub for x in subterms(strip_ids(t)))


def contains_match(t, pattern):
    for x in subterms(strip_ids(t)):
        if isinstance(x, tuple) and match(pattern, x) is not None:
            return True
    return False


def items_of(t):
    """items of a list / add term as (pc, each-info, item) with conditions flattened"""
    out = []
    for it in t[1]:
        pc, loops = (), ()
        while isinstance(it, tuple) and it and it[0] in ('when', 'each'):
            if it[0] == 'when':
                pc += tuple(it[1])
                it = it[2] if len(it) == 3 else ('kv', it[2], it[3])
            else:
                loops += ((it[1], it[2]),)
                pc += tuple(it[3])
                it = it[4]
        out.append((pc, loops, it))
    return out


class NoValue(Exception):
    pass


def teval(t, leaf=None, sv=None):
    """Python value of a term built from constants, arithmetic, comparisons, gates, tuples and len(); `leaf(term)` gives
    the value of anything else (or raises NoValue); with `sv` (an SVal) named module / class constants evaluate to their
    value.  Finite-abstraction evaluation over terms."""
    if leaf is not None:
        try:
            return leaf(t)
        except NoValue:
            pass
    k = t[0]
    if k == 'global' and sv is not None:
        v = sv.value_of(t)
        if isinstance(v, (int, str, bytes, tuple)) or v is None:
            return v
    ev = lambda x: teval(x, leaf, sv)
    if k == 'const':
        return t[2]
    if k == 'fstr':
        out = ''
        for x in t[1]:
            if x[0] == 'const':
                out += str(x[2])
            elif x[0] == 'fmt' and x[2] == -1 and not x[3]:
                out += format(ev(x[1]))
            else:
                raise NoValue(text(t, 80))
        return out
    if k == 'add':
        vals = [ev(x) for x in t[1]]
        out = vals[0]
        for v in vals[1:]:
            out = out + v
        return out
    if k == 'bin':
        a, b = ev(t[2]), ev(t[3])
        return {'+': lambda: a + b, '-': lambda: a - b, '*': lambda: a * b, '//': lambda: a // b, '%': lambda: a % b,
                '<<': lambda: a << b, '>>': lambda: a >> b, '&': lambda: a & b, '|': lambda: a | b, '^': lambda: a ^ b}[t[1]]()
    if k == 'not':
        return not ev(t[1])
    if k == 'cmp':
        a, b = ev(t[2]), ev(t[3])
        return {'==': lambda: a == b, 'is': lambda: a is b or a == b, '<': lambda: a < b, '<=': lambda: a <= b,
                'in': lambda: a in b}[t[1]]()
    if k == 'and':
        v = True
        for x in t[1]:
            v = ev(x)
            if not v:
                return v
        return v
    if k == 'or':
        v = False
        for x in t[1]:
            v = ev(x)
            if v:
                return v
        return v
    if k == 'cond':
        return ev(t[2]) if ev(t[1]) else ev(t[3])
    if k == 'tuple':
        return tuple(ev(x) for x in t[1])
    if k == 'index' and t[1][0] == 'dict':
        key = ev(t[2])          # a literal table read by key: only the entry that is read is evaluated
        for e in t[1][1]:
            if len(e) == 2 and ev(e[0]) == key:
                return ev(e[1])
        raise NoValue(text(t, 80))
    if k == 'index':
        return ev(t[1])[ev(t[2])]
    if k == 'call' and t[1] == 'builtins.len':
        return len(ev(t[3][0][1]))
    if k == 'call' and t[1] == 'builtins.range' and 1 <= len(t[3]) <= 3:
        vals = [ev(v) for _, v in t[3]]
        if all(isinstance(v, int) and not isinstance(v, bool) for v in vals):
            return range(*vals)
        raise NoValue(text(t, 80))
    if k == 'call' and t[1] == 'builtins.sum' and len(t[3]) == 1:
        from .sval import as_display
        seq_ = as_display(t[3][0][1])
        if seq_[0] in ('tuple', 'list') and not any(isinstance(x, tuple) and x and x[0] in ('star', 'when', 'each', 'acc') for x in seq_[1]):
            return sum(ev(x) for x in seq_[1])
    if k == 'call' and t[1] in ('builtins.int', 'builtins.bool') and len(t[3]) == 1:
        v = ev(t[3][0][1])
        return int(v) if t[1] == 'builtins.int' else bool(v)
    raise NoValue(text(t, 80))


def restrict(t, decide):
    """the term with every gate whose test `decide(test)` settles (True / False; None = leave) replaced by that branch;
    conditional items of lists / concatenations are kept or dropped likewise"""
    if not isinstance(t, tuple) or not t:
        return t
    if t[0] == 'cond':
        d = decide(t[1])
        if d is True:
            return restrict(t[2], decide)
        if d is False:
            return restrict(t[3], decide)
        from .sval import is_const, cval
        tt = restrict(t[1], decide)
        if is_const(tt):
            return restrict(t[2] if cval(tt) else t[3], decide)
        d2 = decide(tt)
        if d2 is not None:
            return restrict(t[2] if d2 else t[3], decide)
        if tt[0] == 'not' and is_const(tt[1]):
            return restrict(t[3] if cval(tt[1]) else t[2], decide)
        return ('cond', tt, restrict(t[2], decide), restrict(t[3], decide))
    if t[0] in ('and', 'or') and len(t) == 2 and isinstance(t[1], tuple) and t[1]:
        # `a and b` / `a or b` with some operands settled - as values: `x or y` is x when x is true, `x and y` is x when x is false
        from .sval import is_const, cval
        stop_on = (t[0] == 'or')
        rest, last = [], None
        for x in t[1]:
            x2 = restrict(x, decide)
            d = bool(cval(x2)) if is_const(x2) else decide(x2)
            last = x2
            if d is None:
                rest.append(x2)
                continue
            if d == stop_on:
                if not rest:
                    return x2           # the first operand that decides the whole
                rest.append(x2)
                break
            # an operand that cannot decide the whole is skipped (unless it is the last one: then it is the value)
        else:
            if not rest:
                return last
            if last is not rest[-1]:
                rest.append(last)
        return rest[0] if len(rest) == 1 else (t[0], tuple(rest))
    if t[0] == 'not' and len(t) == 2:
        from .sval import is_const, cval, const
        x = restrict(t[1], decide)
        d = decide(x) if not is_const(x) else None
        if is_const(x):
            return const(not cval(x))
        if d is not None:
            return const(not d)
        return ('not', x)
    if t[0] in ('list', 'add', 'dict', 'set') and len(t) == 2 and isinstance(t[1], tuple):
        items = []
        for it in t[1]:
            if isinstance(it, tuple) and it and it[0] == 'when':
                keep, rest = True, []
                for a in it[1]:
                    d = decide(a[0])
                    if d is None:
                        rest.append(a)
                    elif d != a[1]:
                        keep = False
                if not keep:
                    continue
                body = tuple(restrict(x, decide) for x in it[2:])
                items.append(('when', tuple(rest)) + body if rest else (body[0] if len(body) == 1 else body))
            else:
                items.append(restrict(it, decide))
        if t[0] == 'add' and len(items) == 1:
            return items[0]
        return (t[0], tuple(items))
    return tuple(restrict(x, decide) if isinstance(x, tuple) else x for x in t)


def truthy_decider(term, value):
    """decides gates on the truthiness of `term` (also written `term is None` / `term is not None`)"""
    from .sval import NONE, strip_ids
    term = strip_ids(term)

    def decide(test):
        test = strip_ids(test)
        if test == term:
            return value
        if test[0] == 'cmp' and test[1] == 'is' and set(test[2:]) == {NONE, term}:
            return not value
        return None
    return decide


def eq_decider(term, const_term, value):
    """decides gates on `term == const_term`"""
    from .sval import strip_ids
    term, const_term = strip_ids(term), strip_ids(const_term)

    def decide(test):
        test = strip_ids(test)
        if test[0] == 'cmp' and test[1] in ('==', 'is') and set(test[2:]) == {term, const_term}:
            return value
        return None
    return decide


def _truth(t):
    """the term whose truthiness an atom asks about: bool(x) asks about x"""
    while t[0] == 'call' and t[1] == 'builtins.bool' and len(t[3]) == 1:
        t = t[3][0][1]
    return t


def _atoms(t, out):
    t = _truth(t)
    if t[0] in ('and', 'or'):
        for x in t[1]:
            _atoms(x, out)
    elif t[0] == 'not':
        _atoms(t[1], out)
    elif t[0] == 'cond' and False:
        pass
    elif t[0] != 'const':
        if t not in out:
            out.append(t)


def _beval(t, val):
    t = _truth(t)
    if t[0] == 'and':
        return all(_beval(x, val) for x in t[1])
    if t[0] == 'or':
        return any(_beval(x, val) for x in t[1])
    if t[0] == 'not':
        return not _beval(t[1], val)
    if t[0] == 'const':
        return bool(t[2])
    return val[t]


def entails(pc, goal, limit=14):
    """the path condition implies the goal (a boolean term), deciding propositionally over their atoms; None when there are
    too many atoms"""
    from .sval import strip_ids, pc_term, norm_pc
    import itertools
    p = strip_ids(pc_term(norm_pc(tuple(pc))))
    g = strip_ids(goal)
    atoms = []
    _atoms(p, atoms)
    _atoms(g, atoms)
    if len(atoms) > limit:
        return None
    for bits in itertools.product((False, True), repeat=len(atoms)):
        val = dict(zip(atoms, bits))
        if _beval(p, val) and not _beval(g, val):
            return False
    return True


def exists_form(t):
    """(sequence, conditions) when the truth of t says "some element of the sequence satisfies the conditions": the truthiness of a
    filtering comprehension `[x for x in S if C]`, `any(C for x in S)`, `any([.. for x in S if C])`; else None.  Ids stripped."""
    from .sval import strip_ids, norm_pc
    t = strip_ids(t)
    if is_call(t, 'builtins.any') and len(t[3]) == 1:
        g = t[3][0][1]
        if g[0] in ('list', 'tuple') and len(g[1]) == 1 and isinstance(g[1][0], tuple) and g[1][0][0] == 'each':
            e = g[1][0]
            return e[2], norm_pc(tuple(e[3]) + ((e[4], True),))
        return None
    if t[0] in ('list', 'tuple') and len(t[1]) == 1 and isinstance(t[1][0], tuple) and t[1][0][0] == 'each':
        e = t[1][0]
        if e[4] == ('elem', e[2], 0):
            return e[2], norm_pc(tuple(e[3]))
    return None


def exists_atom(t, pol=True):
    """(sequence, conditions) when the path-condition atom (t, pol) says "some element of the sequence satisfies the conditions", in any
    of the spellings  `v in (f(x) for x in S if C)`,  `any(f(x) == v for x in S if C)`,  `not all(f(x) != v for x in S if C)`,  a non-empty
    filter; else None.  Ids stripped."""
    from .sval import strip_ids, norm_pc
    t = strip_ids(t)
    if t[0] == 'not':
        return exists_atom(t[1], not pol)

    def each_of(g):
        if g[0] in ('list', 'tuple', 'set') and len(g[1]) == 1 and isinstance(g[1][0], tuple) and g[1][0][0] == 'each':
            return g[1][0]
        return None
    if pol and t[0] == 'cmp' and t[1] == 'in':
        e = each_of(t[3])
        if e is not None:
            return e[2], norm_pc(tuple(e[3]) + ((('cmp', '==') + tuple(sorted((e[4], t[2]), key=repr)), True),))
    if not pol and is_call(t, 'builtins.all') and len(t[3]) == 1:
        e = each_of(t[3][0][1])
        if e is not None:
            return e[2], norm_pc(tuple(e[3]) + ((e[4], False),))
    if pol:
        return exists_form(t)
    return None
