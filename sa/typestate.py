"""A3 typestate over IkeSa.State (DESIGN 2.5/A3).

Abstract value: set of State member names.  The analysis is run per single entry state
(transfer functions are distributive over states), interprocedurally over the resolved
IkeSa methods, with exception edges from A1.  Outputs: per (function, entry state) the set
of outcomes (post state, 'ret' | exception class), and every `assert` / `_check_in_states`
that can fail with the call chain leading to it.
"""
import ast

from .cfg import build_cfg
from .model import AnalysisError, attr_chain, src, walk_no_nested


class States:
    def __init__(self, prog, qual='ikesa.IkeSa.State'):
        self.members = prog.enum_members(qual)
        if len(self.members) < 10:
            raise AnalysisError('anchor vanished: IkeSa.State has %d members' % len(self.members))
        self.names = sorted(self.members, key=lambda k: self.members[k])
        self.all = frozenset(self.names)
        self.enum_cls = prog.cls(qual)

    # ---- predicates over one member, decided from what the enumeration itself says (its names, values and properties)
    class _NoVal(Exception):
        pass

    def _member_value(self, e, var, member, subject=None, depth=0):
        """Python value of expression e when `var` (or the state expression `subject`) is the member named `member`; members are
        represented by their names wrapped in a 1-tuple"""
        NV = States._NoVal
        if depth > 8:
            raise NV()
        ev = lambda x: self._member_value(x, var, member, subject, depth + 1)      # noqa: E731
        if isinstance(e, ast.Name) and var is not None and e.id == var:
            return (member,)
        if subject is not None and self.is_state_expr(e) and src(e) == subject:
            return (member,)
        c = self.const(e)
        if c is not None:
            return (c,)
        if isinstance(e, ast.Constant):
            return e.value
        if isinstance(e, ast.Attribute):
            b = ev(e.value)
            if isinstance(b, tuple) and len(b) == 1:
                if e.attr == 'name':
                    return b[0]
                if e.attr == 'value':
                    return self.members[b[0]]
                for k in self.enum_cls.mro():
                    m = k.methods.get(e.attr)
                    if m is not None:
                        body = [st for st in m.node.body if not (isinstance(st, ast.Expr) and isinstance(st.value, ast.Constant))]
                        if m.is_property and len(body) == 1 and isinstance(body[0], ast.Return) and body[0].value is not None:
                            return self._member_value(body[0].value, m.self_name, b[0], None, depth + 1)
                        raise NV()
            raise NV()
        if isinstance(e, ast.Call) and isinstance(e.func, ast.Attribute) and not e.keywords:
            b = ev(e.func.value)
            args = [ev(a) for a in e.args]
            if isinstance(b, str) and e.func.attr in ('endswith', 'startswith', 'lower', 'upper', 'count', 'find') \
                    and all(isinstance(a, (str, tuple)) and not (isinstance(a, tuple) and len(a) == 1 and a[0] in self.members and False) for a in args):
                return getattr(b, e.func.attr)(*args)
            raise NV()
        if isinstance(e, (ast.Tuple, ast.List, ast.Set)):
            return tuple(ev(x) for x in e.elts)
        if isinstance(e, ast.BoolOp):
            vs = [ev(x) for x in e.values]
            return all(vs) if isinstance(e.op, ast.And) else any(vs)
        if isinstance(e, ast.UnaryOp) and isinstance(e.op, ast.Not):
            return not ev(e.operand)
        if isinstance(e, ast.Compare):
            def num(v):
                return self.members[v[0]] if isinstance(v, tuple) and len(v) == 1 and v[0] in self.members else v
            left = ev(e.left)
            for op, r in zip(e.ops, e.comparators):
                if isinstance(op, (ast.In, ast.NotIn)):
                    cs = self.const_set(r)
                    if cs is not None and isinstance(left, tuple) and len(left) == 1:
                        inside = left[0] in cs
                    else:
                        right = ev(r)
                        if isinstance(right, str) and isinstance(left, str):
                            inside = left in right
                        elif isinstance(right, tuple):
                            inside = any(num(x) == num(left) for x in right)
                        else:
                            raise NV()
                    if inside != isinstance(op, ast.In):
                        return False
                    continue
                right = ev(r)
                a, b = num(left), num(right)
                if type(a) is not type(b) and not (isinstance(a, (int, bool)) and isinstance(b, (int, bool))):
                    if isinstance(op, (ast.Eq, ast.Is)):
                        return False
                    if isinstance(op, (ast.NotEq, ast.IsNot)):
                        left = right
                        continue
                    raise NV()
                ok = {ast.Eq: lambda: a == b, ast.NotEq: lambda: a != b, ast.Lt: lambda: a < b, ast.LtE: lambda: a <= b,
                      ast.Gt: lambda: a > b, ast.GtE: lambda: a >= b, ast.Is: lambda: a == b, ast.IsNot: lambda: a != b}.get(type(op))
                if ok is None:
                    raise NV()
                if not ok():
                    return False
                left = right
            return True
        if isinstance(e, ast.Call) and isinstance(e.func, ast.Name) and e.func.id == 'range' and len(e.args) == 2 and not e.keywords:
            lo, hi = self.int_of(e.args[0]), self.int_of(e.args[1])
            if lo is None or hi is None:
                raise NV()
            return tuple(range(lo, hi))
        raise NV()

    def member_truth(self, e, var, member, subject=None):
        try:
            return bool(self._member_value(e, var, member, subject))
        except (States._NoVal, Exception):
            return None

    def const(self, expr):
        ch = attr_chain(expr)
        if ch and ch.split('.')[-1] in self.members and 'State' in ch.split('.'):
            return ch.split('.')[-1]
        return None

    def const_set(self, expr):
        """set of states denoted by a container expression: tuple/list of constants or range(A, B[+k])"""
        if isinstance(expr, (ast.Tuple, ast.List, ast.Set)):
            out = set()
            for e in expr.elts:
                c = self.const(e)
                if c is None:
                    return None
                out.add(c)
            return frozenset(out)
        if isinstance(expr, (ast.ListComp, ast.SetComp, ast.GeneratorExp)) and len(expr.generators) == 1:
            # [x for x in IkeSa.State if <comparisons of x with states>]
            g = expr.generators[0]
            if isinstance(g.target, ast.Name) and isinstance(expr.elt, ast.Name) and expr.elt.id == g.target.id \
                    and src(g.iter).split('.')[-1] == 'State':
                out = set()
                for name, val in self.members.items():
                    keep = True
                    for c in g.ifs:
                        v = self._cmp_val(c, g.target.id, val)
                        if v is None:
                            return None
                        keep = keep and v
                    if keep:
                        out.add(name)
                return frozenset(out)
            return None
        if isinstance(expr, ast.Call) and src(expr.func) in ('frozenset', 'set', 'tuple', 'list') and len(expr.args) == 1 and not expr.keywords:
            return self.const_set(expr.args[0])
        if isinstance(expr, ast.BinOp) and isinstance(expr.op, (ast.BitOr, ast.Add)):
            a, b = self.const_set(expr.left), self.const_set(expr.right)
            return a | b if a is not None and b is not None else None
        if isinstance(expr, ast.Call) and src(expr.func) == 'range' and len(expr.args) == 2:
            lo, hi = self.int_of(expr.args[0]), self.int_of(expr.args[1])
            if lo is None or hi is None:
                return None
            return frozenset(n for n, v in self.members.items() if lo <= v < hi)
        return None

    def _cmp_val(self, c, var, val, subject=None):
        """truth of a comparison chain / and / or / not over `var` (bound to the integer val) and state constants"""
        v = self._cmp_val0(c, var, val, subject)
        if v is None:
            names = [n for n, x in self.members.items() if x == val]
            if len(names) == 1:
                v = self.member_truth(c, var, names[0], subject)
        return v

    def _cmp_val0(self, c, var, val, subject=None):
        def num(e):
            if isinstance(e, ast.Name) and e.id == var:
                return val
            if subject is not None and self.is_state_expr(e) and src(e) == subject:
                return val
            return self.int_of(e)
        if isinstance(c, ast.BoolOp):
            vs = [self._cmp_val(x, var, val, subject) for x in c.values]
            if any(v is None for v in vs):
                return None
            return all(vs) if isinstance(c.op, ast.And) else any(vs)
        if isinstance(c, ast.UnaryOp) and isinstance(c.op, ast.Not):
            v = self._cmp_val(c.operand, var, val, subject)
            return None if v is None else not v
        if isinstance(c, ast.Compare):
            left = num(c.left)
            for op, r in zip(c.ops, c.comparators):
                if isinstance(op, (ast.In, ast.NotIn)):
                    cs = self.const_set(r)
                    if cs is None or left is None:
                        return None
                    inside = any(self.members[n] == left for n in cs)
                    if inside != isinstance(op, ast.In):
                        return False
                    continue
                right = num(r)
                if left is None or right is None:
                    return None
                ok = {ast.Eq: left == right, ast.NotEq: left != right, ast.Lt: left < right, ast.LtE: left <= right,
                      ast.Gt: left > right, ast.GtE: left >= right}.get(type(op))
                if ok is None:
                    return None
                if not ok:
                    return False
                left = right
            return True
        return None

    def int_of(self, expr):
        c = self.const(expr)
        if c is not None:
            return self.members[c]
        if isinstance(expr, ast.Constant) and isinstance(expr.value, int):
            return expr.value
        if isinstance(expr, ast.BinOp) and isinstance(expr.op, (ast.Add, ast.Sub)):
            a, b = self.int_of(expr.left), self.int_of(expr.right)
            if a is not None and b is not None:
                return a + b if isinstance(expr.op, ast.Add) else a - b
        return None

    @staticmethod
    def is_state_expr(expr):
        return isinstance(expr, ast.Attribute) and expr.attr == 'state'

    def eval_cond(self, expr):
        """(subject text, frozenset of states for which expr is true) or None"""
        r = self._eval_cond0(expr)
        if r is None:
            # anything else that reads one state expression and nothing else that varies: decided member by member
            subjects = {src(o) for o in ast.walk(expr) if self.is_state_expr(o)}
            if len(subjects) == 1:
                subj = subjects.pop()
                out = set()
                for name in self.members:
                    v = self.member_truth(expr, None, name, subj)
                    if v is None:
                        return None
                    if v:
                        out.add(name)
                return subj, frozenset(out)
        return r

    def _eval_cond0(self, expr):
        if isinstance(expr, ast.Compare) and len(expr.ops) > 1:
            # A <= self.state < B: a chain over one state expression and state constants, decided member by member
            operands = [expr.left] + list(expr.comparators)
            subjects = {src(o) for o in operands if self.is_state_expr(o)}
            if len(subjects) != 1:
                return None
            subj = subjects.pop()
            out = set()
            for name, val in self.members.items():
                v = self._cmp_val(expr, None, val, subject=subj)
                if v is None:
                    return None
                if v:
                    out.add(name)
            return subj, frozenset(out)
        if not (isinstance(expr, ast.Compare) and len(expr.ops) == 1):
            return None
        l, r, op = expr.left, expr.comparators[0], expr.ops[0]
        if self.is_state_expr(l):
            subj = src(l)
            if isinstance(op, (ast.In, ast.NotIn)):
                s = self.const_set(r)
                if s is None:
                    return None
                return subj, (s if isinstance(op, ast.In) else self.all - s)
            v = self.int_of(r)
            if v is None:
                return None
            return subj, self._cmp(op, v, False)
        if self.is_state_expr(r) and not isinstance(op, (ast.In, ast.NotIn)):
            v = self.int_of(l)
            if v is None:
                return None
            return src(r), self._cmp(op, v, True)
        return None

    def _cmp(self, op, v, flipped):
        out = set()
        for n, x in self.members.items():
            a, b = (v, x) if flipped else (x, v)
            ok = {ast.Eq: a == b, ast.NotEq: a != b, ast.Lt: a < b, ast.LtE: a <= b, ast.Gt: a > b,
                  ast.GtE: a >= b, ast.Is: a == b, ast.IsNot: a != b}.get(type(op))
            if ok is None:
                return None
            if ok:
                out.add(n)
        return frozenset(out)

    def value_states(self, expr, cur):
        """states that `self.state = expr` can produce when the current state is `cur`
        (IfExp tests on self.state are evaluated)"""
        c = self.const(expr)
        if c is not None:
            return {c}
        if isinstance(expr, ast.IfExp):
            ev = self.eval_cond(expr.test)
            if ev is not None and ev[0].endswith('self.state') and cur is not None:
                return self.value_states(expr.body if cur in ev[1] else expr.orelse, cur)
            a, b = self.value_states(expr.body, cur), self.value_states(expr.orelse, cur)
            if a is None or b is None:
                return None
            return a | b
        if isinstance(expr, ast.Name):
            return None
        return None


class Typestate:
    def __init__(self, prog, resolver, escape, cls_qual='ikesa.IkeSa'):
        self.prog = prog
        self.res = resolver
        self.esc = escape
        self.S = States(prog)
        self.cls = prog.cls(cls_qual)
        self.memo = {}
        self.in_progress = set()
        self.failures = {}      # (qual, kind, text) -> {'states': set, 'chains': [..]}
        self.checks = {}        # (qual, kind, text) -> set of states seen arriving
        self.transitions = {}   # (qual, pre) -> set(post) for direct `self.state =` assignments
        self.node_in = {}       # (qual, entry state) -> {node id: set(states)}
        self._other = {}
        self._validate_check_in_states()

    def _validate_check_in_states(self):
        f = self.cls.lookup('_check_in_states')
        if f is None:
            raise AnalysisError('anchor vanished: IkeSa._check_in_states')
        g = build_cfg(f)
        conds = [n for n in g.nodes if n.kind == 'cond']
        ok = (len(conds) == 1 and isinstance(conds[0].ast, ast.Compare)
              and isinstance(conds[0].ast.ops[0], ast.NotIn) and src(conds[0].ast.left).endswith('.state')
              and src(conds[0].ast.comparators[0]) == f.call_params()[1])
        if ok:
            t = [m for lab, m in conds[0].succ if lab == 'T']
            ok = all(isinstance(m.ast, ast.Raise) for m in t)
            fl = [m for lab, m in conds[0].succ if lab == 'F']
            ok = ok and all(m.kind == 'exit' for m in fl)
        if not ok:
            raise AnalysisError('unrecognised shape of IkeSa._check_in_states (expected: '
                                '`if self.state not in <param>: raise ...`)')
        self.check_fn = f
        self.check_exc = None
        for n in g.nodes:
            if n.kind == 'stmt' and isinstance(n.ast, ast.Raise):
                self.check_exc = self.esc.hier.name_of(
                    n.ast.exc.func if isinstance(n.ast.exc, ast.Call) else n.ast.exc, f.module, f.cls)
        if self.check_exc is None:
            raise AnalysisError('unrecognised raise in IkeSa._check_in_states')

    # ------------------------------------------------------------------ helpers
    def is_self_method(self, fi):
        return fi.cls is not None and self.cls in fi.cls.mro() or fi.cls is self.cls

    def _self_calls(self, fi, node):
        """calls in node (evaluation order approximated by AST order) that run a method of
        the same IkeSa object: self.m(...), handler(message) / handler(*args) dispatch"""
        out = []
        for e in node.exprs():
            if e is None:
                continue
            for x in walk_no_nested(e):
                if isinstance(x, ast.Call):
                    r = self.res.resolve_call(x, fi, count=False)
                    ts = [t for t in r.targets if t.cls is self.cls and not t.is_property]
                    if not ts:
                        continue
                    f = x.func
                    on_self = (isinstance(f, ast.Attribute) and isinstance(f.value, ast.Name)
                               and f.value.id == fi.self_name)
                    if on_self or r.kind == 'dyn':
                        out.append((x, ts))
        # inner calls first (arguments are evaluated before the call)
        out.sort(key=lambda c: -self._depth(c[0]))
        return out

    @staticmethod
    def _depth(call):
        return max((1 + Typestate._depth(x) for a in list(call.args) + [k.value for k in call.keywords]
                    for x in ast.walk(a) if isinstance(x, ast.Call)), default=0)

    def _other_raises(self, fi, node):
        """exception classes raised at node by anything but calls into the same object"""
        key = (fi.qual, node.id)
        c = self._other.get(key)
        if c is not None:
            return c
        dmap, cmap = self.esc.direct(fi)
        selfcalls = set(id(c) for c, _ in self._self_calls(fi, node))
        out = set(e for e, _, _ in dmap.get(node.id, ()) if e != '<reraise>')
        for t, call in cmap.get(node.id, ()):
            if id(call) in selfcalls:
                continue
            for exc in self.esc.esc.get(t.qual, {}):
                if self.esc.kills is not None and self.esc.kills(fi, node, exc, 'call ' + t.qual, call):
                    continue
                out.add(exc)
        if any(e == '<reraise>' for e, _, _ in dmap.get(node.id, ())):
            out |= set(node.raises or {})
        self._other[key] = out
        return out

    # ------------------------------------------------------------------ core
    def summary(self, fi, s, chain=()):
        """set of (post_state, 'ret' | exc class) for running fi entered in state s"""
        key = (fi.qual, s)
        if key in self.memo:
            return self.memo[key]
        if key in self.in_progress:
            return {(s, 'ret')}
        self.in_progress.add(key)
        try:
            out = self._analyse(fi, s, chain + (fi.qual,))
        finally:
            self.in_progress.discard(key)
        self.memo[key] = out
        return out

    def _record(self, kind, fi, text, state, chain, failed, node=None):
        k = (fi.qual, kind, text)
        self.checks.setdefault(k, set()).add(state)
        if failed:
            d = self.failures.setdefault(k, {'states': set(), 'chains': [], 'node': node})
            d['states'].add(state)
            if len(d['chains']) < 6:
                d['chains'].append((state, ' -> '.join(chain)))

    def flow_from(self, fi, node, states):
        """outcomes of continuing fi *after* CFG node `node` (normal successors) in `states`"""
        out = set()
        for s in states:
            out |= self._analyse(fi, s, (fi.qual,), start=node)
        return out

    def _analyse(self, fi, s0, chain, start=None):
        S = self.S
        g = self.esc.add_exception_edges(fi)
        outcomes = set()
        if start is None:
            IN = {g.entry.id: {s0}}
            work = [g.entry]
        else:
            IN = {}
            work = []
            for lab, m in start.succ:
                if not isinstance(lab, tuple):
                    if m.kind == 'exit':
                        outcomes.add((s0, 'ret'))
                        continue
                    IN.setdefault(m.id, set()).add(s0)
                    work.append(m)
        guard = 0
        while work:
            guard += 1
            if guard > 200000:
                raise AnalysisError('typestate: no convergence in %s' % fi.qual)
            n = work.pop()
            cur = IN.get(n.id, set())
            if not cur:
                continue
            if n.kind == 'exit':
                continue
            if n.kind == 'xexit':
                continue
            normal = set(cur)
            exc_out = {}          # exc class -> set(states)
            edge_filter = None
            if n.kind == 'cond':
                ev = S.eval_cond(n.ast)
                if ev is not None and ev[0] == (fi.self_name or 'self') + '.state':
                    edge_filter = ev[1]
            elif n.kind == 'afail':
                for s in cur:
                    self._record('assert', fi, src(n.ast.test), s, chain, True, n)
                    exc_out.setdefault('AssertionError', set()).add(s)
                normal = set()
            if n.kind in ('stmt', 'cond', 'iter'):
                # 1. calls into the same object
                acc = set(cur)
                for call, targets in self._self_calls(fi, n):
                    new = set()
                    for s in acc:
                        for t in targets:
                            if t.qual == self.check_fn.qual and len(call.args) >= 2:
                                allowed = S.const_set(call.args[1])
                                if allowed is None:
                                    raise AnalysisError('_check_in_states with a non-constant state list at %s:%d'
                                                        % (fi.qual, call.lineno))
                                okk = s in allowed
                                self._record('check_in_states', fi, src(call.args[1]), s, chain, False, n)
                                if okk:
                                    new.add(s)
                                else:
                                    exc_out.setdefault(self.check_exc, set()).add(s)
                                continue
                            for (s2, kind) in self.summary(t, s, chain):
                                if kind in ('ret', 'retv'):
                                    new.add(s2)
                                else:
                                    exc_out.setdefault(kind, set()).add(s2)
                    acc = new
                normal = acc
                # 2. everything else that can raise at this node keeps the state
                for exc in self._other_raises(fi, n):
                    exc_out.setdefault(exc, set()).update(cur | normal)
                # 3. assignment to self.state
                if n.kind == 'stmt' and isinstance(n.ast, ast.Assign):
                    for t in n.ast.targets:
                        if (isinstance(t, ast.Attribute) and t.attr == 'state' and isinstance(t.value, ast.Name)
                                and t.value.id == fi.self_name):
                            new = set()
                            for s in normal:
                                vs = S.value_states(n.ast.value, s)
                                if vs is None and isinstance(n.ast.value, ast.Name):
                                    # a local that only ever holds state constants: any of its definitions (over-approximation)
                                    defs = self.res.local_defs(fi).get(n.ast.value.id, [])
                                    parts = [S.value_states(d, s) if isinstance(d, ast.AST) else None for d in defs]
                                    if defs and all(p is not None for p in parts):
                                        vs = set().union(*parts)
                                if vs is None:
                                    # prev_state = self.state ... self.state = prev_state style: unknown -> all
                                    raise AnalysisError('typestate: non-constant state assignment `%s` in %s'
                                                        % (src(n.ast), fi.qual))
                                new |= vs
                                self.transitions.setdefault((fi.qual, s), set()).update(vs)
                            normal = new
            # propagate
            for lab, m in n.succ:
                if isinstance(lab, tuple):
                    st = exc_out.get(lab[1], set())
                    if m.kind == 'xexit':
                        for s in st:
                            outcomes.add((s, lab[1]))
                        continue
                else:
                    st = normal
                    if edge_filter is not None:
                        st = {s for s in normal if (s in edge_filter) == (lab == 'T')}
                    if m.kind == 'exit':
                        rk = 'ret'
                        if n.kind == 'stmt' and isinstance(n.ast, ast.Return) and n.ast.value is not None \
                                and not (isinstance(n.ast.value, ast.Constant) and n.ast.value.value is None):
                            rk = 'retv'
                        for s in st:
                            outcomes.add((s, rk))
                        continue
                if not st:
                    continue
                old = IN.get(m.id, set())
                if not st <= old:
                    IN[m.id] = old | st
                    work.append(m)
        if start is None:
            self.node_in[(fi.qual, s0)] = IN
        return outcomes

    # ------------------------------------------------------------------ queries
    def run_entry(self, fi, states=None):
        states = states if states is not None else self.S.names
        out = {}
        for s in states:
            out[s] = self.summary(fi, s)
        return out

    def states_at(self, fi, node, entry_states=None):
        """states that can arrive at CFG node of fi over all analysed entry states"""
        out = set()
        for (q, s0), IN in self.node_in.items():
            if q == fi.qual and (entry_states is None or s0 in entry_states):
                out |= IN.get(node.id, set())
        return out
