"""A1 exception-escape analysis + the effect catalogue (DESIGN 2.4, 2.5/A1).

For every function: which exception classes can leave it, each with a witness chain.
The catalogue below is the explicit soundness envelope; everything else is listed in
ASSUMPTIONS and copied into the evidence of every check that relies on this module.
"""
import ast
import builtins
import re
import struct as _struct

from .cfg import CFG, build_cfg
from .model import AnalysisError, attr_chain, src, walk_no_nested

ASSUMPTIONS = [
    'effect catalogue (DESIGN 2.4) is the envelope: raise, assert, struct.unpack*/unpack_from, non-slice '
    'subscripts (IndexError/KeyError), next() without default, bytes.decode, int()/float() on untyped values, '
    'ip_address/ip_network on unproven arguments, strict Enum construction, list.remove/pop/index, '
    'bytes.fromhex, socket/select operations (OSError), cryptography entry points (ValueError, '
    'InvalidSignature, UnsupportedAlgorithm), open() (OSError), yaml.load (YAMLError), calls into the repo '
    '(fixpoint over the resolved call graph)',
    'not accounted: MemoryError, RecursionError, KeyboardInterrupt/SystemExit, ZeroDivisionError, '
    'AttributeError/TypeError on the repository\'s own objects, tuple-unpacking arity errors',
    'struct.pack/pack_into raise only on a field-count mismatch with a constant format; emitted messages are '
    '< 64 KiB and packed integers come from fields of the same width',
    'int.to_bytes does not overflow: DH public values are < modulus, prf+ output sizes are table constants',
    'ipaddress supernet() does not run past /0: start and end address of a TrafficSelector have one family',
    'uncatalogued library calls are treated as non-raising and are listed in the evidence',
]

# library callable -> exception classes it may raise
LIB_RAISES = {
    'struct.unpack_from': ['struct.error'],
    'struct.unpack': ['struct.error'],
    'method.decode': ['UnicodeDecodeError'],
    'method.remove': ['ValueError'],
    'method.index': ['ValueError'],
    'method.fromhex': ['ValueError'],
    'method.finalize': ['ValueError'],
    'method.exchange': ['ValueError'],
    'method.public_key': ['ValueError'],
    'method.verify': ['cryptography.InvalidSignature'],
    'method.sendto': ['OSError'], 'method.recvfrom': ['OSError'], 'method.recv': ['OSError'],
    'method.send': ['OSError'], 'method.sendall': ['OSError'], 'method.accept': ['OSError'],
    'method.bind': ['OSError'], 'method.listen': ['OSError'], 'method.connect': ['OSError'],
    'method.setsockopt': ['OSError'],
    'socket.socket': ['OSError'],
    'socket.getaddrinfo': ['socket.gaierror'],
    'select.select': ['OSError', 'ValueError'],
    'builtin.open': ['OSError'],
    'yaml.load': ['yaml.YAMLError'],
    'cryptography.hazmat.primitives.ciphers.Cipher': ['ValueError'],
    'attrcall.Cipher._algorithm': ['ValueError'],
    'cryptography.hazmat.primitives.serialization.load_pem_private_key':
        ['ValueError', 'TypeError', 'cryptography.UnsupportedAlgorithm'],
    'cryptography.hazmat.primitives.serialization.load_pem_public_key':
        ['ValueError', 'cryptography.UnsupportedAlgorithm'],
    'cryptography.hazmat.primitives.asymmetric.ec.EllipticCurvePublicNumbers': ['ValueError'],
    'ipaddress.ip_address': ['ValueError'],
    'ipaddress.ip_network': ['ValueError'],
}

NONRAISING_LIB_PREFIXES = ('logging.', 'time.', 'random.', 'os.', 'traceback.', 'hashlib.', 'hmac.', 'ctypes.',
                           'collections.', 'namedtuple.', 'json.', 'builtin.', 'method.', 'object.',
                           'attrcall.', 'cryptography.', 'sys.', 'signal.', 'argparse.', 'netifaces.',
                           'enum.', 'socket.', 'struct.', 'ipaddress.')

EXTRA_PARENTS = {
    'struct.error': 'Exception',
    'socket.gaierror': 'OSError',
    'socket.timeout': 'OSError',
    'socket.herror': 'OSError',
    'cryptography.InvalidSignature': 'Exception',
    'cryptography.UnsupportedAlgorithm': 'Exception',
    'yaml.YAMLError': 'Exception',
    # standard-library exception classes a handler can name (none of them is raised by what the library model says the calls raise,
    # unless listed there: ip_address()/ip_network() raise plain ValueError, not these)
    'ipaddress.AddressValueError': 'ValueError',
    'ipaddress.NetmaskValueError': 'ValueError',
    'binascii.Error': 'ValueError',
    'binascii.Incomplete': 'Exception',
    'json.JSONDecodeError': 'ValueError',
    'subprocess.CalledProcessError': 'Exception',
    'subprocess.TimeoutExpired': 'Exception',
    'queue.Empty': 'Exception',
    'queue.Full': 'Exception',
    'socket.error': 'OSError',
    'select.error': 'OSError',
    'ctypes.ArgumentError': 'Exception',
    'argparse.ArgumentError': 'Exception',
    'argparse.ArgumentTypeError': 'Exception',
    'decimal.InvalidOperation': 'ArithmeticError',
    'asyncio.TimeoutError': 'Exception',
    'asyncio.CancelledError': 'BaseException',
    'concurrent.TimeoutError': 'Exception',
}


class Hierarchy:
    def __init__(self, prog):
        self.prog = prog
        self.parent = dict(EXTRA_PARENTS)
        self.repo = {}
        for name in dir(builtins):
            o = getattr(builtins, name)
            if isinstance(o, type) and issubclass(o, BaseException):
                b = o.__bases__[0].__name__ if o is not BaseException else None
                self.parent[name] = b
        self.parent['EnvironmentError'] = 'OSError'
        self.parent['IOError'] = 'OSError'
        for c in prog.classes.values():
            exts = c.all_ext_bases()
            if any(e in self.parent for e in exts) or any(b.name in self.repo for b in c.bases):
                pass
        # repo exception classes: iterate to closure
        changed = True
        while changed:
            changed = False
            for c in prog.classes.values():
                if c.name in self.parent:
                    continue
                par = None
                for b in c.bases:
                    if b.name in self.parent:
                        par = b.name
                for e in c.ext_bases:
                    if e in self.parent:
                        par = e
                if par is not None:
                    self.parent[c.name] = par
                    self.repo[c.name] = c
                    changed = True

    def is_sub(self, a, b):
        seen = 0
        while a is not None and seen < 50:
            if a == b:
                return True
            a = self.parent.get(a)
            seen += 1
        return False

    def known(self, a):
        return a in self.parent

    def name_of(self, expr, module, scope_cls=None):
        """Exception class name for an expression in an except clause / raise."""
        p = self.prog
        if expr is None:
            return 'BaseException'
        c = p.resolve_class_expr(expr, module, scope_cls) if attr_chain(expr) else None
        if c is not None:
            return c.name
        ch = attr_chain(expr)
        if ch is None:
            return None
        parts = ch.split('.')
        if len(parts) == 1:
            imp = module.imports.get(parts[0])
            if imp and imp[0] == 'from':
                full = imp[1].split('.')[0] + '.' + imp[2]
                if full in self.parent:
                    return full
                if imp[1].startswith('cryptography'):
                    return 'cryptography.' + imp[2]
                if imp[2] in self.parent:
                    return imp[2]
            if parts[0] in self.parent:
                return parts[0]
            return None
        imp = module.imports.get(parts[0])
        if imp and imp[0] == 'module':
            full = imp[1] + '.' + parts[-1]
            if full in self.parent:
                return full
            if parts[-1] in self.parent:
                return parts[-1]
        return None


def struct_fields(fmt):
    """Number of values and byte size of a struct format string, with `{n}` placeholders
    (from str.format) standing for an unknown repeat count of `s` (one value each).
    Returns (nvalues, size or None)."""
    unknown = '{' in fmt
    f = re.sub(r'\{[^}]*\}', '1', fmt)
    n = 0
    for cnt, ch in re.findall(r'(\d*)([xcbB?hHiIlLqQnNefdspP])', f.lstrip('@=<>!')):
        if ch == 'x':
            continue
        if ch in 'sp':
            n += 1
        else:
            n += int(cnt) if cnt else 1
    try:
        size = None if unknown else _struct.calcsize(f)
    except _struct.error:
        raise AnalysisError('bad struct format %r' % fmt)
    return n, size


def const_format(expr):
    """format string of a struct call: Constant, 'x'.format(...), or f-string -> text with
    `{}` placeholders; None when not constant."""
    if isinstance(expr, ast.Constant) and isinstance(expr.value, str):
        return expr.value
    if (isinstance(expr, ast.Call) and isinstance(expr.func, ast.Attribute) and expr.func.attr == 'format'
            and isinstance(expr.func.value, ast.Constant) and isinstance(expr.func.value.value, str)):
        return expr.func.value.value
    if isinstance(expr, ast.JoinedStr):
        out = ''
        for v in expr.values:
            if isinstance(v, ast.Constant):
                out += v.value
            else:
                out += '{}'
        return out
    return None


class Escape:
    def __init__(self, prog, resolver, kills=None, extra_effects=None):
        """kills(fi, node, exc, origin_text) -> reason string to discard an effect (frozen
        assumption), or None.  extra_effects(fi, cfgnode, expr) -> [(exc, text)] for
        rule-specific catalogues (configuration taint)."""
        self.prog = prog
        self.res = resolver
        self.hier = Hierarchy(prog)
        self.kills = kills
        self.extra_effects = extra_effects
        self._direct = {}      # qual -> {node id: [(exc, witness, astnode)]}
        self._calls = {}       # qual -> {node id: [(target FuncInfo, call ast)]}
        self.esc = {}          # qual -> {exc: witness chain (list of str)}
        self._parents = {}
        self._svals = {}
        self.uncatalogued = set()
        self.killed = []       # (qual, exc, reason)
        self._done = False

    # ------------------------------------------------------------------ AST helpers
    def parents(self, fi):
        pm = self._parents.get(fi.qual)
        if pm is None:
            pm = {}
            for n in ast.walk(fi.node):
                for c in ast.iter_child_nodes(n):
                    pm[id(c)] = n
            self._parents[fi.qual] = pm
        return pm

    def truthy_guarded(self, fi, node, text):
        """Is the evaluation of `node` guarded by the truthiness of expression `text`?
        Accepted idioms: `X and <node>`, `if X [and ...]: <node>`, `<node> if X else ..`,
        also with `len(X) > 0` / `len(X)` / `len(X) != 0` in place of X."""
        pm = self.parents(fi)

        def is_guard(e):
            t = src(e)
            if t == text or t == 'len(%s)' % text:
                return True
            if isinstance(e, ast.Compare) and len(e.ops) == 1:
                l, r = src(e.left), src(e.comparators[0])
                if l == 'len(%s)' % text and isinstance(e.ops[0], (ast.Gt, ast.NotEq)) and r == '0':
                    return True
                if l == 'len(%s)' % text and isinstance(e.ops[0], ast.GtE) and r == '1':
                    return True
            if isinstance(e, ast.BoolOp) and isinstance(e.op, ast.And):
                return any(is_guard(v) for v in e.values)
            return False

        cur = node
        while id(cur) in pm:
            par = pm[id(cur)]
            if isinstance(par, ast.BoolOp) and isinstance(par.op, ast.And):
                idx = next((i for i, v in enumerate(par.values) if v is cur), None)
                if idx is not None and any(is_guard(v) for v in par.values[:idx]):
                    return True
            if isinstance(par, ast.IfExp) and par.body is cur and is_guard(par.test):
                return True
            if isinstance(par, (ast.If, ast.While)) and any(cur is s for s in par.body) and is_guard(par.test):
                return True
            if isinstance(par, ast.comprehension):
                pass
            cur = par
        return False

    def in_range_loop_over(self, fi, node, base_text):
        """node is inside `for v in range(.. len(base) ..)`."""
        pm = self.parents(fi)
        cur = node
        while id(cur) in pm:
            par = pm[id(cur)]
            if isinstance(par, ast.For) and isinstance(par.iter, ast.Call) and src(par.iter.func) == 'range':
                if any('len(%s)' % base_text in src(a) for a in par.iter.args):
                    return True
            cur = par
        return False

    # ------------------------------------------------------------------ direct effects
    def _local_single_def(self, fi, name):
        defs = self.res.local_defs(fi).get(name, [])
        return defs[0] if len(defs) == 1 else None

    def _const_values(self, fi, expr, depth=0):
        """set of constant values an expression may take (constants / IfExp / single-def
        locals), or None."""
        if depth > 4:
            return None
        if isinstance(expr, ast.Constant):
            return {expr.value}
        if isinstance(expr, ast.IfExp):
            a = self._const_values(fi, expr.body, depth + 1)
            b = self._const_values(fi, expr.orelse, depth + 1)
            return a | b if a is not None and b is not None else None
        if isinstance(expr, ast.Name):
            d = self._local_single_def(fi, expr.id)
            if d is not None and not isinstance(d, tuple):
                return self._const_values(fi, d, depth + 1)
        return None

    def _ip_arg_safe(self, fi, arg):
        """ip_address(arg)/ip_network(arg) cannot raise: arg is an ipaddress object, a byte
        string of proven length 4/16, or the result of to_ipaddr / recvfrom."""
        t = self.res.expr_type(arg, fi)
        if any(isinstance(x, tuple) and x[0] == 'libobj' for x in t):
            return 'library object (ipaddress / socket address)'
        if isinstance(arg, ast.Call):
            r = self.res.resolve_call(arg, fi, count=False)
            if r.kind == 'lib' and r.lib in ('ipaddress.ip_address', 'ipaddress.ip_network'):
                return 'already an ipaddress object'
            if any(t.name == 'to_ipaddr' for t in r.targets):
                return 'XfrmAddress.to_ipaddr result'
        sv = self.sval(fi)
        if sv is not None and id(arg) in sv.terms and fi.cls is not None and fi.cls.lookup_attr('_fields_') is not None:
            fields = src(fi.cls.lookup_attr('_fields_'))

            def packed(t):
                if t[0] == 'cond':
                    return packed(t[2]) and packed(t[3])
                if t[0] == 'slice' and t[2][0] == 'const' and t[2][2] is None and t[3][0] == 'const' and t[3][2] in (4, 16) \
                        and t[4][2] is None:
                    return packed(t[1])
                return t[0] == 'call' and t[1] == 'builtins.bytes' and len(t[3]) == 1 and t[3][0][1][0] == 'attr' \
                    and t[3][0][1][1] == ('param', fi.self_name)
            if ('c_uint32 * 4' in fields or 'c_ubyte * 16' in fields) and packed(sv.terms[id(arg)]):
                return '16-octet ctypes array or its 4-octet prefix'
        if isinstance(arg, ast.Name):
            defs = self.res.local_defs(fi).get(arg.id, [])
            if defs and all((isinstance(v, ast.Call) and src(v.func) == 'bytes' and len(v.args) == 1
                             and isinstance(v.args[0], ast.Attribute))
                            or (isinstance(v, ast.Subscript) and isinstance(v.slice, ast.Slice)
                                and src(v.value) == arg.id and v.slice.lower is None
                                and isinstance(v.slice.upper, ast.Constant) and v.slice.upper.value == 4)
                            for v in defs) and fi.cls is not None and fi.cls.lookup_attr('_fields_') is not None:
                fields = src(fi.cls.lookup_attr('_fields_'))
                if 'c_uint32 * 4' in fields or 'c_ubyte * 16' in fields:
                    return '16-octet ctypes array or its 4-octet prefix'
            d = self._local_single_def(fi, arg.id)
            if isinstance(d, tuple) and d[0] == 'unpack' and isinstance(d[1], ast.Call):
                call = d[1]
                r = self.res.resolve_call(call, fi, count=False)
                if r.kind == 'lib' and r.lib in ('struct.unpack_from', 'struct.unpack') and call.args:
                    fmt = call.args[0]
                    if (isinstance(fmt, ast.Call) and isinstance(fmt.func, ast.Attribute)
                            and fmt.func.attr == 'format' and isinstance(fmt.func.value, ast.Constant)):
                        text = fmt.func.value.value
                        fields = re.findall(r'(\{\d*\}|\d+)?([xcbB?hHiIlLqQsp])', text.lstrip('@=<>!'))
                        if d[2] < len(fields) and fields[d[2]][1] == 's' and fields[d[2]][0].startswith('{'):
                            idx = fields[d[2]][0].strip('{}')
                            idx = int(idx) if idx else 0
                            if idx < len(fmt.args):
                                vals = self._const_values(fi, fmt.args[idx])
                                if vals is not None and vals <= {4, 16}:
                                    return 'byte string of proven length %s' % sorted(vals)
            if arg.id in ('my_addr', 'peer_addr') and fi.qual.endswith('dispatch_message'):
                return 'address string delivered by recvfrom (assumption)'
        if isinstance(arg, ast.Attribute) and arg.attr in ('start_addr', 'end_addr', 'my_addr', 'peer_addr'):
            return 'ipaddress object held by the repository (assumption)'
        return None

    def sval(self, fi):
        """value terms of fi (None when the function uses a construct sa.sval does not model)"""
        if fi.qual not in self._svals:
            try:
                from .sval import SVal
                self._svals[fi.qual] = SVal(self.prog, self.res, fi) if isinstance(fi.node, ast.FunctionDef) else None
            except AnalysisError:
                self._svals[fi.qual] = None
        return self._svals[fi.qual]

    def _term_safe(self, fi, sub):
        """(index-safe, key-safe) by bounds facts of the path condition (sa.bounds)"""
        sv = self.sval(fi)
        if sv is None or id(sub.value) not in sv.terms or id(sub.slice) not in sv.terms or id(sub) not in sv.conds:
            return False, False
        from . import bounds
        b, i, pc = sv.terms[id(sub.value)], sv.terms[id(sub.slice)], sv.conds[id(sub)]
        return bounds.index_safe(b, i, pc), bounds.key_safe(b, i, pc)

    def _subscript_effects(self, fi, sub):
        if isinstance(sub.slice, ast.Slice) or not isinstance(sub.ctx, ast.Load):
            return []
        base = sub.value
        bt = src(base)
        idx = sub.slice
        # a literal table read with a key that can only be one of its keys: {4: A, 16: B}[n] with n = 4 if c else 16
        if isinstance(base, ast.Dict) and base.keys and all(isinstance(k, ast.Constant) for k in base.keys):
            vals = self._const_values(fi, idx)
            if vals is not None and vals <= {k.value for k in base.keys}:
                return []
        # direct struct result: unpack(...)[k]
        if isinstance(base, ast.Call):
            r = self.res.resolve_call(base, fi, count=False)
            if r.kind == 'lib' and r.lib in ('struct.unpack', 'struct.unpack_from') and base.args:
                fmt = const_format(base.args[0])
                if fmt is not None and isinstance(idx, ast.Constant) and isinstance(idx.value, int):
                    if -struct_fields(fmt)[0] <= idx.value < struct_fields(fmt)[0]:
                        return []
        types = self.res.expr_type(base, fi)
        if any(isinstance(t, tuple) and t[0] == 'libobj' for t in types):
            return []
        if isinstance(base, ast.Constant):
            return []
        # tuple from a constant struct format / tuple display held in a single-def local
        if isinstance(base, ast.Name) and isinstance(idx, ast.Constant) and isinstance(idx.value, int):
            d = self._local_single_def(fi, base.id)
            if isinstance(d, ast.Call):
                r = self.res.resolve_call(d, fi, count=False)
                if r.kind == 'lib' and r.lib in ('struct.unpack', 'struct.unpack_from') and d.args:
                    fmt = const_format(d.args[0])
                    if fmt is not None and -struct_fields(fmt)[0] <= idx.value < struct_fields(fmt)[0]:
                        return []
            if isinstance(d, ast.Tuple) and -len(d.elts) <= idx.value < len(d.elts):
                return []
        # truthiness guards for [0] / [-1]
        if isinstance(idx, ast.Constant) and idx.value in (0, -1) or \
                (isinstance(idx, ast.UnaryOp) and src(idx) == '-1'):
            if self.truthy_guarded(fi, sub, bt):
                return []
        # index driven by range(len(base))
        if self.in_range_loop_over(fi, sub, bt):
            return []
        kinds = []
        if isinstance(idx, ast.Constant) and isinstance(idx.value, str):
            # a string index is only meaningful on a mapping (anything else is a TypeError, outside this catalogue)
            kinds = ['KeyError']
        elif 'dict' in types and not ({'list', 'bytes', 'tuple', 'str'} & types):
            kinds = ['KeyError']
        elif ({'list', 'bytes', 'tuple', 'str'} & types) and 'dict' not in types:
            kinds = ['IndexError']
        else:
            kinds = ['IndexError', 'KeyError']
        isafe, ksafe = self._term_safe(fi, sub)
        kinds = [k for k in kinds if not (k == 'IndexError' and isafe) and not (k == 'KeyError' and (ksafe or (isafe and kinds == ['IndexError', 'KeyError'])))]
        return [(k, 'subscript %s' % src(sub)[:60], sub) for k in kinds]

    def _call_effects(self, fi, call, r):
        out = []
        lib = r.lib
        if r.kind == 'enum':
            if r.note != 'safe':
                out.append(('ValueError', 'strict Enum construction %s' % src(call)[:50], call))
            return out
        if lib is None:
            return out
        libs = r.note.split(',') if r.kind == 'lib' and ',' in r.note else [lib]
        for lib in libs:
            if lib == 'builtin.next' and len(call.args) == 1:
                out.append(('StopIteration', 'next() without default', call))
            elif lib == 'builtin.range' and len(call.args) == 3:
                st_ = call.args[2]
                if not (isinstance(st_, ast.Constant) and isinstance(st_.value, int) and st_.value != 0) and not (
                        isinstance(st_, ast.UnaryOp) and isinstance(st_.operand, ast.Constant) and st_.operand.value):
                    out.append(('ValueError', 'range() with a step that can be 0: %s' % src(call)[:50], call))
            elif lib in ('builtin.int', 'builtin.float') and call.args:
                a = call.args[0]
                safe = isinstance(a, (ast.BinOp, ast.Constant)) or (
                    isinstance(a, ast.Call) and src(a.func) in ('time.time', 'len'))
                if len(call.args) == 2:
                    safe = True   # int(<hex literal table>, 16)
                if not safe:
                    out.append(('ValueError', '%s(%s)' % (lib[8:], src(a)[:40]), call))
                    out.append(('TypeError', '%s(%s)' % (lib[8:], src(a)[:40]), call))
            elif lib in ('ipaddress.ip_address', 'ipaddress.ip_network') and call.args:
                why = self._ip_arg_safe(fi, call.args[0])
                if why is None:
                    out.append(('ValueError', '%s(%s)' % (lib[10:], src(call.args[0])[:40]), call))
            elif lib == 'method.pop':
                recv = src(call.func.value)
                sv = self.sval(fi)
                safe = False
                if sv is not None and id(call.func.value) in sv.terms and id(call) in sv.conds and not call.args:
                    from . import bounds
                    safe = bounds.nonempty(sv.terms[id(call.func.value)], sv.conds[id(call)])
                if not safe and not self.truthy_guarded(fi, call, recv):
                    out.append(('IndexError', '%s.pop()' % recv[:40], call))
                    if call.args:
                        out.append(('KeyError', '%s.pop()' % recv[:40], call))
            elif lib == 'method.remove':
                if not self._remove_safe(fi, call):
                    out.append(('ValueError', 'list.remove(%s)' % src(call.args[0])[:40] if call.args else 'remove',
                                call))
            elif lib in ('struct.pack', 'struct.pack_into') and call.args:
                fmt = const_format(call.args[0])
                nargs = len(call.args) - (1 if lib == 'struct.pack' else 3)
                sv = self.sval(fi) if (fmt is None or any(isinstance(a_, ast.Starred) for a_ in call.args)) else None
                if fmt is None and sv is not None and id(call.args[0]) in sv.terms and sv.terms[id(call.args[0])][0] == 'const' \
                        and isinstance(sv.terms[id(call.args[0])][2], str):
                    fmt = sv.terms[id(call.args[0])][2]         # a named constant for the format
                for a_ in call.args:
                    if isinstance(a_, ast.Starred) and sv is not None and id(a_.value) in sv.terms:
                        t_ = sv.terms[id(a_.value)]
                        if t_[0] == 'call' and isinstance(t_[1], str) and t_[1].startswith('namedtuple.'):
                            nargs += len(t_[3]) - 1         # *record: one value per field
                        elif t_[0] == 'tuple':
                            nargs += len(t_[1]) - 1
                fmts = [fmt]
                a0 = call.args[0]
                if fmt is None and isinstance(a0, ast.Subscript) and isinstance(a0.value, ast.Dict) and a0.value.values and all(
                        isinstance(v_, ast.Constant) and isinstance(v_.value, str) for v_ in a0.value.values):
                    fmts = [v_.value for v_ in a0.value.values]         # one of the formats of a literal table
                for fmt in fmts:
                    if fmt is None or '{' in fmt and re.search(r'\{[^}]*\}(?![sp])', fmt) and False:
                        out.append(('struct.error', 'pack with non-constant format', call))
                    elif struct_fields(fmt)[0] != nargs:
                        out.append(('struct.error', 'pack %r with %d values' % (fmt, nargs), call))
            elif lib == 'method.decode' and (len(call.args) > 1 or any(
                    k.arg == 'errors' and isinstance(k.value, ast.Constant) and k.value.value != 'strict'
                    for k in call.keywords)):
                pass    # bytes.decode(errors='replace'/'backslashreplace'/'ignore') cannot fail
            elif lib in LIB_RAISES:
                for e in LIB_RAISES[lib]:
                    out.append((e, '%s' % src(call)[:60], call))
            elif lib.startswith(NONRAISING_LIB_PREFIXES):
                pass
            else:
                self.uncatalogued.add(lib)
        return out

    def _remove_safe(self, fi, call):
        """list.remove(x) cannot raise when x was obtained by iterating / looking up the
        same list, or is guarded by a membership test."""
        if not call.args:
            return False
        recv = src(call.func.value)
        arg = call.args[0]
        at = src(arg)
        pm = self.parents(fi)
        cur = call
        while id(cur) in pm:
            par = pm[id(cur)]
            if isinstance(par, ast.For) and src(par.target) == at:
                it = src(par.iter)
                if it in (recv, 'list(%s)' % recv):
                    return True
            if isinstance(par, ast.If):
                t = par.test
                tests = t.values if isinstance(t, ast.BoolOp) and isinstance(t.op, ast.And) else [t]
                in_body = any(cur is s for s in par.body)
                in_else = any(cur is s for s in par.orelse)
                for x in tests:
                    if isinstance(x, ast.Compare) and len(x.ops) == 1 and src(x.left) == at \
                            and src(x.comparators[0]) == recv:
                        if isinstance(x.ops[0], ast.In) and in_body:
                            return True
                        if isinstance(x.ops[0], ast.NotIn) and in_else and len(tests) == 1:
                            return True
            cur = par
        # x = lookup over the same list (get_child_sa / next(... for x in recv ...)) and tested not None
        if isinstance(arg, ast.Name):
            d = self._local_single_def(fi, arg.id)
            if isinstance(d, ast.Call):
                r = self.res.resolve_call(d, fi, count=False)
                for t in r.targets:
                    body = src(t.node)
                    if ('for x in self.%s' % recv.split('.')[-1]) in body or \
                            ('for x in %s' % recv) in body:
                        return True
        return False

    def _raise_effects(self, fi, st):
        if st.exc is None:
            return [('<reraise>', 'bare raise', st)]
        e = st.exc
        target = e.func if isinstance(e, ast.Call) else e
        name = self.hier.name_of(target, fi.module, fi.cls)
        if name is not None and self.hier.known(name):
            return [(name, 'raise %s' % src(e)[:60], st)]
        if isinstance(e, ast.Name):
            # raise of a caught exception variable
            d = self._local_single_def(fi, e.id)
            if isinstance(d, tuple) and d[0] == 'exc':
                names = self._handler_names(fi, d[1])
                return [(n, 'raise %s' % e.id, st) for n in names]
        return [('TypeError', 'raise of a non-exception %s' % src(e)[:40], st)]

    def _handler_names(self, fi, typ):
        if typ is None:
            return ['BaseException']
        elts = typ.elts if isinstance(typ, ast.Tuple) else [typ]
        out = []
        for e in elts:
            n = self.hier.name_of(e, fi.module, fi.cls)
            if n is None:
                raise AnalysisError('unresolved exception class %s in %s' % (src(e), fi.qual))
            out.append(n)
        return out

    def _assert_proved(self, fi, st):
        """an `assert a <= b` whose comparison follows from the conditions on every path to it (linear facts: a length checked
        before, the size of a packed header, len() >= 0) cannot fail"""
        sv = self.sval(fi)
        if sv is None or id(st.test) not in sv.terms or id(st.test) not in sv.conds:
            return False
        from . import bounds
        try:
            return bounds.proves(sv.terms[id(st.test)], sv.conds[id(st.test)])
        except Exception:
            return False

    def direct(self, fi):
        if fi.qual in self._direct:
            return self._direct[fi.qual], self._calls[fi.qual]
        g = build_cfg(fi)
        dmap, cmap = {}, {}
        for n in g.nodes:
            effs, calls = [], []
            if n.kind == 'afail' and not self._assert_proved(fi, n.ast):
                effs.append(('AssertionError', 'assert %s' % src(n.ast.test)[:60], n.ast))
            if n.kind == 'stmt' and isinstance(n.ast, ast.Raise):
                effs += self._raise_effects(fi, n.ast)
            for e in n.exprs():
                if e is None:
                    continue
                for x in walk_no_nested(e):
                    if isinstance(x, (ast.FunctionDef, ast.ClassDef)) and x is not e:
                        continue
                    if isinstance(x, ast.Lambda):
                        continue
                    if isinstance(x, ast.Call):
                        r = self.res.resolve_call(x, fi, count=False)
                        for t in r.targets:
                            calls.append((t, x))
                        effs += self._call_effects(fi, x, r)
                    elif isinstance(x, ast.Subscript):
                        effs += self._subscript_effects(fi, x)
                    if self.extra_effects is not None:
                        effs += self.extra_effects(fi, n, x)
            if self.kills is not None:
                kept = []
                for (exc, text, an) in effs:
                    why = self.kills(fi, n, exc, text, None)
                    if why:
                        self.killed.append((fi.qual, exc, text, why))
                    else:
                        kept.append((exc, text, an))
                effs = kept
            dmap[n.id] = effs
            cmap[n.id] = calls
        # lambdas defined inside the function and called by name are inlined as plain
        # expressions by the resolver ('dyn' with no targets): nothing to do
        self._direct[fi.qual] = dmap
        self._calls[fi.qual] = cmap
        return dmap, cmap

    # ------------------------------------------------------------------ routing
    def route(self, fi, node, exc):
        """Where does exception class `exc` raised at `node` go?  Returns list of handler
        nodes that may catch it and a flag `escapes`."""
        caught = []
        g = build_cfg(fi)
        for (tr, part, hnodes) in reversed(node.try_ctx):
            if part == 'body':
                for hn in hnodes:
                    names = self._handler_names(fi, hn.ast.type)
                    if any(self.hier.is_sub(exc, h) for h in names):
                        caught.append(hn)
                        return caught, False
                    if any(self.hier.is_sub(h, exc) for h in names):
                        caught.append(hn)     # may catch (handler narrower than the raised class)
            fin = g.finally_exc.get(id(tr))
            if fin is not None:
                # not caught at this level (or raised in a handler / else block): the finally block runs with the exception
                # in flight and re-raises it at its exit node, from where routing continues in the outer context
                caught.append(fin[0])
                return caught, False
        return caught, True

    def _handler_arrivals(self, fi, g, raises):
        """handler node id -> set of exception classes that may arrive there"""
        arr = {}
        for n in g.nodes:
            for exc in raises.get(n.id, {}):
                hs, _ = self.route(fi, n, exc)
                for h in hs:
                    arr.setdefault(h.id, set()).add(exc)
        return arr

    # ------------------------------------------------------------------ fixpoint
    def analyse_all(self, funcs=None):
        funcs = funcs or self.prog.all_functions()
        for f in funcs:
            self.esc.setdefault(f.qual, {})
        changed = True
        rounds = 0
        while changed:
            changed = False
            rounds += 1
            if rounds > 40:
                raise AnalysisError('escape fixpoint did not converge')
            for f in funcs:
                new = self._escape_of(f)
                old = self.esc[f.qual]
                if self._sig(new) != self._sig(old):
                    changed = True
                    self.esc[f.qual] = new
        self._done = True
        return self.esc

    @staticmethod
    def _sig(e):
        return {(k, o) for k, d in e.items() for o in d}

    MAX_ORIGINS = 16

    def node_raises(self, fi):
        """node id -> {exc: {origin: witness chain}} using the current callee summaries.
        origin = 'qual: construct text' of the raising construct (position independent)."""
        dmap, cmap = self.direct(fi)
        g = build_cfg(fi)
        out = {}
        for n in g.nodes:
            r = {}
            for exc, text, an in dmap[n.id]:
                if exc == '<reraise>':
                    continue
                origin = '%s: %s' % (fi.qual, text)
                r.setdefault(exc, {}).setdefault(origin, ['%s %s: %s' % (self.prog.loc(fi, an), fi.qual, text)])
            for t, call in cmap[n.id]:
                for exc, origins in self.esc.get(t.qual, {}).items():
                    if self.kills is not None:
                        why = self.kills(fi, n, exc, 'call ' + t.qual, call)
                        if why:
                            continue
                    d = r.setdefault(exc, {})
                    for origin, chain in origins.items():
                        if origin not in d and len(d) < self.MAX_ORIGINS:
                            d[origin] = ['%s %s: call %s' % (self.prog.loc(fi, call), fi.qual, t.qual)] + chain
            out[n.id] = r
        # exceptions that enter the exceptional copy of a finally block are re-raised at its exit node
        if g.finally_exc:
            changed = True
            while changed:
                changed = False
                for n in g.nodes:
                    for exc, origins in list(out[n.id].items()):
                        hs, _ = self.route(fi, n, exc)
                        for h in hs:
                            if h.kind == 'finally':
                                fexit = g.finally_exc[id(h.ast)][1]
                                d = out[fexit.id].setdefault(exc, {})
                                for o, chain in origins.items():
                                    if o not in d and len(d) < self.MAX_ORIGINS:
                                        d[o] = chain
                                        changed = True
        # bare raise in handlers re-raises what arrives
        arr = None
        for n in g.nodes:
            if any(e[0] == '<reraise>' for e in dmap[n.id]):
                if arr is None:
                    arr = self._handler_arrivals(fi, g, out)
                for (tr, part, hn) in reversed(n.try_ctx):
                    if part == 'handler':
                        for exc in arr.get(hn.id, ()):
                            out[n.id].setdefault(exc, {}).setdefault(
                                '%s: re-raise' % fi.qual, ['%s %s: re-raise' % (self.prog.loc(fi, n.ast), fi.qual)])
                        break
        return out

    def _escape_of(self, fi):
        g = build_cfg(fi)
        raises = self.node_raises(fi)
        esc = {}
        for n in g.nodes:
            for exc, origins in raises[n.id].items():
                _, escapes = self.route(fi, n, exc)
                if escapes:
                    d = esc.setdefault(exc, {})
                    for o, chain in origins.items():
                        if o not in d and len(d) < self.MAX_ORIGINS:
                            d[o] = chain
        return esc

    def escapes(self, fi):
        if not self._done:
            self.analyse_all()
        return self.esc.get(fi.qual, {})

    def add_exception_edges(self, fi):
        """Materialise exception edges in the CFG of fi (idempotent)."""
        if not self._done:
            self.analyse_all()
        g = build_cfg(fi)
        if getattr(g, '_exc_done', False):
            return g
        raises = self.node_raises(fi)
        for n in g.nodes:
            n.raises = raises[n.id]
            for exc in raises[n.id]:
                hs, escapes = self.route(fi, n, exc)
                for h in hs:
                    CFG.link(n, ('exc', exc), h)
                if escapes:
                    CFG.link(n, ('exc', exc), g.xexit)
        g._exc_done = True
        return g

    def reach(self, roots):
        """Set of function quals reachable from roots over resolved calls."""
        seen = set()
        todo = [r.qual for r in roots]
        while todo:
            q = todo.pop()
            if q in seen:
                continue
            seen.add(q)
            f = self.prog.functions.get(q)
            if f is None:
                continue
            _, cmap = self.direct(f)
            for calls in cmap.values():
                for t, _ in calls:
                    if t.qual not in seen:
                        todo.append(t.qual)
        return seen
