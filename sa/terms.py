"""A5/A6 helpers: expression inlining, concatenation terms, keyword binding, small
provenance queries.  Everything works on ast nodes of the current tree; nothing is
compared by position or raw text of whole statements."""
import ast
import copy

from .model import AnalysisError, attr_chain, src, walk_no_nested


def single_def(res, fi, name):
    """the unique definition of local `name` in fi (ast expr or ('unpack', expr, i) /
    ('elem', expr) tuples), or None when there are 0 or several"""
    defs = res.local_defs(fi).get(name, [])
    return defs[0] if len(defs) == 1 else None


class _Inliner(ast.NodeTransformer):
    def __init__(self, res, fi, depth, stop):
        self.res, self.fi, self.depth, self.stop = res, fi, depth, stop

    def visit_Name(self, node):
        if not isinstance(node.ctx, ast.Load) or self.depth <= 0 or node.id in self.stop:
            return node
        d = single_def(self.res, self.fi, node.id)
        if d is None:
            return node
        if isinstance(d, tuple):
            if d[0] == 'unpack':
                inner = inline(self.res, self.fi, d[1], self.depth - 1, self.stop | {node.id})
                if isinstance(inner, (ast.Tuple, ast.List)) and d[2] < len(inner.elts):
                    return inner.elts[d[2]]
                return ast.Subscript(value=inner, slice=ast.Constant(value=d[2]), ctx=ast.Load())
            return node
        return inline(self.res, self.fi, d, self.depth - 1, self.stop | {node.id})

    def visit_Lambda(self, node):
        return node

    def visit_ListComp(self, node):
        return node

    def visit_GeneratorExp(self, node):
        return node


def inline(res, fi, expr, depth=6, stop=frozenset()):
    """expr with every single-definition local replaced by its definition (recursively)"""
    e = copy.deepcopy(expr)
    out = _Inliner(res, fi, depth, frozenset(stop)).visit(e)
    return ast.fix_missing_locations(out) if hasattr(out, 'lineno') else out


def flatten_add(expr):
    """operands of a left/right nested `+` chain, in order"""
    if isinstance(expr, ast.BinOp) and isinstance(expr.op, ast.Add):
        return flatten_add(expr.left) + flatten_add(expr.right)
    return [expr]


def concat_term(res, fi, expr, depth=6):
    """normalised concatenation term: list of source texts of the operands after inlining"""
    return [src(x) for x in flatten_add(inline(res, fi, expr, depth))]


def kwargs_of(call, target=None, names=None):
    """parameter name -> argument expression for a call; positional args are named through
    `target` (FuncInfo) or an explicit list `names`"""
    out = {}
    params = names if names is not None else (target.call_params() if target is not None else [])
    for i, a in enumerate(call.args):
        if isinstance(a, ast.Starred):
            raise AnalysisError('starred argument in %s' % src(call)[:60])
        if i < len(params):
            out[params[i]] = a
        else:
            out['#%d' % i] = a
    for kw in call.keywords:
        if kw.arg is None:
            raise AnalysisError('**kwargs in %s' % src(call)[:60])
        out[kw.arg] = kw.value
    return out


def calls_in(node, pred=None):
    out = []
    for x in walk_no_nested(node):
        if isinstance(x, ast.Call) and (pred is None or pred(x)):
            out.append(x)
    return out


def callee_name(call):
    f = call.func
    if isinstance(f, ast.Attribute):
        return f.attr
    if isinstance(f, ast.Name):
        return f.id
    return None


def assignments(fi, target_text):
    """ast.Assign / AugAssign nodes of fi whose (one) target has source text target_text"""
    out = []
    for n in walk_no_nested(fi.node):
        if isinstance(n, ast.Assign):
            for t in n.targets:
                if src(t) == target_text:
                    out.append(n)
                elif isinstance(t, (ast.Tuple, ast.List)) and any(src(e) == target_text for e in t.elts):
                    out.append(n)
        elif isinstance(n, ast.AugAssign) and src(n.target) == target_text:
            out.append(n)
    return out


def is_const(expr, value):
    return isinstance(expr, ast.Constant) and expr.value == value and type(expr.value) is type(value)


def strip_not(expr):
    """(inner, negated?) for `not X`"""
    if isinstance(expr, ast.UnaryOp) and isinstance(expr.op, ast.Not):
        return expr.operand, True
    return expr, False


def compare_parts(expr):
    """(left, op class, right) of a single comparison, else None"""
    if isinstance(expr, ast.Compare) and len(expr.ops) == 1:
        return expr.left, type(expr.ops[0]), expr.comparators[0]
    return None
