"""Normalisation pre-pass (DESIGN 8.6): helper functions that are not part of the reference tree are inlined into
their callers before any rule looks at the program.

Why: the rules are anchored in the functions of the reference tree (sa/tables/known_functions.json, generated from
the pinned commit).  "Extract method" is the most common behaviour-preserving edit; it moves a guard, a term or a
call the rules look for out of the anchored function into a new helper.  Instead of teaching every rule to follow
calls, the program is put back into the shape the rules know: every call whose callee resolves uniquely to a
repository function that is not in the reference table is replaced by the callee's body, parameters substituted,
locals renamed apart, early returns restructured (if/else nesting, try/else, for/else) so that the control flow is
exactly the callee's.  A helper that cannot be inlined faithfully (recursion, generators, *args, returns inside nested
loops, ...) is left as a call - the interprocedural analyses (escape, typestate, taint) see through it anyway.

The transformation is purely syntactic and semantics-preserving up to evaluation order of argument expressions that
are substituted; it never invents or removes an operation.  What was inlined is reported in the evidence.
"""
import ast
import copy
import json
import os

from .model import walk_no_nested, src, attr_chain

_TABLE = os.path.join(os.path.dirname(os.path.abspath(__file__)), 'tables', 'known_functions.json')


def known_functions():
    with open(_TABLE) as f:
        return set(json.load(f)['functions'])


def known_constants():
    with open(_TABLE) as f:
        return set(json.load(f).get('constants', []))


def known_table():
    with open(_TABLE) as f:
        return json.load(f)


def function_refs(prog, names):
    """per function: the identifiers it mentions (attribute names and plain names) that are in `names`"""
    out = {}
    for q, fi in prog.functions.items():
        r = set()
        for x in ast.walk(fi.node):
            if isinstance(x, ast.Attribute) and x.attr in names:
                r.add(x.attr)
            elif isinstance(x, ast.Name) and x.id in names:
                r.add(x.id)
        out[q] = r
    return out


def _kind(fi):
    return ('classmethod' if fi.is_classmethod else 'staticmethod' if fi.is_staticmethod else 'property' if fi.is_property
            else 'method' if fi.cls is not None else 'function')


def _jacc(a, b):
    if not a and not b:
        return 1.0
    return len(a & b) / float(len(a | b))


def _wjacc(a, b, wa, wb):
    """Jaccard similarity of two name sets in which the names of `wa` (gone from the tree) and `wb` (new in the tree) are
    anonymous: k gone names on one side match k new names on the other"""
    a0, b0 = a - wa, b - wb
    na, nb = len(a & wa), len(b & wb)
    inter = len(a0 & b0) + min(na, nb)
    union = len(a0 | b0) + max(na, nb)
    return 1.0 if union == 0 else inter / float(union)


def recover_renames(prog, table):
    """A function of the reference tree that is gone while a function the reference tree does not have sits in the same
    class/module, has the same kind and arity, is mentioned by the same functions and mentions the same functions: the same
    function under a new name.  The new name is mapped back to the reference name everywhere (definition, attribute and name
    references), so the rules - which are anchored in the reference names - find it.  Only an unambiguous best match is
    taken; matching is repeated until nothing more is found (a renamed caller of a renamed function is recognised once one of
    the two is); anything else is left alone (the rules then report the vanished anchor as an analysis error, exit 2).
    Names are not semantics: whatever is matched is still analysed by its body."""
    out = []
    for _ in range(8):
        got = _recover_renames_once(prog, table)
        if not got:
            break
        out += got
        prog.reindex()
    return out


def _recover_renames_once(prog, table):
    known = set(table['functions'])
    sigs, krefs, kinds = table.get('signatures', {}), table.get('refs', {}), table.get('kinds', {})
    if not krefs or not kinds:
        return []
    holders = set(list(prog.classes) + list(prog.modules))
    missing = [q for q in sorted(known) if q not in prog.functions and q.rsplit('.', 1)[0] in holders]
    new = [q for q in sorted(prog.functions) if q not in known and not (q.rsplit('.', 1)[1].startswith('__'))]
    if not missing or not new:
        return []
    defined = {}
    for q in prog.functions:
        defined.setdefault(q.rsplit('.', 1)[1], []).append(q)
    mentioned = set()
    for m in prog.modules.values():
        for x in ast.walk(m.tree):
            if isinstance(x, ast.Attribute):
                mentioned.add(x.attr)
            elif isinstance(x, ast.Name):
                mentioned.add(x.id)
    names_now = {q.rsplit('.', 1)[1] for q in prog.functions}
    names_ref = {q.rsplit('.', 1)[1] for q in known}
    refs_now = function_refs(prog, names_now | names_ref)
    refs_ref = krefs_sets(krefs)
    gone_names = {q.rsplit('.', 1)[1] for q in missing}
    new_names = {q.rsplit('.', 1)[1] for q in new}
    gone_quals, new_quals = set(missing), set(new)

    def mentioners(refs, name, exclude):
        return {q for q, r in refs.items() if name in r and q != exclude}
    pairs = []
    for mq in missing:
        holder, mname = mq.rsplit('.', 1)
        if mname in mentioned or mname in defined:
            continue        # the reference name is still in use for something: not a plain rename
        if mname.startswith('_') and mname.endswith('_'):
            continue        # _missing_, __str__, ...: names a library or the interpreter calls by name - renaming them changes behaviour
        msig = sigs.get(mq)
        for nq in new:
            nh, nname = nq.rsplit('.', 1)
            if nh != holder or len(defined.get(nname, ())) != 1 or nname in names_ref:
                continue
            fi = prog.functions[nq]
            if not isinstance(fi.node, ast.FunctionDef) or _kind(fi) != kinds.get(mq):
                continue
            if msig is not None:
                k = msig.index('*')
                if len(fi.params) != k or len(fi.kwonly) != len(msig) - k - 1:
                    continue
            s1 = _wjacc(mentioners(refs_ref, mname, mq), mentioners(refs_now, nname, nq), gone_quals, new_quals)
            s2 = _wjacc(set(refs_ref.get(mq, ())) - {mname}, set(refs_now.get(nq, ())) - {nname}, gone_names, new_names)
            pairs.append((s1 + s2, mq, nq))
    pairs.sort(reverse=True)
    done_m, done_n, out = set(), set(), []
    for score, mq, nq in pairs:
        if mq in done_m or nq in done_n:
            continue
        rivals = [s2 for s2, m2, n2 in pairs if (m2 == mq) != (n2 == nq) and m2 not in done_m and n2 not in done_n]
        if score < 1.2 or (rivals and max(rivals) > score - 0.3):
            continue
        done_m.add(mq)
        done_n.add(nq)
        out.append({'reference_name': mq, 'found_as': nq, 'score': round(score, 2)})
    for r in out:
        old, newn = r['reference_name'].rsplit('.', 1)[1], r['found_as'].rsplit('.', 1)[1]
        for m in prog.modules.values():
            for x in ast.walk(m.tree):
                if isinstance(x, ast.Attribute) and x.attr == newn:
                    x.attr = old
                elif isinstance(x, ast.Name) and x.id == newn:
                    x.id = old
                elif isinstance(x, (ast.FunctionDef, ast.AsyncFunctionDef)) and x.name == newn:
                    x.name = old
    return out


def recover_moves(prog, table):
    """A method of the reference tree that is gone while a function the reference tree does not have (in the same module, at module
    level or in the same class) is called from the same places and takes the same arguments - possibly after ONE extra leading
    argument that every caller computes from the receiver (`self.ike_sas`, `cls.type_2_payload`, `self`): the method was moved out of
    its class.  The reference method is put back as a one-line wrapper around the new function, and the call sites inside the class
    call the wrapper again; the new function is then inlined into it like any other unknown helper, so the rules find the anchor and
    its body where they expect them."""
    known = set(table['functions'])
    sigs, krefs, kinds = table.get('signatures', {}), table.get('refs', {}), table.get('kinds', {})
    if not krefs or not kinds:
        return []
    refs_ref = krefs_sets(krefs)
    out = []
    for mq in sorted(known):
        if mq in prog.functions or kinds.get(mq) not in ('method', 'classmethod', 'staticmethod'):
            continue
        holder, mname = mq.rsplit('.', 1)
        cls = prog.classes.get(holder)
        if cls is None or (mname.startswith('_') and mname.endswith('_')):
            continue
        if any(isinstance(x, (ast.Attribute,)) and x.attr == mname or isinstance(x, ast.Name) and x.id == mname
               for m in prog.modules.values() for x in ast.walk(m.tree)):
            continue
        sig = sigs.get(mq)
        if sig is None:
            continue
        k_ = sig.index('*')
        ref_pos = sig[:k_]
        if sig[k_ + 1:]:
            continue
        kind = kinds[mq]
        call_params = ref_pos[1:] if kind in ('method', 'classmethod') else ref_pos
        callers_ref = {q for q, r in refs_ref.items() if mname in r and q != mq}
        cands = []
        for nq, fi in prog.functions.items():
            if nq in known or not isinstance(fi.node, ast.FunctionDef) or fi.module is not cls.module:
                continue
            if fi.cls is not None and fi.cls is not cls:
                continue
            if fi.node.args.vararg or fi.node.args.kwarg or fi.kwonly:
                continue
            extra = len(fi.call_params()) - len(call_params)
            if extra not in (0, 1):
                continue
            # call sites of the candidate
            sites = []
            for q2, f2 in prog.functions.items():
                for c in ast.walk(f2.node):
                    if isinstance(c, ast.Call) and ((isinstance(c.func, ast.Name) and c.func.id == fi.name) or
                                                    (isinstance(c.func, ast.Attribute) and c.func.attr == fi.name)):
                        sites.append((q2, f2, c))
            if not sites or any(c.keywords and extra for _, _, c in sites) or any(len(c.args) + len(c.keywords) != len(fi.call_params()) and not fi.defaults()
                                                                                   for _, _, c in sites):
                continue
            callers_now = {q2 for q2, _, _ in sites}
            gone_q = {q for q in known if q not in prog.functions}
            new_q = {q for q in prog.functions if q not in known}
            if _wjacc(callers_ref, callers_now, gone_q, new_q) < 0.5:
                continue
            lead = None
            if extra == 1:
                texts = set()
                for q2, f2, c in sites:
                    if not c.args:
                        texts.add(None)
                        continue
                    a0 = c.args[0]
                    root = a0
                    while isinstance(root, ast.Attribute):
                        root = root.value
                    if not (isinstance(root, ast.Name) and f2.cls is cls and root.id == (f2.self_name or '')):
                        texts.add(None)
                        continue
                    texts.add(src(a0).replace(root.id, '@', 1) if src(a0).startswith(root.id) else None)
                if len(texts) != 1 or None in texts:
                    continue
                lead = texts.pop()
            names_now = {q.rsplit('.', 1)[1] for q in prog.functions} | {q.rsplit('.', 1)[1] for q in known}
            mentions_now = {x.attr if isinstance(x, ast.Attribute) else x.id for x in ast.walk(fi.node)
                            if isinstance(x, (ast.Attribute, ast.Name))} & names_now
            # what the body reads, by attribute name: a weak fingerprint that tells sibling helpers apart
            attrs_now = {x.attr for x in ast.walk(fi.node) if isinstance(x, ast.Attribute)}
            attrs_ref = set(table.get('attr_reads', {}).get(mq, ()))
            score = _wjacc(callers_ref, callers_now, gone_q, new_q) + _jacc(set(refs_ref.get(mq, ())) - {mname}, mentions_now - {fi.name}) + \
                (_jacc(attrs_ref, attrs_now) if attrs_ref else 0)
            cands.append((score, fi, extra, lead, sites))
        if not cands:
            continue
        cands.sort(key=lambda c: -c[0])
        if len(cands) > 1 and cands[0][0] - cands[1][0] < 0.3:
            continue
        _, fi, extra, lead, sites = cands[0]
        recv = 'cls' if kind == 'classmethod' else 'self'
        # put the function back where the reference tree has it: same body, the reference parameter names, the extra leading
        # parameter replaced by the expression every caller passed for it
        fparams = fi.call_params()
        if fi.cls is not None and not fi.is_staticmethod:
            continue            # a method of the class under another name and role: not a plain move
        exprs, renames = {}, {}
        if extra:
            try:
                exprs[fparams[0]] = ast.parse(lead.replace('@', recv, 1), mode='eval').body
            except SyntaxError:
                continue
        for a, b in zip(fparams[extra:], call_params):
            if a != b:
                renames[a] = b
        used = {x.id for x in ast.walk(fi.node) if isinstance(x, ast.Name)}
        if any(b in used and b not in fparams for b in renames.values()) or (extra and fparams[0] in _stored_names(fi.node)):
            continue
        wrapper = copy.deepcopy(fi.node)
        wrapper.name = mname
        wrapper.decorator_list = [ast.Name(id=kind, ctx=ast.Load())] if kind in ('classmethod', 'staticmethod') else []
        wrapper.body = [_Subst(exprs, renames).visit(st) for st in wrapper.body]
        wrapper.args = copy.deepcopy(fi.node.args)
        keep = wrapper.args.args[extra:]
        for a_ in keep:
            a_.arg = renames.get(a_.arg, a_.arg)
        lead_args = [ast.arg(arg=ref_pos[0], annotation=None)] if kind in ('method', 'classmethod') else []
        wrapper.args.args = lead_args + keep
        wrapper.args.posonlyargs = []
        ast.fix_missing_locations(wrapper)
        cls.node.body.append(wrapper)
        # call sites inside the class go through the wrapper again
        for q2, f2, c in sites:
            if f2.cls is cls and f2.self_name and f2.node is not wrapper:
                rest = c.args[extra:]
                if kind == 'staticmethod':
                    c.func = ast.Attribute(value=ast.Name(id=cls.name, ctx=ast.Load()), attr=mname, ctx=ast.Load())
                else:
                    c.func = ast.Attribute(value=ast.Name(id=f2.self_name, ctx=ast.Load()), attr=mname, ctx=ast.Load())
                c.args = list(rest)
                ast.fix_missing_locations(c)
        out.append({'reference_name': mq, 'found_as': fi.qual, 'moved': True, 'leading_argument': lead, 'kind': kind})
    return out


def identifier_mentions(prog):
    """(mentions, vocabulary): for every identifier the program itself defines (an attribute that is stored somewhere, a name
    bound in a class body or at module level - functions excluded) the set of places that mention it, as 'location|S' (stored)
    or 'location|L' (read), where location is the enclosing function, class body or module; and every identifier that occurs
    in the program at all"""
    where = {}
    vocab = set()
    defined = set()
    fnames = {q.rsplit('.', 1)[1] for q in prog.functions}

    def scan(node, loc):
        for x in ast.iter_child_nodes(node):
            if isinstance(x, (ast.FunctionDef, ast.AsyncFunctionDef)):
                vocab.add(x.name)
                scan(x, loc_of.get(id(x), loc + '.' + x.name))
                continue
            if isinstance(x, ast.ClassDef):
                vocab.add(x.name)
                for st in x.body:
                    if isinstance(st, ast.Assign):
                        for t in st.targets:
                            if isinstance(t, ast.Name):
                                defined.add(t.id)
                scan(x, 'class:' + x.name)
                continue
            if isinstance(x, ast.Attribute):
                vocab.add(x.attr)
                c = 'S' if isinstance(x.ctx, (ast.Store, ast.Del)) else 'L'
                if c == 'S':
                    defined.add(x.attr)
                where.setdefault(x.attr, set()).add(loc + '|' + c)
            elif isinstance(x, ast.Name):
                vocab.add(x.id)
                c = 'S' if isinstance(x.ctx, (ast.Store, ast.Del)) else 'L'
                where.setdefault(x.id, set()).add(loc + '|' + c)
            elif isinstance(x, ast.keyword) and x.arg:
                vocab.add(x.arg)
            elif isinstance(x, ast.arg):
                vocab.add(x.arg)
            scan(x, loc)
    loc_of = {id(fi.node): q for q, fi in prog.functions.items()}
    for m in prog.modules.values():
        for st in m.tree.body:
            if isinstance(st, ast.Assign):
                for t in st.targets:
                    if isinstance(t, ast.Name):
                        defined.add(t.id)
        scan(m.tree, 'module:' + m.name)
    return {k: v for k, v in where.items() if k in defined and k not in fnames}, vocab


def recover_identifier_renames(prog, table):
    """The same idea as recover_renames for attributes and class/module-level names the program defines: an identifier of the
    reference tree that occurs nowhere any more, and an identifier the reference tree does not contain at all that is stored and
    read in the same functions: the same thing under a new name - mapped back, everywhere."""
    ref = table.get('mentions')
    vocab_ref = set(table.get('vocabulary', ()))
    if not ref or not vocab_ref:
        return []
    now, vocab_now = identifier_mentions(prog)
    missing = [k for k in sorted(ref) if k not in vocab_now and not (k.startswith('_') and k.endswith('_'))]    # not protocol names (_fields_)
    new = [k for k in sorted(now) if k not in vocab_ref]
    if not missing or not new:
        return []
    pairs = []
    for m in missing:
        sm = set(ref[m])
        for n in new:
            sn = now[n]
            if any(x.endswith('|S') for x in sm & sn) or not any(x.endswith('|S') for x in sm):
                pairs.append((_jacc(sm, sn), m, n))
    pairs.sort(reverse=True)
    out, dm, dn = [], set(), set()
    for score, m, n in pairs:
        if m in dm or n in dn:
            continue
        rivals = [s2 for s2, m2, n2 in pairs if (m2 == m) != (n2 == n) and m2 not in dm and n2 not in dn]
        if score < 0.7 or (rivals and max(rivals) > score - 0.2):
            continue
        dm.add(m)
        dn.add(n)
        out.append({'reference_name': m, 'found_as': n, 'score': round(score, 2)})
    for r in out:
        old, newn = r['reference_name'], r['found_as']
        for mod in prog.modules.values():
            for x in ast.walk(mod.tree):
                if isinstance(x, ast.Attribute) and x.attr == newn:
                    x.attr = old
                elif isinstance(x, ast.Name) and x.id == newn:
                    x.id = old
                elif isinstance(x, (ast.keyword, ast.arg)) and x.arg == newn:
                    x.arg = old
    return out


def recover_parameter_renames(prog, table):
    """A function of the reference tree whose parameters have the same number and kinds but other names: alpha-renamed back to
    the reference names (body and keyword arguments at its call sites), because the rules state what they expect as expressions
    over the reference parameter names."""
    sigs = table.get('signatures', {})
    out = []
    by_name = {}
    for q, fi in prog.functions.items():
        by_name.setdefault(fi.name if fi.name != '__init__' or fi.cls is None else fi.cls.name, []).append(fi)
    for q, fi in sorted(prog.functions.items()):
        sig = sigs.get(q)
        if sig is None or not isinstance(fi.node, ast.FunctionDef):
            continue
        k = sig.index('*')
        ref_pos, ref_kw = sig[:k], sig[k + 1:]
        if len(ref_pos) != len(fi.params) or len(ref_kw) != len(fi.kwonly) or (ref_pos == fi.params and ref_kw == fi.kwonly):
            continue
        mapping = {n: o for n, o in zip(fi.params + fi.kwonly, ref_pos + ref_kw) if n != o}
        if not mapping:
            continue
        if any(n in ref_pos + ref_kw for n in mapping):
            continue            # a reference name sits at another position: a permutation, not a rename
        used = {x.id for x in ast.walk(fi.node) if isinstance(x, ast.Name)} | {a.arg for a in ast.walk(fi.node) if isinstance(a, ast.arg)}
        if any(o in used and o not in mapping for o in mapping.values()):
            continue            # the reference name is taken by something else in this function
        if len(set(mapping.values())) != len(mapping):
            continue
        for x in ast.walk(fi.node):
            if isinstance(x, ast.Name) and x.id in mapping:
                x.id = mapping[x.id]
            elif isinstance(x, ast.arg) and x.arg in mapping:
                x.arg = mapping[x.arg]
        callee = fi.name if fi.name != '__init__' or fi.cls is None else fi.cls.name
        rivals = [g for g in by_name.get(callee, ()) if g is not fi and set(g.params + g.kwonly) & set(mapping)]
        if not rivals:
            for m in prog.modules.values():
                for c in ast.walk(m.tree):
                    if isinstance(c, ast.Call) and c.keywords:
                        f = c.func
                        nm = f.attr if isinstance(f, ast.Attribute) else f.id if isinstance(f, ast.Name) else None
                        if nm == callee:
                            for kw in c.keywords:
                                if kw.arg in mapping:
                                    kw.arg = mapping[kw.arg]
        out.append({'function': q, 'parameters': {n: o for n, o in mapping.items()}})
    return out


def local_fingerprints(func):
    """{local name: sorted fingerprints of its bindings} of a function: the shape of each bound value with every variable name
    blanked (attribute names, constants and call structure stay), so that a renamed local is recognised by what is assigned to it"""
    class Blank(ast.NodeTransformer):
        def visit_Name(s_, n):
            return ast.copy_location(ast.Name(id='_', ctx=ast.Load()), n)

    def fp(kind, value, pos=''):
        return '%s%s:%s' % (kind, pos, ast.dump(Blank().visit(copy.deepcopy(value))) if value is not None else '')
    out = {}
    params = {a.arg for a in ast.walk(func.args) if isinstance(a, ast.arg)}

    def bind(target, kind, value, pos=''):
        if isinstance(target, ast.Name):
            if target.id not in params:
                out.setdefault(target.id, []).append(fp(kind, value, pos))
        elif isinstance(target, (ast.Tuple, ast.List)):
            for i, t in enumerate(target.elts):
                bind(t, kind, value, '%s.%d' % (pos, i))
        elif isinstance(target, ast.Starred):
            bind(target.value, kind, value, pos + '*')
    for x in ast.walk(func):
        if isinstance(x, ast.Assign):
            for t in x.targets:
                bind(t, 'assign', x.value)
        elif isinstance(x, ast.AugAssign):
            bind(x.target, 'aug' + type(x.op).__name__, x.value)
        elif isinstance(x, ast.AnnAssign) and x.value is not None:
            bind(x.target, 'assign', x.value)
        elif isinstance(x, (ast.For, ast.comprehension)):
            bind(x.target, 'for', x.iter)
        elif isinstance(x, ast.withitem) and x.optional_vars is not None:
            bind(x.optional_vars, 'with', x.context_expr)
        elif isinstance(x, ast.ExceptHandler) and x.name and x.name not in params:
            out.setdefault(x.name, []).append(fp('except', x.type))
        elif isinstance(x, ast.NamedExpr):
            bind(x.target, 'assign', x.value)
    return {k: sorted(v) for k, v in out.items()}


def recover_local_renames(prog, table):
    """A local variable of a reference function that is gone, while a new local with exactly the same bindings (same shapes of the
    bound values) has appeared in that function: renamed back.  Only the rules that go by the names of locals need this (C20 names
    key material by identifier); value terms never see local names."""
    ref = table.get('locals', {})
    out = []
    for q, fi in sorted(prog.functions.items()):
        r = ref.get(q)
        if not r or not isinstance(fi.node, ast.FunctionDef):
            continue
        cur = local_fingerprints(fi.node)
        used = {x.id for x in ast.walk(fi.node) if isinstance(x, ast.Name)} | {a.arg for a in ast.walk(fi.node) if isinstance(a, ast.arg)}
        missing = [m for m in r if m not in used]
        new = [n for n in cur if n not in r]
        mapping = {}
        for m in missing:
            cands = [n for n in new if cur[n] == r[m]]
            if len(cands) == 1:
                mapping.setdefault(cands[0], []).append(m)
        mapping = {n: ms[0] for n, ms in mapping.items() if len(ms) == 1}
        if not mapping:
            continue
        for x in ast.walk(fi.node):
            if isinstance(x, ast.Name) and x.id in mapping:
                x.id = mapping[x.id]
            elif isinstance(x, ast.ExceptHandler) and x.name in mapping:
                x.name = mapping[x.name]
        out.append({'function': q, 'locals': dict(mapping)})
    return out


def krefs_sets(krefs, _cache={}):
    k = id(krefs)
    if k not in _cache:
        _cache.clear()
        _cache[k] = {q: set(v) for q, v in krefs.items()}
    return _cache[k]


_MUTATORS = ('append', 'extend', 'pop', 'remove', 'insert', 'clear', 'update', 'sort', 'reverse')


def _own_statements(stmts):
    """statements of a loop body that belong to this loop (nested loops are not entered; nested functions neither)"""
    for st in stmts:
        yield st
        if isinstance(st, (ast.For, ast.While, ast.AsyncFor, ast.FunctionDef, ast.AsyncFunctionDef, ast.ClassDef)):
            continue
        for fld in ('body', 'orelse', 'finalbody'):
            sub = getattr(st, fld, None)
            if isinstance(sub, list):
                for x in _own_statements(sub):
                    yield x
        for h in getattr(st, 'handlers', []) or []:
            for x in _own_statements(h.body):
                yield x


def _stored_in(stmts):
    out = set()
    for st in stmts:
        for x in ast.walk(st):
            if isinstance(x, ast.Name) and isinstance(x.ctx, (ast.Store, ast.Del)):
                out.add(x.id)
            elif isinstance(x, ast.Call) and isinstance(x.func, ast.Attribute) and x.func.attr in _MUTATORS \
                    and isinstance(x.func.value, ast.Name):
                out.add(x.func.value.id)
            elif isinstance(x, ast.AugAssign) and isinstance(x.target, ast.Name):
                out.add(x.target.id)
    return out


def counting_whiles_to_for(func):
    """`i = a ... while i < B: BODY; i += c` (c a positive integer constant, B not changed by the loop, no `continue`, i not read after the
    loop)  ->  `for i in range(i, B, c): BODY`.  The two forms visit the same values of i and evaluate the same statements in the same
    order; the canonical form lets every rule treat a counting loop the same way however it is spelt.  Returns the number of loops."""
    count = 0

    def invariant(e, stored):
        for x in ast.walk(e):
            if isinstance(x, ast.Name) and x.id in stored:
                return False
            if isinstance(x, ast.Call) and not (isinstance(x.func, ast.Name) and x.func.id == 'len' and len(x.args) == 1
                                                and isinstance(x.args[0], (ast.Name, ast.Attribute))):
                return False
            if isinstance(x, (ast.Attribute, ast.Subscript)) and not isinstance(x.ctx, ast.Load):
                return False
        return True

    def visit(stmts, later_reads):
        nonlocal count
        for j, st in enumerate(stmts):
            tail_reads = later_reads | {x.id for s2 in stmts[j + 1:] for x in ast.walk(s2) if isinstance(x, ast.Name) and isinstance(x.ctx, ast.Load)}
            for fld in ('body', 'orelse', 'finalbody'):
                sub = getattr(st, fld, None)
                if isinstance(sub, list) and sub and not isinstance(st, (ast.FunctionDef, ast.AsyncFunctionDef, ast.ClassDef)):
                    inner_later = tail_reads
                    if isinstance(st, (ast.While, ast.For)):
                        inner_later = tail_reads | {x.id for x in ast.walk(st) if isinstance(x, ast.Name) and isinstance(x.ctx, ast.Load)}
                    visit(sub, inner_later)
            for h in getattr(st, 'handlers', []) or []:
                visit(h.body, tail_reads)
            if not isinstance(st, ast.While) or not st.body:
                continue
            t = st.test
            if not (isinstance(t, ast.Compare) and len(t.ops) == 1):
                continue
            if isinstance(t.ops[0], ast.Lt) and isinstance(t.left, ast.Name):
                i, bound = t.left.id, t.comparators[0]
            elif isinstance(t.ops[0], ast.Gt) and isinstance(t.comparators[0], ast.Name):
                i, bound = t.comparators[0].id, t.left
            else:
                continue
            last = st.body[-1]
            step = None
            if isinstance(last, ast.AugAssign) and isinstance(last.op, ast.Add) and isinstance(last.target, ast.Name) and last.target.id == i:
                step = last.value
            elif isinstance(last, ast.Assign) and len(last.targets) == 1 and isinstance(last.targets[0], ast.Name) and last.targets[0].id == i \
                    and isinstance(last.value, ast.BinOp) and isinstance(last.value.op, ast.Add):
                a, b = last.value.left, last.value.right
                if isinstance(a, ast.Name) and a.id == i:
                    step = b
                elif isinstance(b, ast.Name) and b.id == i:
                    step = a
            if not (isinstance(step, ast.Constant) and isinstance(step.value, int) and not isinstance(step.value, bool) and step.value >= 1):
                continue
            rest = st.body[:-1]
            stored = _stored_in(rest)
            if i in stored or not invariant(bound, stored | {i}):
                continue
            if any(isinstance(x, ast.Continue) for x in _own_statements(rest)):
                continue
            if i in tail_reads:
                continue
            # i must have been bound before the loop in this block or be a parameter / earlier local: range(i, ...) reads it
            args = [ast.Name(id=i, ctx=ast.Load()), bound] + ([step] if step.value != 1 else [])
            new = ast.For(target=ast.Name(id=i, ctx=ast.Store()), iter=ast.Call(func=ast.Name(id='range', ctx=ast.Load()), args=args, keywords=[]),
                          body=rest or [ast.Pass()], orelse=st.orelse, type_comment=None)
            ast.copy_location(new, st)
            ast.fix_missing_locations(new)
            stmts[j] = new
            count += 1
    visit(func.body, set())
    return count


class _Splice(ast.NodeTransformer):
    """`(a, *(b, c))` -> `(a, b, c)`, `f(*(b, c))` -> `f(b, c)`: what is left of `*args` after the argument tuple was put in"""

    @staticmethod
    def _flat(elts):
        out = []
        for e in elts:
            if isinstance(e, ast.Starred) and isinstance(e.value, (ast.Tuple, ast.List)):
                out.extend(e.value.elts)
            else:
                out.append(e)
        return out

    def visit_Tuple(self, node):
        self.generic_visit(node)
        node.elts = self._flat(node.elts)
        return node

    visit_List = visit_Tuple
    visit_Set = visit_Tuple

    def visit_Call(self, node):
        self.generic_visit(node)
        node.args = self._flat(node.args)
        return node


class _Beta(ast.NodeTransformer):
    """(lambda a, b: E)(x, y) with plain arguments  ->  E[a := x, b := y]"""
    count = 0

    def visit_Call(self, node):
        self.generic_visit(node)
        f = node.func
        if isinstance(f, ast.Lambda) and not node.keywords and len(f.args.args) == len(node.args) and not f.args.vararg \
                and not f.args.kwarg and not f.args.kwonlyargs and not f.args.defaults and not f.args.posonlyargs \
                and all(isinstance(a, (ast.Name, ast.Attribute, ast.Constant)) and not any(isinstance(x, ast.Call) for x in ast.walk(a))
                        for a in node.args):
            _Beta.count += 1
            return _Subst({p.arg: a for p, a in zip(f.args.args, node.args)}, {}).visit(copy.deepcopy(f.body))
        return node


def beta_reduce(func):
    """applications of lambda expressions to plain arguments are replaced by the body (also for a local bound once to a lambda and
    only ever called).  Returns the number of applications reduced."""
    before = _Beta.count
    # a local that is bound once to a lambda and only called
    binds = {}
    for n in ast.walk(func):
        if isinstance(n, ast.Assign) and len(n.targets) == 1 and isinstance(n.targets[0], ast.Name):
            binds.setdefault(n.targets[0].id, []).append(n)
    for name, ds in binds.items():
        if len(ds) != 1 or not isinstance(ds[0].value, ast.Lambda):
            continue
        stores = [x for x in ast.walk(func) if isinstance(x, ast.Name) and x.id == name and isinstance(x.ctx, (ast.Store, ast.Del))]
        loads = [x for x in ast.walk(func) if isinstance(x, ast.Name) and x.id == name and isinstance(x.ctx, ast.Load)]
        calls = [x for x in ast.walk(func) if isinstance(x, ast.Call) and isinstance(x.func, ast.Name) and x.func.id == name]
        if len(stores) != 1 or len(loads) != len(calls) or not calls or any(a.arg == name for a in ast.walk(func) if isinstance(a, ast.arg)):
            continue
        lam = ds[0].value
        free = {x.id for x in ast.walk(lam.body) if isinstance(x, ast.Name)} - {a.arg for a in lam.args.args}
        if free & _stored_in([st for st in func.body]) - {name}:
            # a free variable of the lambda is assigned somewhere in the function: moving the body could read another value
            assigned_free = free & _stored_in(func.body)
            if assigned_free - {name}:
                continue
        for c in calls:
            c.func = copy.deepcopy(lam)
    func2 = _Beta().visit(func)
    return _Beta.count - before


def next_default_to_try(func):
    """`x = next(G, None)` followed by `if x is None: <leaves>`  ->  `try: x = next(G)` / `except StopIteration: <leaves>`; and
    `return next(G, None)` -> try: return next(G) / except StopIteration: return None.  (The sequences searched hold objects, never
    None.)  One spelling for "find it or take the miss path".  Returns the number of rewrites."""
    count = 0

    def is_next_none(v):
        return (isinstance(v, ast.Call) and isinstance(v.func, ast.Name) and v.func.id == 'next' and len(v.args) == 2 and not v.keywords
                and isinstance(v.args[1], ast.Constant) and v.args[1].value is None)

    def stop_handler(body):
        return ast.ExceptHandler(type=ast.Name(id='StopIteration', ctx=ast.Load()), name=None, body=body)

    def visit(stmts):
        nonlocal count
        j = 0
        while j < len(stmts):
            st = stmts[j]
            for fld in ('body', 'orelse', 'finalbody'):
                sub = getattr(st, fld, None)
                if isinstance(sub, list) and not isinstance(st, (ast.FunctionDef, ast.AsyncFunctionDef, ast.ClassDef)):
                    visit(sub)
            for h in getattr(st, 'handlers', []) or []:
                visit(h.body)
            if isinstance(st, ast.Return) and is_next_none(st.value):
                call = ast.Call(func=st.value.func, args=[st.value.args[0]], keywords=[])
                new = ast.Try(body=[ast.Return(value=call)], handlers=[stop_handler([ast.Return(value=ast.Constant(value=None))])],
                              orelse=[], finalbody=[])
                ast.copy_location(new, st)
                ast.fix_missing_locations(new)
                stmts[j] = new
                count += 1
            elif (isinstance(st, ast.Assign) and len(st.targets) == 1 and isinstance(st.targets[0], ast.Name) and is_next_none(st.value)
                  and j + 1 < len(stmts) and isinstance(stmts[j + 1], ast.If) and not stmts[j + 1].orelse):
                x = st.targets[0].id
                t = stmts[j + 1].test
                is_none = (isinstance(t, ast.Compare) and len(t.ops) == 1 and isinstance(t.ops[0], ast.Is) and isinstance(t.left, ast.Name)
                           and t.left.id == x and isinstance(t.comparators[0], ast.Constant) and t.comparators[0].value is None) or \
                          (isinstance(t, ast.UnaryOp) and isinstance(t.op, ast.Not) and isinstance(t.operand, ast.Name) and t.operand.id == x)
                body = stmts[j + 1].body
                if is_none and body and isinstance(body[-1], (ast.Return, ast.Raise, ast.Continue, ast.Break)):
                    call = ast.Call(func=st.value.func, args=[st.value.args[0]], keywords=[])
                    new = ast.Try(body=[ast.Assign(targets=st.targets, value=call, type_comment=None)], handlers=[stop_handler(body)],
                                  orelse=[], finalbody=[])
                    ast.copy_location(new, st)
                    ast.fix_missing_locations(new)
                    stmts[j:j + 2] = [new]
                    count += 1
            j += 1
    visit(func.body)
    return count


def conditional_callee_to_branches(func):
    """`f = A if c else B` directly followed by the single use `... f(args) ...` as the value of a return / assignment / expression
    statement  ->  `if c: ... A(args) ... else: ... B(args) ...`.  Returns the number of rewrites."""
    count = 0

    def visit(stmts):
        nonlocal count
        j = 0
        while j < len(stmts):
            st = stmts[j]
            for fld in ('body', 'orelse', 'finalbody'):
                sub = getattr(st, fld, None)
                if isinstance(sub, list) and not isinstance(st, (ast.FunctionDef, ast.AsyncFunctionDef, ast.ClassDef)):
                    visit(sub)
            for h in getattr(st, 'handlers', []) or []:
                visit(h.body)
            if (isinstance(st, ast.Assign) and len(st.targets) == 1 and isinstance(st.targets[0], ast.Name)
                    and isinstance(st.value, ast.IfExp) and all(isinstance(v, (ast.Attribute, ast.Name)) for v in (st.value.body, st.value.orelse))
                    and j + 1 < len(stmts) and isinstance(stmts[j + 1], (ast.Return, ast.Assign, ast.Expr))):
                x = st.targets[0].id
                use = stmts[j + 1]
                v = use.value
                uses = [n for n in ast.walk(func) if isinstance(n, ast.Name) and n.id == x]
                if isinstance(v, ast.Call) and isinstance(v.func, ast.Name) and v.func.id == x and len(uses) == 2 \
                        and not any(isinstance(n, ast.Name) and n.id == x for a in list(v.args) + [k.value for k in v.keywords] for n in ast.walk(a)):
                    def variant(callee):
                        u = copy.deepcopy(use)
                        u.value.func = copy.deepcopy(callee)
                        return u
                    new = ast.If(test=st.value.test, body=[variant(st.value.body)], orelse=[variant(st.value.orelse)])
                    ast.copy_location(new, st)
                    ast.fix_missing_locations(new)
                    stmts[j:j + 2] = [new]
                    count += 1
            j += 1
    visit(func.body)
    return count


def propagate_state_snapshots(func):
    """`x = <obj>.state` directly followed by an if/elif chain whose tests are the only readers of x  ->  the tests read <obj>.state
    themselves.  Each test of the chain is evaluated before any branch body has run, so the attribute still has the value the local
    was given.  Returns the number of locals replaced."""
    count = 0

    def visit(stmts):
        nonlocal count
        for j, st in enumerate(list(stmts)):
            for fld in ('body', 'orelse', 'finalbody'):
                sub = getattr(st, fld, None)
                if isinstance(sub, list) and not isinstance(st, (ast.FunctionDef, ast.AsyncFunctionDef, ast.ClassDef)):
                    visit(sub)
            for h in getattr(st, 'handlers', []) or []:
                visit(h.body)
            if not (isinstance(st, ast.Assign) and len(st.targets) == 1 and isinstance(st.targets[0], ast.Name)
                    and isinstance(st.value, ast.Attribute) and st.value.attr == 'state' and isinstance(st.value.value, ast.Name)):
                continue
            k = stmts.index(st)
            if k + 1 >= len(stmts) or not isinstance(stmts[k + 1], ast.If):
                continue
            x = st.targets[0].id
            chain = stmts[k + 1]
            tests = []
            node = chain
            while True:
                tests.append(node.test)
                if len(node.orelse) == 1 and isinstance(node.orelse[0], ast.If):
                    node = node.orelse[0]
                else:
                    break
            in_tests = {id(n) for t in tests for n in ast.walk(t) if isinstance(n, ast.Name) and n.id == x}
            all_uses = [n for n in ast.walk(func) if isinstance(n, ast.Name) and n.id == x]
            stores = [n for n in all_uses if isinstance(n.ctx, (ast.Store, ast.Del))]
            loads = [n for n in all_uses if isinstance(n.ctx, ast.Load)]
            if len(stores) != 1 or not loads or any(id(n) not in in_tests for n in loads):
                continue
            if any(isinstance(c, ast.Call) and not (isinstance(c.func, ast.Name) and c.func.id in (
                    'range', 'len', 'frozenset', 'set', 'tuple', 'list', 'isinstance', 'int', 'bool')) for t in tests for c in ast.walk(t)):
                continue            # a call in a test could change the state before a later test reads it (pure builtins cannot)
            sub = _Subst({x: st.value}, {})
            node = chain
            while True:
                node.test = sub.visit(node.test)
                if len(node.orelse) == 1 and isinstance(node.orelse[0], ast.If):
                    node = node.orelse[0]
                else:
                    break
            stmts.remove(st)
            count += 1
    visit(func.body)
    return count


def count_loops_to_while(func):
    """`for i in itertools.count(a[, c]): if C: break; BODY`  ->  `i = a; while not C: BODY; i += c` (no `continue` in BODY, i not rebound
    in BODY).  Returns the number of loops rewritten."""
    count = 0

    def visit(stmts):
        nonlocal count
        for j, st in enumerate(list(stmts)):
            for fld in ('body', 'orelse', 'finalbody'):
                sub = getattr(st, fld, None)
                if isinstance(sub, list) and not isinstance(st, (ast.FunctionDef, ast.AsyncFunctionDef, ast.ClassDef)):
                    visit(sub)
            for h in getattr(st, 'handlers', []) or []:
                visit(h.body)
            if not (isinstance(st, ast.For) and isinstance(st.target, ast.Name) and not st.orelse and isinstance(st.iter, ast.Call)
                    and src(st.iter.func) in ('itertools.count', 'count') and len(st.iter.args) <= 2 and not st.iter.keywords):
                continue
            first = st.body[0] if st.body else None
            if not (isinstance(first, ast.If) and not first.orelse and len(first.body) == 1 and isinstance(first.body[0], ast.Break)):
                continue
            rest = st.body[1:]
            i = st.target.id
            if i in _stored_in(rest) or any(isinstance(x, (ast.Continue, ast.Break)) for x in _own_statements(rest)):
                continue
            start = st.iter.args[0] if st.iter.args else ast.Constant(value=0)
            step = st.iter.args[1] if len(st.iter.args) == 2 else ast.Constant(value=1)
            if not all(isinstance(x, ast.Constant) and isinstance(x.value, int) for x in (start, step)):
                continue
            init = ast.Assign(targets=[ast.Name(id=i, ctx=ast.Store())], value=start, type_comment=None)
            inc = ast.AugAssign(target=ast.Name(id=i, ctx=ast.Store()), op=ast.Add(), value=step)
            t = first.test
            flip = {ast.Lt: ast.GtE, ast.GtE: ast.Lt, ast.Gt: ast.LtE, ast.LtE: ast.Gt}
            int_names = {n.targets[0].id for n in ast.walk(func) if isinstance(n, ast.Assign) and len(n.targets) == 1
                         and isinstance(n.targets[0], ast.Name) and isinstance(n.value, ast.Constant) and isinstance(n.value.value, int)
                         and not isinstance(n.value.value, bool)}
            if isinstance(t, ast.Compare) and len(t.ops) == 1 and type(t.ops[0]) in flip and any(
                    (isinstance(x, ast.Call) and isinstance(x.func, ast.Name) and x.func.id == 'len') or
                    (isinstance(x, ast.Constant) and isinstance(x.value, int)) or
                    (isinstance(x, ast.Name) and x.id in int_names) for x in (t.left, t.comparators[0])):
                # a length or an integer constant on one side: the comparison is over integers, its negation is the opposite order
                nt = ast.copy_location(ast.Compare(left=t.left, ops=[flip[type(t.ops[0])]()], comparators=t.comparators), t)
            else:
                nt = negate(t)
            loop = ast.While(test=nt, body=rest + [inc], orelse=[])
            for n in (init, loop, inc):
                ast.copy_location(n, st)
            ast.fix_missing_locations(init)
            ast.fix_missing_locations(loop)
            k = stmts.index(st)
            stmts[k:k + 1] = [init, loop]
            count += 1
    visit(func.body)
    return count


def unroll_literal_loops(func, limit=4):
    """`for x in (A, B)` over a literal tuple/list of at most `limit` plain elements (names, attributes, constants), whose body neither
    rebinds x nor leaves early  ->  the body once per element with x replaced.  Returns the number of loops unrolled."""
    count = 0

    def visit(stmts):
        nonlocal count
        j = 0
        while j < len(stmts):
            st = stmts[j]
            for fld in ('body', 'orelse', 'finalbody'):
                sub = getattr(st, fld, None)
                if isinstance(sub, list) and not isinstance(st, (ast.FunctionDef, ast.AsyncFunctionDef, ast.ClassDef)):
                    visit(sub)
            for h in getattr(st, 'handlers', []) or []:
                visit(h.body)
            targets = None
            if isinstance(st, ast.For) and not st.orelse and isinstance(st.iter, (ast.Tuple, ast.List)) and 1 <= len(st.iter.elts) <= limit:
                if isinstance(st.target, ast.Name) and all(
                        (isinstance(e, (ast.Name, ast.Attribute, ast.Constant)) and not any(isinstance(x, ast.Call) for x in ast.walk(e)))
                        or (isinstance(e, ast.Call) and _display(e)) for e in st.iter.elts):
                    targets = [st.target.id]
                    rows = [[e] for e in st.iter.elts]
                elif isinstance(st.target, (ast.Tuple, ast.List)) and all(isinstance(t, ast.Name) for t in st.target.elts) and all(
                        isinstance(e, (ast.Tuple, ast.List)) and len(e.elts) == len(st.target.elts) and all(_display(c) for c in e.elts)
                        for e in st.iter.elts):
                    # for a, b in ((a1, b1), (a2, b2)): a table of constants walked row by row
                    targets = [t.id for t in st.target.elts]
                    rows = [list(e.elts) for e in st.iter.elts]
            if targets is not None:
                own = list(_own_statements(st.body))
                if not (set(targets) & _stored_in(st.body)) and not any(isinstance(o, (ast.Break, ast.Continue)) for o in own) \
                        and not any(isinstance(o, (ast.FunctionDef, ast.Lambda, ast.ClassDef)) for b in st.body for o in ast.walk(b)):
                    later = {n.id for s2 in stmts[j + 1:] for n in ast.walk(s2) if isinstance(n, ast.Name) and isinstance(n.ctx, ast.Load)}
                    if not (set(targets) & later):
                        new = []
                        for row in rows:
                            for b in st.body:
                                nb = _Subst(dict(zip(targets, row)), {}).visit(copy.deepcopy(b))
                                new.append(nb)
                        for nb in new:
                            ast.fix_missing_locations(nb)
                        stmts[j:j + 1] = new
                        count += 1
                        j += len(new)
                        continue
            j += 1
    visit(func.body)
    return count


def dict_dispatch_to_chain(func):
    """`D = {k1: f1, ...}` (a local literal table of callables) used only as `D[key](args)` in statement position  ->
    `if key == k1: f1(args) elif ... else: raise KeyError(key)`.  Same calls under the same conditions; the chain is the form in which
    the per-state / per-type analyses can tell which callee runs for which key.  Returns the number of tables rewritten."""
    count = 0
    body_nodes = list(ast.walk(func))
    defs = {}
    for n in body_nodes:
        if isinstance(n, ast.Assign) and len(n.targets) == 1 and isinstance(n.targets[0], ast.Name):
            defs.setdefault(n.targets[0].id, []).append(n)
    for name, ds in defs.items():
        if len(ds) != 1 or not isinstance(ds[0].value, ast.Dict) or len(ds[0].value.keys) < 2:
            continue
        d = ds[0].value
        if any(k is None for k in d.keys) or not all(isinstance(v, (ast.Attribute, ast.Name, ast.Lambda)) for v in d.values):
            continue
        uses = [n for n in body_nodes if isinstance(n, ast.Name) and n.id == name and isinstance(n.ctx, ast.Load)]
        sites = []

        def find(stmts):
            for j, st in enumerate(stmts):
                v = getattr(st, 'value', None) if isinstance(st, (ast.Expr, ast.Assign, ast.Return)) else None
                if isinstance(v, ast.Call) and isinstance(v.func, ast.Subscript) and isinstance(v.func.value, ast.Name) \
                        and v.func.value.id == name:
                    sites.append((stmts, j, st, v))
                for fld in ('body', 'orelse', 'finalbody'):
                    sub = getattr(st, fld, None)
                    if isinstance(sub, list) and not isinstance(st, (ast.FunctionDef, ast.AsyncFunctionDef, ast.ClassDef)):
                        find(sub)
                for h in getattr(st, 'handlers', []) or []:
                    find(h.body)
        find(func.body)
        if not sites or len(sites) != len(uses):
            continue
        ok = True
        for stmts, j, st, call in sites:
            key = call.func.slice
            if not isinstance(key, (ast.Name, ast.Attribute)) or any(isinstance(x, ast.Call) for x in ast.walk(key)):
                ok = False
            if any(isinstance(x, ast.Name) and x.id == name for a in list(call.args) + [k.value for k in call.keywords] for x in ast.walk(a)):
                ok = False
        if not ok:
            continue
        for stmts, j, st, call in sites:
            key = call.func.slice
            chain = None
            for k, v in reversed(list(zip(d.keys, d.values))):
                newcall = ast.Call(func=copy.deepcopy(v), args=copy.deepcopy(call.args), keywords=copy.deepcopy(call.keywords))
                if isinstance(v, ast.Lambda) and not call.keywords and len(v.args.args) == len(call.args) and not v.args.vararg \
                        and not v.args.kwarg and not v.args.kwonlyargs and not v.args.defaults:
                    # (lambda a, b: body)(x, y) with plain names / attributes as arguments is body[a := x, b := y]
                    if all(isinstance(a, (ast.Name, ast.Attribute, ast.Constant)) for a in call.args):
                        newcall = _Subst({p.arg: a for p, a in zip(v.args.args, call.args)}, {}).visit(copy.deepcopy(v.body))
                new_st = copy.deepcopy(st)
                new_st.value = newcall
                test = ast.Compare(left=copy.deepcopy(key), ops=[ast.Eq()], comparators=[copy.deepcopy(k)])
                if chain is None:
                    other = [ast.Raise(exc=ast.Call(func=ast.Name(id='KeyError', ctx=ast.Load()), args=[copy.deepcopy(key)], keywords=[]),
                                       cause=None)]
                else:
                    other = [chain]
                chain = ast.If(test=test, body=[new_st], orelse=other)
            ast.copy_location(chain, st)
            ast.fix_missing_locations(chain)
            stmts[j] = chain
        # the table itself is not needed any more

        def drop(stmts):
            for j, st in enumerate(list(stmts)):
                if st is ds[0]:
                    stmts.remove(st)
                    if not stmts:
                        stmts.append(ast.Pass())
                    return True
                for fld in ('body', 'orelse', 'finalbody'):
                    sub = getattr(st, fld, None)
                    if isinstance(sub, list) and not isinstance(st, (ast.FunctionDef, ast.AsyncFunctionDef, ast.ClassDef)) and drop(sub):
                        return True
                for h in getattr(st, 'handlers', []) or []:
                    if drop(h.body):
                        return True
            return False
        drop(func.body)
        count += 1
    return count


_CONTAINER_METHOD_NAMES = {'get', 'items', 'keys', 'values', 'update', 'pop', 'popitem', 'setdefault', 'clear', 'copy', 'append', 'extend', 'insert',
                           'remove', 'index', 'count', 'sort', 'reverse', 'add', 'discard', 'join', 'split', 'strip', 'encode', 'decode', 'format',
                           'read', 'write', 'close', 'send', 'recv'}


# helpers of the reference tree whose rules can also read them off their callers (sa/rules/c19.py: helpers_present / lookup_of): when a
# tree keeps the name but changes what the helper takes (so it is not the reference's helper any more), it is folded into its callers
FOLDABLE_WHEN_CHANGED = {'configuration.Configuration._load_crypto_algs', 'configuration.Configuration._load_from_dict'}


class Unsupported(Exception):
    pass


# ----------------------------------------------------------------------------------------------- small predicates
def _is_simple(e):
    """an expression that can be duplicated / moved freely"""
    if isinstance(e, (ast.Name, ast.Constant)):
        return True
    if isinstance(e, ast.Attribute):
        return _is_simple(e.value)
    if isinstance(e, ast.Subscript):
        return _is_simple(e.value) and _is_simple(e.slice)
    if isinstance(e, ast.UnaryOp) and isinstance(e.operand, ast.Constant):
        return True
    if isinstance(e, ast.Tuple):
        return all(_is_simple(x) for x in e.elts)
    return False


def _may_return(node):
    if isinstance(node, (ast.FunctionDef, ast.AsyncFunctionDef, ast.ClassDef)):
        return False            # (a definition statement: its returns are its own)
    return any(isinstance(x, ast.Return) for x in walk_no_nested(node))


def _nested_defs(node):
    """the function / class definitions directly inside node's body (not those inside them)"""
    out, todo = [], list(ast.iter_child_nodes(node))
    while todo:
        n = todo.pop()
        if isinstance(n, (ast.FunctionDef, ast.AsyncFunctionDef, ast.ClassDef)):
            out.append(n)
            continue
        if isinstance(n, ast.Lambda):
            continue
        todo.extend(ast.iter_child_nodes(n))
    return out


def _always_exits(stmts):
    if not stmts:
        return False
    s = stmts[-1]
    if isinstance(s, (ast.Return, ast.Raise, ast.Continue, ast.Break)):
        return True
    if isinstance(s, ast.If):
        return bool(s.orelse) and _always_exits(s.body) and _always_exits(s.orelse)
    if isinstance(s, ast.Try) and not s.finalbody:
        return _always_exits(s.body + s.orelse) and all(_always_exits(h.body) for h in s.handlers)
    if isinstance(s, ast.With):
        return _always_exits(s.body)
    return False


def _strip_doc(body):
    if body and isinstance(body[0], ast.Expr) and isinstance(body[0].value, ast.Constant) and isinstance(
            body[0].value.value, str):
        return body[1:]
    return body


def _stored_names(node):
    out = set()
    for x in walk_no_nested(node):
        if isinstance(x, ast.Name) and isinstance(x.ctx, (ast.Store, ast.Del)):
            out.add(x.id)
        elif isinstance(x, ast.ExceptHandler) and x.name:
            out.add(x.name)
        elif isinstance(x, ast.ClassDef) and x is not node:
            out.add(x.name)
    for d in _nested_defs(node):
        out.add(d.name)
    return out


def _all_names(node):
    out = set()
    for x in ast.walk(node):
        if isinstance(x, ast.Name):
            out.add(x.id)
        elif isinstance(x, ast.arg):
            out.add(x.arg)
        elif isinstance(x, ast.ExceptHandler) and x.name:
            out.add(x.name)
    return out


_NEG = {ast.Eq: ast.NotEq, ast.NotEq: ast.Eq, ast.Is: ast.IsNot, ast.IsNot: ast.Is, ast.In: ast.NotIn, ast.NotIn: ast.In}


def negate(e):
    if isinstance(e, ast.UnaryOp) and isinstance(e.op, ast.Not):
        return e.operand
    if isinstance(e, ast.Compare) and len(e.ops) == 1 and type(e.ops[0]) in _NEG:
        return ast.copy_location(ast.Compare(left=e.left, ops=[_NEG[type(e.ops[0])]()], comparators=e.comparators), e)
    if isinstance(e, ast.Constant) and isinstance(e.value, bool):
        return ast.copy_location(ast.Constant(value=not e.value), e)
    return ast.copy_location(ast.UnaryOp(op=ast.Not(), operand=e), e)


def _is_bool(e, v):
    return isinstance(e, ast.Constant) and e.value is v


def _and(a, b):
    vals = (a.values if isinstance(a, ast.BoolOp) and isinstance(a.op, ast.And) else [a]) + (
        b.values if isinstance(b, ast.BoolOp) and isinstance(b.op, ast.And) else [b])
    return ast.copy_location(ast.BoolOp(op=ast.And(), values=vals), a)


def _or(a, b):
    vals = (a.values if isinstance(a, ast.BoolOp) and isinstance(a.op, ast.Or) else [a]) + (
        b.values if isinstance(b, ast.BoolOp) and isinstance(b.op, ast.Or) else [b])
    return ast.copy_location(ast.BoolOp(op=ast.Or(), values=vals), a)


def combine(test, a, b):
    """the value of `a if test else b` written with and/or where a branch is a boolean constant"""
    if _is_bool(a, False):
        return _and(negate(test), b)
    if _is_bool(a, True):
        return _or(test, b)
    if _is_bool(b, False):
        return _and(test, a)
    if _is_bool(b, True):
        return _or(negate(test), a)
    return ast.copy_location(ast.IfExp(test=test, body=a, orelse=b), test)


# ----------------------------------------------------------------------------------------------- substitution
class _Subst(ast.NodeTransformer):
    """replace Name loads by expressions and rename locals"""

    def __init__(self, exprs, renames):
        self.exprs, self.renames = exprs, renames

    def visit_Name(self, node):
        if node.id in self.exprs and isinstance(node.ctx, ast.Load):
            return ast.copy_location(copy.deepcopy(self.exprs[node.id]), node)
        if node.id in self.renames:
            return ast.copy_location(ast.Name(id=self.renames[node.id], ctx=node.ctx), node)
        return node

    def visit_ExceptHandler(self, node):
        self.generic_visit(node)
        if node.name in self.renames:
            node.name = self.renames[node.name]
        return node

    def visit_ClassDef(self, node):
        self.generic_visit(node)
        if node.name in self.renames:
            node.name = self.renames[node.name]
        return node

    def visit_FunctionDef(self, node):
        self.generic_visit(node)
        if node.name in self.renames:
            node.name = self.renames[node.name]
        return node


# ----------------------------------------------------------------------------------------------- return elimination
class _Elim:
    """`stmts` with every `return e` replaced by mk(e) such that nothing of the callee runs after it"""
    DUP_LIMIT = 6

    def __init__(self, mk):
        self.mk = mk
        self.duplicated = 0

    def _dup(self, rest):
        if rest:
            self.duplicated += 1
            if sum(1 for s in rest for _ in ast.walk(s) if isinstance(_, ast.stmt)) > self.DUP_LIMIT:
                raise Unsupported('continuation too large to duplicate')
        return copy.deepcopy(rest)

    def seq(self, stmts, cont):
        out = []
        for i, s in enumerate(stmts):
            if not _may_return(s):
                out.append(s)
                if isinstance(s, (ast.Raise, ast.Continue, ast.Break)):
                    return out
                continue
            tail = stmts[i + 1:]
            if isinstance(s, ast.Return):
                return out + self.mk(s.value, s)
            if isinstance(s, ast.If):
                rest = self.seq(tail, cont)
                b_ex, o_ex = _always_exits(s.body), _always_exits(s.orelse)
                body = self.seq(s.body, [] if b_ex else rest)
                orelse = self.seq(s.orelse, [] if o_ex else (self._dup(rest) if not b_ex else rest))
                if not body and orelse:
                    new = ast.copy_location(ast.If(test=negate(s.test), body=orelse, orelse=[]), s)
                else:
                    new = ast.copy_location(ast.If(test=s.test, body=body or [ast.copy_location(ast.Pass(), s)],
                                                   orelse=orelse), s)
                return out + [new]
            if isinstance(s, ast.Try):
                rest = self.seq(tail, cont)
                if s.finalbody and (rest or any(_may_return(x) for x in s.finalbody)):
                    raise Unsupported('return under try/finally with a continuation')
                body_ret = any(_may_return(x) for x in s.body)
                if body_ret and not (_always_exits(s.body) or not rest) or (body_ret and s.orelse):
                    raise Unsupported('try body both returns and falls through')
                body = self.seq(s.body, [])
                first = [True]

                def use():
                    if first[0]:
                        first[0] = False
                        return rest
                    return self._dup(rest)
                handlers = []
                orelse = s.orelse
                if not _always_exits(s.body):
                    orelse = self.seq(s.orelse, use())
                for h in s.handlers:
                    hb = self.seq(h.body, [] if _always_exits(h.body) else use())
                    handlers.append(ast.copy_location(ast.ExceptHandler(type=h.type, name=h.name,
                                                                        body=hb or [ast.copy_location(ast.Pass(), h)]), h))
                new = ast.copy_location(ast.Try(body=body, handlers=handlers, orelse=orelse, finalbody=s.finalbody), s)
                return out + [new]
            if isinstance(s, (ast.For, ast.While)):
                if s.orelse or self._has_break(s):
                    raise Unsupported('return inside a loop that has break/else')
                body = self._in_loop(s.body)
                rest = self.seq(tail, cont)
                if isinstance(s, ast.For):
                    new = ast.For(target=s.target, iter=s.iter, body=body, orelse=rest, type_comment=None)
                else:
                    new = ast.While(test=s.test, body=body, orelse=rest)
                return out + [ast.copy_location(new, s)]
            if isinstance(s, ast.With):
                rest = self.seq(tail, cont)
                body = self.seq(s.body, [] if _always_exits(s.body) else rest)
                return out + [ast.copy_location(ast.With(items=s.items, body=body, type_comment=None), s)]
            raise Unsupported('return inside %s' % type(s).__name__)
        return out + cont

    @staticmethod
    def _has_break(loop):
        todo = list(loop.body)
        while todo:
            n = todo.pop()
            if isinstance(n, ast.Break):
                return True
            if isinstance(n, (ast.For, ast.While, ast.FunctionDef, ast.ClassDef, ast.Lambda)):
                continue
            todo.extend(ast.iter_child_nodes(n))
        return False

    def _in_loop(self, stmts):
        out = []
        for s in stmts:
            if isinstance(s, ast.Return):
                out.extend(self.mk(s.value, s))
                out.append(ast.copy_location(ast.Break(), s))
                return out
            if not _may_return(s):
                out.append(s)
                continue
            if isinstance(s, ast.If):
                out.append(ast.copy_location(ast.If(test=s.test, body=self._in_loop(s.body) or [ast.Pass()],
                                                    orelse=self._in_loop(s.orelse)), s))
            elif isinstance(s, ast.Try) and not s.finalbody:
                out.append(ast.copy_location(ast.Try(
                    body=self._in_loop(s.body),
                    handlers=[ast.copy_location(ast.ExceptHandler(type=h.type, name=h.name, body=self._in_loop(h.body)), h)
                              for h in s.handlers],
                    orelse=self._in_loop(s.orelse), finalbody=[]), s))
            elif isinstance(s, ast.With):
                out.append(ast.copy_location(ast.With(items=s.items, body=self._in_loop(s.body), type_comment=None), s))
            else:
                raise Unsupported('return inside nested %s' % type(s).__name__)
        return out


def to_expr(stmts, env=None):
    """the value returned by a body made of if/return (and single-use local definitions) as one expression"""
    env = dict(env or {})
    stmts = list(stmts)
    if not stmts:
        return ast.Constant(value=None)
    s, tail = stmts[0], stmts[1:]
    if isinstance(s, ast.Return):
        v = s.value if s.value is not None else ast.Constant(value=None)
        return _Subst(env, {}).visit(copy.deepcopy(v))
    if isinstance(s, ast.If):
        test = _Subst(env, {}).visit(copy.deepcopy(s.test))
        if _always_exits(s.body):
            a = to_expr(s.body, env)
            b = to_expr(s.orelse + tail, env)
            return combine(test, a, b)
        if s.orelse and _always_exits(s.orelse):
            b = to_expr(s.orelse, env)
            a = to_expr(s.body + tail, env)
            return combine(test, a, b)
        raise Unsupported('if falls through on both sides')
    if isinstance(s, ast.Assign) and len(s.targets) == 1 and isinstance(s.targets[0], ast.Name):
        name = s.targets[0].id
        uses = sum(1 for t in tail for x in ast.walk(t) if isinstance(x, ast.Name) and x.id == name
                   and isinstance(x.ctx, ast.Load))
        stores = sum(1 for t in tail for x in ast.walk(t) if isinstance(x, ast.Name) and x.id == name
                     and isinstance(x.ctx, ast.Store))
        val = _Subst(env, {}).visit(copy.deepcopy(s.value))
        if stores == 0 and (uses <= 1 or _is_simple(val)):
            env[name] = val
            return to_expr(tail, env)
        raise Unsupported('local %s used %d times' % (name, uses))
    raise Unsupported('statement %s' % type(s).__name__)


# ----------------------------------------------------------------------------------------------- condition locals
_PURE_CALLS = {'range', 'len', 'isinstance', 'bool', 'int', 'min', 'max', 'abs', 'tuple'}


def _pure(e):
    for x in ast.walk(e):
        if isinstance(x, ast.Call) and not (isinstance(x.func, ast.Name) and x.func.id in _PURE_CALLS) and not (
                isinstance(x.func, ast.Attribute) and isinstance(x.func.value, ast.Name) and x.func.value.id == 'time'
                and x.func.attr in ('time', 'monotonic') and not x.args):
            return False
        if isinstance(x, (ast.Lambda, ast.ListComp, ast.SetComp, ast.DictComp, ast.GeneratorExp, ast.Await, ast.Yield,
                          ast.YieldFrom, ast.NamedExpr, ast.JoinedStr)):
            return False
    return True


def _mentions(e):
    out = set()
    for x in ast.walk(e):
        if isinstance(x, ast.Name):
            out.add(x.id)
        elif isinstance(x, ast.Attribute):
            t = ast.unparse(x)
            out.add(t)
    return out


def _may_write(st, mentioned):
    """the statement may change a value the expression depends on: a store to a mentioned name / attribute chain (or a
    prefix of one), or any call that is not a log call"""
    for x in ast.walk(st):
        if isinstance(x, (ast.Name, ast.Attribute)) and isinstance(getattr(x, 'ctx', None), (ast.Store, ast.Del)):
            t = ast.unparse(x)
            if any(m == t or m.startswith(t + '.') or t.startswith(m + '.') for m in mentioned):
                return True
        if isinstance(x, ast.Call):
            f = x.func
            name = f.attr if isinstance(f, ast.Attribute) else (f.id if isinstance(f, ast.Name) else '')
            if not (name.startswith('log_') or name in ('debug', 'info', 'warning', 'error') or name in _PURE_CALLS
                    or name in ('format', 'hex', 'time')):
                return True
    return False


def first_match_forms(func):
    """The ways of writing "the first element that fits, else ..." around `next(<generator expression>, default)`, put into the forms the
    code base uses:
      return next(G, D)                                   ->  try: return next(G)  / except StopIteration: return D
      v = next(G, None); if v is None: MISS; return v     ->  for x in S: [y = F] if C: return E  /  MISS        (MISS leaves the function)
    where G = (E for x in S if C), also over an inner generator (E for y in (F for x in S) if C) and with a generator bound to a local
    that is used only there.  A StopIteration cannot come out of G's own expressions (PEP 479).  Returns the number of rewrites."""
    count = 0

    def is_next(e, nargs):
        return (isinstance(e, ast.Call) and isinstance(e.func, ast.Name) and e.func.id == 'next' and not e.keywords and len(e.args) == nargs
                and isinstance(e.args[0], ast.GeneratorExp))

    def none(e):
        return isinstance(e, ast.Constant) and e.value is None

    def leaves(stmts):
        return bool(stmts) and isinstance(stmts[-1], (ast.Return, ast.Raise))

    def loops_of(g, inner):
        """nested for / if statements of generator expression g around the statements `inner` (built for the innermost position)"""
        body = inner
        for comp in reversed(g.generators):
            if comp.is_async:
                return None
            for c in reversed(comp.ifs):
                body = [ast.If(test=c, body=body, orelse=[])]
            it = comp.iter
            if isinstance(it, ast.GeneratorExp) and len(it.generators) == 1 and isinstance(comp.target, ast.Name):
                # for y in (F for x in S if C2): BODY   ->   for x in S: if C2: y = F; BODY
                bind = ast.Assign(targets=[ast.Name(id=comp.target.id, ctx=ast.Store())], value=it.elt, type_comment=None)
                body = loops_of(it, [bind] + body)
                if body is None:
                    return None
                continue
            body = [ast.For(target=comp.target, iter=it, body=body, orelse=[], type_comment=None)]
        return body

    def visit(stmts):
        nonlocal count
        j = 0
        while j < len(stmts):
            st = stmts[j]
            for fld in ('body', 'orelse', 'finalbody'):
                sub = getattr(st, fld, None)
                if isinstance(sub, list) and sub and isinstance(sub[0], ast.stmt) and not isinstance(st, (ast.FunctionDef, ast.AsyncFunctionDef, ast.ClassDef)):
                    visit(sub)
            for h in getattr(st, 'handlers', []) or []:
                visit(h.body)
            # a generator bound to a local that the next statement's next() consumes, and nothing else
            if (isinstance(st, ast.Assign) and len(st.targets) == 1 and isinstance(st.targets[0], ast.Name) and isinstance(st.value, ast.GeneratorExp)
                    and j + 1 < len(stmts)):
                nm = st.targets[0].id
                uses = [x for x in ast.walk(func) if isinstance(x, ast.Name) and x.id == nm]
                nx = stmts[j + 1]
                inside = [x for x in ast.walk(nx) if isinstance(x, ast.comprehension) and isinstance(x.iter, ast.Name) and x.iter.id == nm]
                if len(uses) == 2 and len(inside) == 1 and isinstance(nx, (ast.Assign, ast.Return)) and is_next(nx.value, 2):
                    inside[0].iter = st.value
                    del stmts[j]
                    count += 1
                    continue
            if isinstance(st, ast.Return) and st.value is not None and is_next(st.value, 2):
                g, d = st.value.args
                tr = ast.Try(body=[ast.Return(value=ast.Call(func=st.value.func, args=[g], keywords=[]))],
                             handlers=[ast.ExceptHandler(type=ast.Name(id='StopIteration', ctx=ast.Load()), name=None, body=[ast.Return(value=d)])],
                             orelse=[], finalbody=[])
                ast.copy_location(tr, st)
                ast.fix_missing_locations(tr)
                for x in ast.walk(tr):
                    if not hasattr(x, 'lineno'):
                        ast.copy_location(x, st)
                stmts[j] = tr
                count += 1
                j += 1
                continue
            if (isinstance(st, ast.Assign) and len(st.targets) == 1 and isinstance(st.targets[0], ast.Name) and is_next(st.value, 2)
                    and none(st.value.args[1]) and j + 2 < len(stmts) + 0 and isinstance(stmts[j + 1], ast.If) and not stmts[j + 1].orelse):
                v = st.targets[0].id
                test, nxt = stmts[j + 1].test, stmts[j + 1]
                is_none = isinstance(test, ast.Compare) and len(test.ops) == 1 and isinstance(test.ops[0], ast.Is) and isinstance(test.left, ast.Name) \
                    and test.left.id == v and none(test.comparators[0])
                ret = stmts[j + 2]
                if is_none and leaves(nxt.body) and isinstance(ret, ast.Return) and isinstance(ret.value, ast.Name) and ret.value.id == v \
                        and not any(isinstance(x, ast.Name) and x.id == v for b in nxt.body for x in ast.walk(b)) \
                        and sum(1 for x in ast.walk(func) if isinstance(x, ast.Name) and x.id == v) == 3:
                    g = st.value.args[0]
                    body = loops_of(g, [ast.Return(value=g.elt)])
                    if body is not None:
                        new = body + nxt.body
                        for n_ in new:
                            ast.copy_location(n_, st)
                            ast.fix_missing_locations(n_)
                            for x in ast.walk(n_):
                                if not hasattr(x, 'lineno'):
                                    ast.copy_location(x, st)
                        stmts[j:j + 3] = new
                        count += 1
                        j += len(new)
                        continue
            j += 1
    visit(func.body)
    return count


def successor_pairs_to_index(func):
    """`for x, nxt in zip_longest(S, S[1:]):` with `nxt` used only as `if nxt is not None: .. nxt ..` / `if nxt is None: .. else: .. nxt ..`
    is the loop over the positions of S the code base writes: `for i in range(0, len(S)): x = S[i]`, "there is a successor" is
    `i < len(S) - 1`, the successor is `S[i + 1]`.  (None as the fill value stands for "no successor": an element of S that is None
    would make both forms fail with AttributeError on that element.)  Returns the number of loops rewritten."""
    count = 0
    for loop in [x for x in ast.walk(func) if isinstance(x, ast.For)]:
        it, tg = loop.iter, loop.target
        if not (isinstance(it, ast.Call) and src(it.func).split('.')[-1] == 'zip_longest' and len(it.args) == 2 and not it.keywords
                and isinstance(tg, ast.Tuple) and len(tg.elts) == 2 and all(isinstance(e, ast.Name) for e in tg.elts)):
            continue
        S, T = it.args
        if not (isinstance(S, ast.Name) and isinstance(T, ast.Subscript) and isinstance(T.value, ast.Name) and T.value.id == S.id
                and isinstance(T.slice, ast.Slice) and T.slice.upper is None and T.slice.step is None
                and isinstance(T.slice.lower, ast.Constant) and T.slice.lower.value == 1):
            continue
        cur, nxt = tg.elts[0].id, tg.elts[1].id
        if any(isinstance(x, ast.Name) and x.id in (S.id, nxt) and isinstance(x.ctx, (ast.Store, ast.Del)) for b in loop.body for x in ast.walk(b)) \
                or loop.orelse:
            continue
        idx = '_i_%s' % S.id
        if any(isinstance(x, ast.Name) and x.id == idx for x in ast.walk(func)):
            continue

        def has_next():
            return ast.Compare(left=ast.Name(id=idx, ctx=ast.Load()), ops=[ast.Lt()],
                               comparators=[ast.BinOp(left=ast.Call(func=ast.Name(id='len', ctx=ast.Load()), args=[ast.Name(id=S.id, ctx=ast.Load())],
                                                                    keywords=[]), op=ast.Sub(), right=ast.Constant(value=1))])

        def the_next():
            return ast.Subscript(value=ast.Name(id=S.id, ctx=ast.Load()),
                                 slice=ast.BinOp(left=ast.Name(id=idx, ctx=ast.Load()), op=ast.Add(), right=ast.Constant(value=1)), ctx=ast.Load())

        def none_test(t):
            if isinstance(t, ast.Compare) and len(t.ops) == 1 and isinstance(t.left, ast.Name) and t.left.id == nxt \
                    and isinstance(t.comparators[0], ast.Constant) and t.comparators[0].value is None:
                if isinstance(t.ops[0], ast.IsNot):
                    return True
                if isinstance(t.ops[0], ast.Is):
                    return False
            return None
        ok = True
        plan = []        # (node, field, new test, branch in which nxt may be read)

        def scan(stmts, allowed):
            nonlocal ok
            for st in stmts:
                if isinstance(st, ast.If) and none_test(st.test) is not None:
                    pos = none_test(st.test)
                    plan.append((st, pos))
                    scan(st.body, allowed or pos)
                    scan(st.orelse, allowed or not pos)
                    continue
                subs = []
                for fld in ('body', 'orelse', 'finalbody'):
                    b = getattr(st, fld, None)
                    if isinstance(b, list) and b and isinstance(b[0], ast.stmt):
                        subs.append(b)
                for h in getattr(st, 'handlers', []) or []:
                    subs.append(h.body)
                inner = {id(x) for b in subs for y in b for x in ast.walk(y)}
                for x in ast.walk(st):
                    if id(x) in inner:
                        continue
                    if isinstance(x, ast.Name) and x.id == nxt and not allowed:
                        ok = False
                for b in subs:
                    scan(b, allowed)
        scan(loop.body, False)
        if not ok:
            continue
        for st, pos in plan:
            st.test = has_next() if pos else ast.UnaryOp(op=ast.Not(), operand=has_next())

        class R(ast.NodeTransformer):
            def visit_Name(s_, node):
                if node.id == nxt and isinstance(node.ctx, ast.Load):
                    return ast.copy_location(the_next(), node)
                return node
        loop.body = [R().visit(b) for b in loop.body]
        loop.body.insert(0, ast.Assign(targets=[ast.Name(id=cur, ctx=ast.Store())],
                                       value=ast.Subscript(value=ast.Name(id=S.id, ctx=ast.Load()), slice=ast.Name(id=idx, ctx=ast.Load()),
                                                           ctx=ast.Load()), type_comment=None))
        loop.target = ast.Name(id=idx, ctx=ast.Store())
        loop.iter = ast.Call(func=ast.Name(id='range', ctx=ast.Load()), args=[ast.Constant(value=0), ast.Call(
            func=ast.Name(id='len', ctx=ast.Load()), args=[ast.Name(id=S.id, ctx=ast.Load())], keywords=[])], keywords=[])
        ast.fix_missing_locations(loop)
        for x in ast.walk(loop):
            if not hasattr(x, 'lineno'):
                ast.copy_location(x, loop)
        count += 1
    return count


def inline_constant_set_locals(func):
    """`names = (Enum.A, Enum.B)` (one definition; a tuple / frozenset display of dotted constants - nothing local, nothing that can
    change) whose later uses in the same block are membership tests `x in names` / `x not in names`: the display is put where
    the code base writes it, in the test.  Returns the number of locals substituted."""
    count = 0
    stores = {}
    local = set()
    for x in walk_no_nested(func):
        if isinstance(x, ast.Name) and isinstance(x.ctx, (ast.Store, ast.Del)):
            stores[x.id] = stores.get(x.id, 0) + 1
            local.add(x.id)
    params = {a.arg for a in ast.walk(func.args) if isinstance(a, ast.arg)}

    def constant(e):
        if isinstance(e, ast.Constant):
            return True
        if isinstance(e, ast.Attribute):
            chain = e
            while isinstance(chain, ast.Attribute):
                chain = chain.value
            # Enum members and class constants are spelt Class.Member: a capitalised root that is not a local or a parameter
            return isinstance(chain, ast.Name) and chain.id not in local and chain.id not in params and chain.id[:1].isupper()
        return False

    def display(v):
        if isinstance(v, ast.Tuple):
            return bool(v.elts) and all(constant(x) for x in v.elts)
        if isinstance(v, ast.Call) and isinstance(v.func, ast.Name) and v.func.id in ('frozenset', 'tuple') and len(v.args) == 1 \
                and not v.keywords and isinstance(v.args[0], (ast.Tuple, ast.List, ast.Set)):
            return bool(v.args[0].elts) and all(constant(x) for x in v.args[0].elts)
        return False

    def blocks(node):
        for field in ('body', 'orelse', 'finalbody'):
            b = getattr(node, field, None)
            if isinstance(b, list) and b and isinstance(b[0], ast.stmt):
                yield b
        if isinstance(node, ast.Try):
            for h in node.handlers:
                yield h.body

    def visit(node):
        nonlocal count
        for b in blocks(node):
            i = 0
            while i < len(b):
                st = b[i]
                if (isinstance(st, ast.Assign) and len(st.targets) == 1 and isinstance(st.targets[0], ast.Name)
                        and stores.get(st.targets[0].id) == 1 and st.targets[0].id not in params and display(st.value)):
                    name = st.targets[0].id
                    total = [x for x in walk_no_nested(func) if isinstance(x, ast.Name) and x.id == name and isinstance(x.ctx, ast.Load)]
                    sites = []
                    for later in b[i + 1:]:
                        for x in ast.walk(later):
                            if isinstance(x, ast.Compare) and len(x.ops) == 1 and isinstance(x.ops[0], (ast.In, ast.NotIn)) \
                                    and isinstance(x.comparators[0], ast.Name) and x.comparators[0].id == name:
                                sites.append(x)
                    if total and len(sites) == len(total):
                        val = st.value if isinstance(st.value, ast.Tuple) else ast.Tuple(elts=list(st.value.args[0].elts), ctx=ast.Load())
                        for x in sites:
                            x.comparators[0] = ast.copy_location(copy.deepcopy(val), x.comparators[0])
                            ast.fix_missing_locations(x)
                        del b[i]
                        count += 1
                        continue
                if not isinstance(st, (ast.FunctionDef, ast.AsyncFunctionDef, ast.ClassDef)):
                    visit(st)
                i += 1
    visit(func)
    return count


def propagate_condition_locals(func):
    """`flag = <pure test>` followed by `if flag:` / `if not flag: return` ... : the test is substituted into the conditions
    (and the local disappears) when the flag has one definition, is only used in tests of the following sibling
    statements, and nothing it depends on can change in between.  Returns the number of locals substituted."""
    count = 0
    stores = {}
    for x in walk_no_nested(func):
        if isinstance(x, ast.Name) and isinstance(x.ctx, (ast.Store, ast.Del)):
            stores[x.id] = stores.get(x.id, 0) + 1
    params = {a.arg for a in func.args.posonlyargs + func.args.args + func.args.kwonlyargs}

    def blocks(node):
        for field in ('body', 'orelse', 'finalbody'):
            b = getattr(node, field, None)
            if isinstance(b, list) and b and isinstance(b[0], ast.stmt):
                yield b
        if isinstance(node, ast.Try):
            for h in node.handlers:
                yield h.body

    def visit(node):
        nonlocal count
        for b in blocks(node):
            i = 0
            while i < len(b):
                st = b[i]
                if (isinstance(st, ast.Assign) and len(st.targets) == 1 and isinstance(st.targets[0], ast.Name)
                        and stores.get(st.targets[0].id) == 1 and st.targets[0].id not in params and _pure(st.value)
                        and isinstance(st.value, (ast.Compare, ast.BoolOp, ast.UnaryOp))):
                    name = st.targets[0].id
                    total = sum(1 for x in walk_no_nested(func) if isinstance(x, ast.Name) and x.id == name
                                and isinstance(x.ctx, ast.Load))
                    mentioned = _mentions(st.value)
                    sites = []
                    ok = True
                    for later in b[i + 1:]:
                        uses_here = [x for x in ast.walk(later) if isinstance(x, ast.Name) and x.id == name
                                     and isinstance(x.ctx, ast.Load)]
                        if uses_here:
                            if not isinstance(later, ast.If):
                                ok = False
                                break
                            in_test = [x for x in ast.walk(later.test) if isinstance(x, ast.Name) and x.id == name]
                            if len(in_test) != len(uses_here):
                                ok = False
                                break
                            sites.append(later)
                            if len([1 for s_ in sites for x in ast.walk(s_.test) if isinstance(x, ast.Name) and x.id == name]) == total:
                                break
                            if not (_always_exits(later.body) and not later.orelse) and _may_write(later, mentioned):
                                ok = False
                                break
                        elif _may_write(later, mentioned):
                            ok = False
                            break
                    found = sum(1 for s_ in sites for x in ast.walk(s_.test) if isinstance(x, ast.Name) and x.id == name)
                    if ok and sites and found == total:
                        for s_ in sites:
                            s_.test = _Subst({name: st.value}, {}).visit(s_.test)
                            ast.fix_missing_locations(s_)
                        del b[i]
                        count += 1
                        continue
                i += 1
            for st in b:
                if not isinstance(st, (ast.FunctionDef, ast.AsyncFunctionDef, ast.ClassDef)):
                    visit(st)
    visit(func)
    return count


# ----------------------------------------------------------------------------------------------- named constants
def _display(e):
    """an expression that only names constants: literals, displays of such, enum members / other globals, arithmetic on them"""
    if isinstance(e, ast.Attribute) and isinstance(e.value, ast.Call) and not e.value.args and not e.value.keywords \
            and src(e.value.func).split('.')[0] in ('hashlib', 'ec', 'hashes', 'algorithms'):
        return True         # hashlib.sha256().digest_size, ec.SECP256R1().key_size and the like: a property of the algorithm
    if isinstance(e, ast.Constant):
        return True
    if isinstance(e, (ast.Tuple, ast.List, ast.Set)):
        return all(_display(x) for x in e.elts)
    if isinstance(e, ast.Dict):
        return all(k is not None and _display(k) and _display(v) for k, v in zip(e.keys, e.values))
    if isinstance(e, ast.Name):
        return True
    if isinstance(e, ast.Attribute):
        return _display(e.value)
    if isinstance(e, ast.BinOp):
        return _display(e.left) and _display(e.right)
    if isinstance(e, ast.UnaryOp):
        return _display(e.operand)
    if isinstance(e, ast.Call) and not e.keywords and isinstance(e.func, (ast.Name, ast.Attribute)) and \
            src(e.func).split('.')[-1] in ('methodcaller', 'attrgetter', 'itemgetter', 'frozenset', 'Struct') and all(_display(a) for a in e.args):
        return True         # value objects built from constants
    if isinstance(e, ast.Call) and not e.keywords and isinstance(e.func, (ast.Name, ast.Attribute)) and \
            src(e.func).split('.')[-1] in ('sizeof', 'calcsize') and len(e.args) == 1 and isinstance(e.args[0], (ast.Name, ast.Attribute, ast.Constant)):
        return True         # the size of a fixed layout
    if isinstance(e, ast.Lambda) and not e.args.defaults and not e.args.kw_defaults:
        # a closed function value: its body names only its own parameters (and what hangs off them)
        own = {a.arg for a in ast.walk(e.args) if isinstance(a, ast.arg)}
        return all(x.id in own for x in ast.walk(e.body) if isinstance(x, ast.Name))
    return False


class _Accessors(ast.NodeTransformer):
    """operator.methodcaller('m', *a)(obj) -> obj.m(*a); operator.attrgetter('a')(obj) -> obj.a"""
    count = 0
    needs_struct = False

    def visit_Call(self, node):
        self.generic_visit(node)
        f = node.func
        if isinstance(f, ast.Call) and isinstance(f.func, (ast.Name, ast.Attribute)) and not f.keywords and not node.keywords \
                and len(node.args) == 1 and f.args and isinstance(f.args[0], ast.Constant) and isinstance(f.args[0].value, str) \
                and f.args[0].value.isidentifier():
            kind = src(f.func).split('.')[-1]
            if kind == 'methodcaller':
                _Accessors.count += 1
                return ast.copy_location(ast.Call(func=ast.Attribute(value=node.args[0], attr=f.args[0].value, ctx=ast.Load()),
                                                  args=list(f.args[1:]), keywords=[]), node)
            if kind == 'attrgetter' and len(f.args) == 1:
                _Accessors.count += 1
                return ast.copy_location(ast.Attribute(value=node.args[0], attr=f.args[0].value, ctx=ast.Load()), node)
            if kind == 'attrgetter' and all(isinstance(a, ast.Constant) and isinstance(a.value, str) and a.value.isidentifier() for a in f.args) \
                    and isinstance(node.args[0], (ast.Name, ast.Attribute)):
                # attrgetter('a', 'b')(obj) -> (obj.a, obj.b)
                _Accessors.count += 1
                return ast.copy_location(ast.Tuple(elts=[ast.Attribute(value=copy.deepcopy(node.args[0]), attr=a.value, ctx=ast.Load())
                                                         for a in f.args], ctx=ast.Load()), node)
        # (A if c else B)(args) -> A(args) if c else B(args) for accessor objects (then each arm is rewritten as above)
        if isinstance(f, ast.IfExp) and not node.keywords and all(
                isinstance(x, ast.Call) and isinstance(x.func, (ast.Name, ast.Attribute)) and src(x.func).split('.')[-1] in (
                    'methodcaller', 'attrgetter', 'itemgetter') for x in (f.body, f.orelse)) \
                and all(isinstance(a, (ast.Name, ast.Attribute, ast.Constant)) for a in node.args):
            new = ast.IfExp(test=f.test, body=ast.Call(func=f.body, args=copy.deepcopy(node.args), keywords=[]),
                            orelse=ast.Call(func=f.orelse, args=copy.deepcopy(node.args), keywords=[]))
            ast.copy_location(new, node)
            ast.fix_missing_locations(new)
            return self.visit(new)
        # calcsize('<constant format>') is a number
        if isinstance(f, (ast.Name, ast.Attribute)) and src(f).split('.')[-1] == 'calcsize' and len(node.args) == 1 and not node.keywords \
                and isinstance(node.args[0], ast.Constant) and isinstance(node.args[0].value, str):
            import struct as _st
            try:
                return ast.copy_location(ast.Constant(value=_st.calcsize(node.args[0].value)), node)
            except _st.error:
                pass
        # struct.Struct(FMT).unpack_from(buf, off) -> struct.unpack_from(FMT, buf, off), likewise pack / pack_into / unpack /
        # iter_unpack; a table of compiled formats {k: Struct(F1), ..}[key].m(..) -> struct.m({k: F1, ..}[key], ..)
        if isinstance(f, ast.Attribute) and f.attr in ('pack', 'unpack', 'unpack_from', 'pack_into', 'iter_unpack') and not node.keywords:
            fmt = _struct_format(f.value)
            if fmt is not None:
                _Accessors.count += 1
                _Accessors.needs_struct = True
                return ast.copy_location(ast.Call(func=ast.Attribute(value=ast.Name(id='struct', ctx=ast.Load()), attr=f.attr, ctx=ast.Load()),
                                                  args=[fmt] + list(node.args), keywords=[]), node)
        return node

    def visit_Attribute(self, node):
        self.generic_visit(node)
        if node.attr == 'size' and isinstance(node.ctx, ast.Load):
            fmt = _struct_format(node.value)
            if fmt is not None:
                _Accessors.count += 1
                _Accessors.needs_struct = True
                if isinstance(fmt, ast.Constant) and isinstance(fmt.value, str):
                    import struct as _st
                    try:
                        return ast.copy_location(ast.Constant(value=_st.calcsize(fmt.value)), node)
                    except _st.error:
                        pass
                return ast.copy_location(ast.Call(func=ast.Attribute(value=ast.Name(id='struct', ctx=ast.Load()), attr='calcsize', ctx=ast.Load()),
                                                  args=[fmt], keywords=[]), node)
        return node


def _struct_format(e):
    """the format expression of `Struct(FMT)` or of `{k: Struct(F), ...}[key]` (as `{k: F, ...}[key]`), else None"""
    def is_struct(x):
        return isinstance(x, ast.Call) and isinstance(x.func, (ast.Name, ast.Attribute)) and src(x.func).split('.')[-1] == 'Struct' \
            and len(x.args) == 1 and not x.keywords
    if is_struct(e):
        return e.args[0]
    if isinstance(e, ast.Subscript) and isinstance(e.value, ast.Dict) and e.value.values and all(is_struct(v) for v in e.value.values) \
            and all(k is not None for k in e.value.keys):
        return ast.Subscript(value=ast.Dict(keys=list(e.value.keys), values=[v.args[0] for v in e.value.values]), slice=e.slice, ctx=ast.Load())
    return None


def eliminate_container_aliases(func, self_name, rebound_elsewhere):
    """`x = self.a = {}` (or `x = self.a`) with x bound once: x and self.a name the same object for the rest of the function as long as
    self.a is not rebound - which is required of the whole class (`rebound_elsewhere(attr)` false: no other method assigns it) and of
    this function.  The local is replaced by the attribute, so that what is stored through the alias is seen on the attribute.
    Returns the number of aliases replaced."""
    if self_name is None:
        return 0
    stores = {}
    for x in ast.walk(func):
        if isinstance(x, ast.Name) and isinstance(x.ctx, (ast.Store, ast.Del)):
            stores[x.id] = stores.get(x.id, 0) + 1
    attr_stores = {}
    for x in ast.walk(func):
        if isinstance(x, ast.Attribute) and isinstance(x.ctx, (ast.Store, ast.Del)) and isinstance(x.value, ast.Name) and x.value.id == self_name:
            attr_stores[x.attr] = attr_stores.get(x.attr, 0) + 1
    params = {a.arg for a in ast.walk(func.args) if isinstance(a, ast.arg)}
    n = 0

    def is_self_attr(e):
        return isinstance(e, ast.Attribute) and isinstance(e.value, ast.Name) and e.value.id == self_name

    def visit(stmts):
        nonlocal n
        out = []
        for st in stmts:
            done = False
            if isinstance(st, ast.Assign):
                names = [t for t in st.targets if isinstance(t, ast.Name)]
                attrs = [t for t in st.targets if is_self_attr(t)]
                # x = self.a = V
                if len(st.targets) == 2 and len(names) == 1 and len(attrs) == 1 and isinstance(st.value, (ast.Dict, ast.List, ast.Set, ast.Call)):
                    x, a = names[0].id, attrs[0].attr
                    if x not in params and stores.get(x) == 1 and attr_stores.get(a) == 1 and not rebound_elsewhere(a):
                        repl[x] = ast.Attribute(value=ast.Name(id=self_name, ctx=ast.Load()), attr=a, ctx=ast.Load())
                        st.targets = [attrs[0]]
                        n += 1
                # x = self.a   (a container held by the object; never rebound after construction)
                elif len(st.targets) == 1 and len(names) == 1 and is_self_attr(st.value):
                    x, a = names[0].id, st.value.attr
                    if x not in params and stores.get(x) == 1 and not attr_stores.get(a) and not rebound_elsewhere(a) and mutated_through(x):
                        repl[x] = copy.deepcopy(st.value)
                        n += 1
                        done = True
            if not done:
                out.append(st)
            for fld in ('body', 'orelse', 'finalbody'):
                sub = getattr(st, fld, None)
                if isinstance(sub, list) and sub and isinstance(sub[0], ast.stmt) and not isinstance(st, (ast.FunctionDef, ast.ClassDef)):
                    setattr(st, fld, visit(sub) or [ast.Pass()])
            for h in getattr(st, 'handlers', []) or []:
                h.body = visit(h.body) or [ast.Pass()]
        return out

    def mutated_through(x):
        """the alias is written through (x[k] = v, x.append(..)): only then does it matter that it is the attribute"""
        for y in ast.walk(func):
            if isinstance(y, ast.Subscript) and isinstance(y.ctx, (ast.Store, ast.Del)) and isinstance(y.value, ast.Name) and y.value.id == x:
                return True
            if isinstance(y, ast.Call) and isinstance(y.func, ast.Attribute) and isinstance(y.func.value, ast.Name) and y.func.value.id == x \
                    and y.func.attr in ('append', 'extend', 'insert', 'remove', 'pop', 'clear', 'update', 'add', 'discard', 'setdefault', 'sort'):
                return True
        return False
    repl = {}
    func.body = visit(func.body)
    if repl:
        class R(ast.NodeTransformer):
            def visit_Name(s_, node):
                if node.id in repl and isinstance(node.ctx, ast.Load):
                    return ast.copy_location(copy.deepcopy(repl[node.id]), node)
                return node
        R().visit(func)
        ast.fix_missing_locations(func)
    return n


def erase_local_wrappers(func, prog, known_classes):
    """`w = W(a, b)` where W is a new class whose constructor only keeps its arguments (`self._x = a`) and whose other methods have been
    inlined: every `w._x` is `a`, every `w[k]` is what the one-expression `__getitem__` of W says - and the wrapper object is gone when
    nothing else uses it.  (The arguments are plain names that the function does not rebind.)  Returns the number of locals erased."""
    count = 0
    stores = {}
    for x in walk_no_nested(func):
        if isinstance(x, ast.Name) and isinstance(x.ctx, (ast.Store, ast.Del)):
            stores[x.id] = stores.get(x.id, 0) + 1
    params = {a.arg for a in ast.walk(func.args) if isinstance(a, ast.arg)}
    for st in [x for x in walk_no_nested(func) if isinstance(x, ast.Assign)]:
        if not (len(st.targets) == 1 and isinstance(st.targets[0], ast.Name) and stores.get(st.targets[0].id) == 1
                and isinstance(st.value, ast.Call) and isinstance(st.value.func, ast.Name) and not st.value.keywords):
            continue
        cls = [c for c in prog.classes.values() if c.name == st.value.func.id and c.qual not in known_classes]
        if len(cls) != 1 or cls[0].bases or cls[0].ext_bases:
            continue
        c = cls[0]
        init = c.methods.get('__init__')
        if init is None or not init.self_name:
            continue
        ips = init.call_params()
        if len(ips) != len(st.value.args) or init.node.args.vararg or init.node.args.kwarg:
            continue
        body = _strip_doc(init.node.body)
        fields = {}
        ok = True
        for b in body:
            if isinstance(b, ast.Assign) and len(b.targets) == 1 and isinstance(b.targets[0], ast.Attribute) and isinstance(b.targets[0].value, ast.Name) \
                    and b.targets[0].value.id == init.self_name and isinstance(b.value, ast.Name) and b.value.id in ips:
                fields[b.targets[0].attr] = st.value.args[ips.index(b.value.id)]
            else:
                ok = False
        if not ok or not fields:
            continue
        if not all(isinstance(a, ast.Name) and (stores.get(a.id, 0) == 0 and a.id in params or stores.get(a.id, 0) <= 1) for a in st.value.args):
            continue
        # nobody else writes the fields
        if any(isinstance(x, ast.Attribute) and x.attr in fields and isinstance(x.ctx, (ast.Store, ast.Del)) and x is not None
               and not any(x is b.targets[0] for b in body if isinstance(b, ast.Assign))
               for m in prog.modules.values() for x in ast.walk(m.tree)):
            continue
        w = st.targets[0].id
        gi = c.methods.get('__getitem__')
        gi_expr = None
        if gi is not None and isinstance(gi.node, ast.FunctionDef):
            gb = _strip_doc(gi.node.body)
            if len(gb) == 1 and isinstance(gb[0], ast.Return) and gb[0].value is not None and len(gi.call_params()) == 1:
                gi_expr = (gi.self_name, gi.call_params()[0], gb[0].value)
        uses = [x for x in walk_no_nested(func) if isinstance(x, ast.Name) and x.id == w and isinstance(x.ctx, ast.Load)]
        good = []
        pm = {}
        for x in walk_no_nested(func):
            for ch in ast.iter_child_nodes(x):
                pm[id(ch)] = x
        for u in uses:
            par = pm.get(id(u))
            if isinstance(par, ast.Attribute) and par.value is u and par.attr in fields and isinstance(par.ctx, ast.Load):
                good.append(('field', par, u))
            elif isinstance(par, ast.Subscript) and par.value is u and isinstance(par.ctx, ast.Load) and gi_expr is not None \
                    and not isinstance(par.slice, ast.Slice):
                good.append(('item', par, u))
            else:
                good = None
                break
        if not good:
            continue

        class R(ast.NodeTransformer):
            def visit_Attribute(s_, node):
                s_.generic_visit(node)
                if isinstance(node.value, ast.Name) and node.value.id == w and node.attr in fields and isinstance(node.ctx, ast.Load):
                    return ast.copy_location(copy.deepcopy(fields[node.attr]), node)
                return node

            def visit_Subscript(s_, node):
                if isinstance(node.value, ast.Name) and node.value.id == w and isinstance(node.ctx, ast.Load) and gi_expr is not None:
                    me_, key_, e_ = gi_expr
                    new = _Subst({key_: s_.visit(node.slice), me_: ast.Name(id=w, ctx=ast.Load())}, {}).visit(copy.deepcopy(e_))
                    return ast.copy_location(s_.visit(new), node)
                s_.generic_visit(node)
                return node
        R().visit(func)
        # drop the construction
        for holder in ast.walk(func):
            for fld in ('body', 'orelse', 'finalbody'):
                b = getattr(holder, fld, None)
                if isinstance(b, list) and st in b:
                    b.remove(st)
                    if not b:
                        b.append(ast.copy_location(ast.Pass(), st))
        ast.fix_missing_locations(func)
        count += 1
    return count


def fold_derived_fields(prog, known_attrs):
    """A new attribute that `__init__` sets once, unconditionally, to an expression over constructor parameters that are themselves kept in
    attributes nobody reassigns (`self.group = group`; `self._curve = self._ec_groups[group]`) is, wherever another method of the class
    reads it, that expression over the kept attributes (`self._ec_groups[self.group]`).  Returns the attributes folded."""
    outside = {}       # stores outside constructors, by attribute name
    for m in prog.modules.values():
        inits = {id(x) for f in ast.walk(m.tree) if isinstance(f, ast.FunctionDef) and f.name == '__init__' for x in ast.walk(f)}
        for x in ast.walk(m.tree):
            if isinstance(x, ast.Attribute) and isinstance(x.ctx, (ast.Store, ast.Del)) and id(x) not in inits:
                outside[x.attr] = outside.get(x.attr, 0) + 1
    done = []
    for c in prog.classes.values():
        init = c.methods.get('__init__')
        if init is None or not isinstance(init.node, ast.FunctionDef) or not init.self_name:
            continue
        me = init.self_name
        params = {a.arg for a in ast.walk(init.node.args) if isinstance(a, ast.arg)} - {me}
        rebound = {x.id for x in walk_no_nested(init.node) if isinstance(x, ast.Name) and isinstance(x.ctx, (ast.Store, ast.Del))}
        kept = {}          # param -> attribute that holds it, set once in the whole program
        top = [st for st in init.node.body if isinstance(st, ast.Assign) and len(st.targets) == 1 and isinstance(st.targets[0], ast.Attribute)
               and isinstance(st.targets[0].value, ast.Name) and st.targets[0].value.id == me]
        here = {}
        for x in ast.walk(init.node):
            if isinstance(x, ast.Attribute) and isinstance(x.ctx, (ast.Store, ast.Del)):
                here[x.attr] = here.get(x.attr, 0) + 1
        # a subclass constructor that runs after this one could set the attribute again
        later = {x.attr for k in prog.classes.values() if c in k.mro()[1:] and '__init__' in k.methods
                 for x in ast.walk(k.methods['__init__'].node) if isinstance(x, ast.Attribute) and isinstance(x.ctx, (ast.Store, ast.Del))}
        stores = {a_: (1 if here.get(a_) == 1 and not outside.get(a_) and a_ not in later else 2) for a_ in here}
        for st in top:
            a = st.targets[0].attr
            if isinstance(st.value, ast.Name) and st.value.id in params and st.value.id not in rebound and stores.get(a) == 1:
                kept[st.value.id] = a
        for st in top:
            a = st.targets[0].attr
            if a in known_attrs or stores.get(a) != 1 or isinstance(st.value, ast.Name):
                continue
            ok = True
            for x in ast.walk(st.value):
                if isinstance(x, ast.Name):
                    if x.id == me or x.id in kept:
                        continue
                    if x.id in params or x.id in rebound:
                        ok = False
                elif isinstance(x, ast.Attribute) and isinstance(x.value, ast.Name) and x.value.id == me:
                    # another attribute of self: a class-level constant, or a kept parameter
                    if not (x.attr in kept.values() or (x.attr not in here and not outside.get(x.attr) and c.lookup_attr(x.attr) is not None)):
                        ok = False
                elif isinstance(x, (ast.Call, ast.Lambda, ast.Await, ast.Yield, ast.NamedExpr, ast.GeneratorExp, ast.ListComp, ast.DictComp, ast.SetComp)):
                    ok = False
            if not ok:
                continue
            readers = [f for k in prog.classes.values() if c in k.mro() for f in k.methods.values() if f is not init and isinstance(f.node, ast.FunctionDef)]
            if any(not f.self_name for f in readers if any(isinstance(x, ast.Attribute) and x.attr == a for x in ast.walk(f.node))):
                continue
            n = 0
            for f in readers:
                class R(ast.NodeTransformer):
                    def visit_Attribute(s_, node):
                        s_.generic_visit(node)
                        nonlocal n
                        if node.attr == a and isinstance(node.ctx, ast.Load) and isinstance(node.value, ast.Name) and node.value.id == f.self_name:
                            sub = {p_: ast.Attribute(value=ast.Name(id=f.self_name, ctx=ast.Load()), attr=k_, ctx=ast.Load()) for p_, k_ in kept.items()}
                            sub[me] = ast.Name(id=f.self_name, ctx=ast.Load())
                            n += 1
                            return ast.copy_location(_Subst(sub, {}).visit(copy.deepcopy(st.value)), node)
                        return node
                R().visit(f.node)
                ast.fix_missing_locations(f.node)
            # reads anywhere else (other classes, through other receivers) keep the attribute alive
            elsewhere = sum(1 for m in prog.modules.values() for x in ast.walk(m.tree) if isinstance(x, ast.Attribute) and x.attr == a
                            and isinstance(x.ctx, ast.Load))
            if n and not elsewhere:
                init.node.body.remove(st)
                if not init.node.body:
                    init.node.body.append(ast.Pass())
            if n:
                done.append(c.qual + '.' + a)
    return done


def constant_table_names(prog):
    """names of class- or module-level tables whose every definition in the program is a dict display with class / function values
    (never None), an empty display, an alias of the table of the same name (`payload_types = Base.payload_types`) or an `update` with
    such a display at class / module level - and that no function writes to"""
    good, bad = set(), set()

    def display_ok(v):
        return isinstance(v, ast.Dict) and all(k is not None for k in v.keys) and all(
            isinstance(x, (ast.Name, ast.Attribute, ast.Lambda)) and not (isinstance(x, ast.Name) and x.id == 'None') for x in v.values)
    for m in prog.modules.values():
        for holder in [m.tree] + [c for c in ast.walk(m.tree) if isinstance(c, ast.ClassDef)]:
            for st in holder.body:
                if isinstance(st, ast.Assign) and len(st.targets) == 1 and isinstance(st.targets[0], ast.Name):
                    nm = st.targets[0].id
                    if display_ok(st.value) or (isinstance(st.value, ast.Attribute) and st.value.attr == nm):
                        good.add(nm)
                    else:
                        bad.add(nm)
                elif isinstance(st, ast.Expr) and isinstance(st.value, ast.Call) and isinstance(st.value.func, ast.Attribute) \
                        and st.value.func.attr == 'update' and isinstance(st.value.func.value, ast.Name):
                    if not (len(st.value.args) == 1 and not st.value.keywords and display_ok(st.value.args[0])):
                        bad.add(st.value.func.value.id)
        for fn in [x for x in ast.walk(m.tree) if isinstance(x, (ast.FunctionDef, ast.AsyncFunctionDef, ast.Lambda))]:
            for x in ast.walk(fn):
                if isinstance(x, ast.Subscript) and isinstance(x.ctx, (ast.Store, ast.Del)) and isinstance(x.value, (ast.Attribute, ast.Name)):
                    bad.add(x.value.attr if isinstance(x.value, ast.Attribute) else x.value.id)
                elif isinstance(x, ast.Attribute) and isinstance(x.ctx, (ast.Store, ast.Del)):
                    bad.add(x.attr)
                elif isinstance(x, ast.Call) and isinstance(x.func, ast.Attribute) and x.func.attr in ('update', 'setdefault', 'pop', 'popitem', 'clear') \
                        and isinstance(x.func.value, (ast.Attribute, ast.Name)):
                    bad.add(x.func.value.attr if isinstance(x.func.value, ast.Attribute) else x.func.value.id)
    return good - bad


def table_get_to_chain(func, const_tables=()):
    """`h = {k1: f1, k2: f2}.get(key)` directly followed by `if h is not None: BODY` (h only called, as `h(args)`, inside BODY)  ->
    `if key == k1: BODY[h := f1] elif key == k2: BODY[h := f2]`: the same calls under the same conditions, with no function value
    carried in a local.  Lambdas applied to plain arguments are replaced by their bodies.  Returns the number of tables rewritten."""
    count = 0

    def visit(stmts):
        nonlocal count
        j = 0
        while j < len(stmts):
            st = stmts[j]
            for fld in ('body', 'orelse', 'finalbody'):
                sub = getattr(st, fld, None)
                if isinstance(sub, list) and sub and isinstance(sub[0], ast.stmt) and not isinstance(st, (ast.FunctionDef, ast.ClassDef)):
                    visit(sub)
            for h in getattr(st, 'handlers', []) or []:
                visit(h.body)
            nxt = stmts[j + 1] if j + 1 < len(stmts) else None
            # `h = cls.TABLE.get(k)` on a constant table of classes, then `if h is None: <leave>` or `if h is not None: BODY`
            if (isinstance(st, ast.Assign) and len(st.targets) == 1 and isinstance(st.targets[0], ast.Name)
                    and isinstance(st.value, ast.Call) and isinstance(st.value.func, ast.Attribute) and st.value.func.attr == 'get'
                    and isinstance(st.value.func.value, ast.Attribute) and isinstance(st.value.func.value.value, ast.Name)
                    and st.value.func.value.attr in const_tables and not st.value.keywords
                    and (len(st.value.args) == 1 or (len(st.value.args) == 2 and isinstance(st.value.args[1], ast.Constant)
                                                     and st.value.args[1].value is None))
                    and isinstance(nxt, ast.If) and not nxt.orelse
                    and isinstance(st.value.args[0], (ast.Name, ast.Attribute)) and not any(isinstance(x, ast.Call) for x in ast.walk(st.value.args[0]))):
                name, tab, key = st.targets[0].id, st.value.func.value, st.value.args[0]
                t = nxt.test
                is_none = isinstance(t, ast.Compare) and len(t.ops) == 1 and isinstance(t.ops[0], ast.Is) and isinstance(t.left, ast.Name) \
                    and t.left.id == name and isinstance(t.comparators[0], ast.Constant) and t.comparators[0].value is None
                not_none = isinstance(t, ast.Compare) and len(t.ops) == 1 and isinstance(t.ops[0], ast.IsNot) and isinstance(t.left, ast.Name) \
                    and t.left.id == name and isinstance(t.comparators[0], ast.Constant) and t.comparators[0].value is None
                look = ast.Assign(targets=[st.targets[0]], value=ast.Subscript(value=tab, slice=key, ctx=ast.Load()), type_comment=None)
                tr = None
                if is_none and isinstance(nxt.body[-1], (ast.Return, ast.Raise, ast.Continue, ast.Break)) \
                        and not any(isinstance(x, ast.Name) and x.id == name for b in nxt.body for x in ast.walk(b)):
                    tr = ast.Try(body=[look], handlers=[ast.ExceptHandler(type=ast.Name(id='KeyError', ctx=ast.Load()), name=None, body=nxt.body)],
                                 orelse=[], finalbody=[])
                elif not_none and not any(isinstance(x, ast.Name) and x.id == name for later in stmts[j + 2:] for x in ast.walk(later)):
                    tr = ast.Try(body=[look], handlers=[ast.ExceptHandler(type=ast.Name(id='KeyError', ctx=ast.Load()), name=None, body=[ast.Pass()])],
                                 orelse=nxt.body, finalbody=[])
                if tr is not None:
                    ast.copy_location(tr, st)
                    ast.copy_location(look, st)
                    ast.fix_missing_locations(tr)
                    stmts[j:j + 2] = [tr]
                    count += 1
                    j += 1
                    continue
            if (isinstance(st, ast.Assign) and len(st.targets) == 1 and isinstance(st.targets[0], ast.Name)
                    and isinstance(st.value, ast.Call) and isinstance(st.value.func, ast.Attribute) and st.value.func.attr == 'get'
                    and isinstance(st.value.func.value, ast.Dict) and not st.value.keywords
                    and (len(st.value.args) == 1 or (len(st.value.args) == 2 and isinstance(st.value.args[1], ast.Constant)
                                                     and st.value.args[1].value is None))
                    and isinstance(nxt, ast.If) and not nxt.orelse):
                name, d, key = st.targets[0].id, st.value.func.value, st.value.args[0]
                t = nxt.test
                guard_ok = (isinstance(t, ast.Name) and t.id == name) or (
                    isinstance(t, ast.Compare) and len(t.ops) == 1 and isinstance(t.ops[0], ast.IsNot) and isinstance(t.left, ast.Name)
                    and t.left.id == name and isinstance(t.comparators[0], ast.Constant) and t.comparators[0].value is None)
                vals_ok = d.keys and all(k is not None for k in d.keys) and all(isinstance(v, (ast.Attribute, ast.Name, ast.Lambda)) for v in d.values)
                key_ok = isinstance(key, (ast.Name, ast.Attribute)) and not any(isinstance(x, ast.Call) for x in ast.walk(key))
                uses = [x for x in ast.walk(func) if isinstance(x, ast.Name) and x.id == name]
                called = [x for b in nxt.body for x in ast.walk(b) if isinstance(x, ast.Call) and isinstance(x.func, ast.Name) and x.func.id == name]
                in_test = [x for x in ast.walk(nxt.test) if isinstance(x, ast.Name) and x.id == name]
                none_guard = (isinstance(t, ast.UnaryOp) and isinstance(t.op, ast.Not) and isinstance(t.operand, ast.Name)
                              and t.operand.id == name) or (
                    isinstance(t, ast.Compare) and len(t.ops) == 1 and isinstance(t.ops[0], ast.Is) and isinstance(t.left, ast.Name)
                    and t.left.id == name and isinstance(t.comparators[0], ast.Constant) and t.comparators[0].value is None)
                if (none_guard and key_ok and d.keys and all(k is not None for k in d.keys)
                        and all(isinstance(v, (ast.Attribute, ast.Lambda)) for v in d.values)
                        and isinstance(nxt.body[-1], (ast.Return, ast.Raise, ast.Continue, ast.Break))
                        and not any(isinstance(x, ast.Name) and x.id == name for b in nxt.body for x in ast.walk(b))):
                    # `h = TABLE.get(key)`, `if h is None: <leave>`: the miss branch of the lookup (the entries are methods and
                    # lambdas, never None) - the code base writes it `try: h = TABLE[key]` / `except KeyError: <leave>`
                    tname = '_handler_dict_%d' % getattr(st, 'lineno', count)
                    bind = ast.Assign(targets=[ast.Name(id=tname, ctx=ast.Store())], value=d, type_comment=None)
                    look = ast.Assign(targets=[st.targets[0]], value=ast.Subscript(value=ast.Name(id=tname, ctx=ast.Load()), slice=key,
                                                                                   ctx=ast.Load()), type_comment=None)
                    tr = ast.Try(body=[look], handlers=[ast.ExceptHandler(type=ast.Name(id='KeyError', ctx=ast.Load()), name=None,
                                                                          body=nxt.body)], orelse=[], finalbody=[])
                    ast.copy_location(tr, st)
                    ast.copy_location(look, st)
                    ast.copy_location(bind, st)
                    ast.fix_missing_locations(bind)
                    ast.fix_missing_locations(tr)
                    stmts[j:j + 2] = [bind, tr]
                    count += 1
                    j += 2
                    continue
                if guard_ok and vals_ok and key_ok and called and len(uses) == 1 + len(in_test) + len(called):
                    chain = None
                    for k, v in reversed(list(zip(d.keys, d.values))):
                        body = copy.deepcopy(nxt.body)

                        class R(ast.NodeTransformer):
                            def visit_Call(s_, node):
                                s_.generic_visit(node)
                                if isinstance(node.func, ast.Name) and node.func.id == name:
                                    if isinstance(v, ast.Lambda) and not node.keywords and len(v.args.args) == len(node.args) \
                                            and not v.args.vararg and not v.args.kwarg and not v.args.kwonlyargs \
                                            and all(isinstance(a, (ast.Name, ast.Attribute, ast.Constant)) for a in node.args):
                                        return _Subst({p.arg: a for p, a in zip(v.args.args, node.args)}, {}).visit(copy.deepcopy(v.body))
                                    node.func = copy.deepcopy(v)
                                return node
                        body = [R().visit(b) for b in body]
                        test = ast.Compare(left=copy.deepcopy(key), ops=[ast.Eq()], comparators=[copy.deepcopy(k)])
                        chain = ast.If(test=test, body=body, orelse=[chain] if chain is not None else [])
                    ast.copy_location(chain, st)
                    ast.fix_missing_locations(chain)
                    stmts[j:j + 2] = [chain]
                    count += 1
                    continue
            j += 1
    visit(func.body)
    return count


def inline_bound_method_locals(func):
    """`f = obj.a.m` (bound once, an attribute chain over a name) whose only use is being called - `f(x)` ... `f(y)` - is the method
    call `obj.a.m(x)` ... `obj.a.m(y)` it saves the lookups of, as long as nothing in the function can change the chain in between
    (no store to one of its attributes, no rebinding of its base).  Returns the number of locals inlined."""
    stores, loads, calls = {}, {}, {}
    for x in ast.walk(func):
        if isinstance(x, ast.Name):
            (stores if isinstance(x.ctx, (ast.Store, ast.Del)) else loads).setdefault(x.id, []).append(x)
        if isinstance(x, ast.Call) and isinstance(x.func, ast.Name):
            calls.setdefault(x.func.id, []).append(x)
    params = {a.arg for a in ast.walk(func.args) if isinstance(a, ast.arg)}
    attr_stores = {x.attr for x in ast.walk(func) if isinstance(x, ast.Attribute) and isinstance(x.ctx, (ast.Store, ast.Del))}
    n = 0

    def chain(e):
        names = []
        while isinstance(e, ast.Attribute):
            names.append(e.attr)
            e = e.value
        return (e.id, names) if isinstance(e, ast.Name) and names else None

    def visit(stmts):
        nonlocal n
        out = []
        for st in stmts:
            for fld in ('body', 'orelse', 'finalbody'):
                sub = getattr(st, fld, None)
                if isinstance(sub, list) and sub and isinstance(sub[0], ast.stmt):
                    setattr(st, fld, visit(sub) or [ast.Pass()])
            for h in getattr(st, 'handlers', []) or []:
                h.body = visit(h.body) or [ast.Pass()]
            if isinstance(st, ast.Assign) and len(st.targets) == 1 and isinstance(st.targets[0], ast.Name):
                name = st.targets[0].id
                ch = chain(st.value)
                if ch is not None and name not in params and len(stores.get(name, [])) == 1 and calls.get(name) \
                        and len(loads.get(name, [])) == len(calls[name]) and not (set(ch[1]) & attr_stores) \
                        and (ch[0] in params or not stores.get(ch[0])) and ch[0] != name:
                    for c in calls[name]:
                        c.func = copy.deepcopy(st.value)
                    n += 1
                    continue
            out.append(st)
        return out
    func.body = visit(func.body)
    if n:
        ast.fix_missing_locations(func)
    return n


def getattr_tables(func):
    """A dispatch table of method *names* read with getattr - `getattr(obj, {K: 'm', ..}[key])`, or `name = {K: 'm', ..}[key]` followed
    by `getattr(obj, name)` - is the table of bound methods the code base writes: `_t = {K: obj.m, ..}` ... `_t[key]`.  (A missing key
    raises KeyError at the same lookup; creating a bound method cannot fail for a method that exists, and a name that is not an
    attribute is reported by the rules that read the table.)  Returns the number of tables rewritten."""
    count = [0]

    def names_table(e):
        return isinstance(e, ast.Subscript) and isinstance(e.value, ast.Dict) and e.value.values and all(
            isinstance(v, ast.Constant) and isinstance(v.value, str) and v.value.isidentifier() for v in e.value.values) and all(
            k is not None for k in e.value.keys)

    def bound_table(obj, sub):
        return ast.Dict(keys=list(sub.value.keys), values=[ast.Attribute(value=copy.deepcopy(obj), attr=v.value, ctx=ast.Load())
                                                           for v in sub.value.values])
    stores = {}
    for x in ast.walk(func):
        if isinstance(x, ast.Name) and isinstance(x.ctx, (ast.Store, ast.Del)):
            stores[x.id] = stores.get(x.id, 0) + 1
    # names bound once to a table lookup and read by getattr(obj, name)
    via_name = {}
    for x in ast.walk(func):
        if isinstance(x, ast.Call) and isinstance(x.func, ast.Name) and x.func.id == 'getattr' and len(x.args) == 2 and not x.keywords \
                and isinstance(x.args[1], ast.Name) and isinstance(x.args[0], ast.Name) and stores.get(x.args[1].id) == 1:
            via_name.setdefault(x.args[1].id, []).append(x)

    def visit(stmts):
        out = []
        for st in stmts:
            for fld in ('body', 'orelse', 'finalbody'):
                sub = getattr(st, fld, None)
                if isinstance(sub, list) and sub and isinstance(sub[0], ast.stmt):
                    setattr(st, fld, visit(sub))
            for h in getattr(st, 'handlers', []) or []:
                h.body = visit(h.body)
            pre = []
            if isinstance(st, ast.Assign) and len(st.targets) == 1 and isinstance(st.targets[0], ast.Name) and st.targets[0].id in via_name \
                    and names_table(st.value):
                calls = via_name[st.targets[0].id]
                objs = {ast.dump(c.args[0]) for c in calls}
                if len(objs) == 1:
                    count[0] += 1
                    tname = '_handler_dict_%d' % count[0]
                    pre.append(ast.Assign(targets=[ast.Name(id=tname, ctx=ast.Store())], value=bound_table(calls[0].args[0], st.value), type_comment=None))
                    st.value = ast.Subscript(value=ast.Name(id=tname, ctx=ast.Load()), slice=st.value.slice, ctx=ast.Load())
                    for c in calls:
                        c.func = ast.Name(id='_same_', ctx=ast.Load())      # marker, replaced below
            else:
                own = [x for x in (ast.walk(st) if not isinstance(st, (ast.If, ast.For, ast.While, ast.Try, ast.With, ast.FunctionDef)) else [])
                       if isinstance(x, ast.Call) and isinstance(x.func, ast.Name) and x.func.id == 'getattr' and len(x.args) == 2
                       and not x.keywords and names_table(x.args[1]) and isinstance(x.args[0], ast.Name)]
                for c in own:
                    count[0] += 1
                    tname = '_handler_dict_%d' % count[0]
                    pre.append(ast.Assign(targets=[ast.Name(id=tname, ctx=ast.Store())], value=bound_table(c.args[0], c.args[1]), type_comment=None))
                    c.func = ast.Name(id='_same_', ctx=ast.Load())
                    c.args = [ast.Subscript(value=ast.Name(id=tname, ctx=ast.Load()), slice=c.args[1].slice, ctx=ast.Load())]
            for p_ in pre:
                ast.copy_location(p_, st)
                ast.fix_missing_locations(p_)
            out += pre + [st]
        return out
    func.body = visit(func.body)
    if count[0]:
        class R(ast.NodeTransformer):
            def visit_Call(s_, node):
                s_.generic_visit(node)
                if isinstance(node.func, ast.Name) and node.func.id == '_same_':
                    return node.args[-1]
                return node
        R().visit(func)
        ast.fix_missing_locations(func)
    return count[0]


def erase_new_records(prog, known, attr_reads=None):
    """A record type that is not in the reference tree (`class NetlinkMessage(NamedTuple)` introduced for a tuple that used to be
    returned bare) is erased again: `R(a, b, c)` is the tuple `(a, b, c)` and `x.field` - where x is known to hold an R - is `x[i]`.
    What holds an R is inferred without types: a construction, the result of a function all of whose returns are Rs (or lists only
    Rs are appended to), a local bound only to such values, a loop variable over such a list.  A record that has methods attached,
    is subclassed or is used through _replace / _asdict / _make / isinstance is left alone.  Returns the names erased."""
    recs = {}
    for m in prog.modules.values():
        for st in m.tree.body:
            if not (isinstance(st, ast.Assign) and len(st.targets) == 1 and isinstance(st.targets[0], ast.Name)
                    and isinstance(st.value, ast.Call) and ast.unparse(st.value.func).split('.')[-1] == 'namedtuple'
                    and len(st.value.args) == 2 and isinstance(st.value.args[0], ast.Constant)):
                continue
            name = st.targets[0].id
            fa = st.value.args[1]
            if isinstance(fa, (ast.List, ast.Tuple)) and all(isinstance(x, ast.Constant) and isinstance(x.value, str) for x in fa.elts):
                fields = [x.value for x in fa.elts]
            elif isinstance(fa, ast.Constant) and isinstance(fa.value, str):
                fields = fa.value.replace(',', ' ').split()
            else:
                continue
            defaults = []
            for kw in st.value.keywords:
                if kw.arg == 'defaults' and isinstance(kw.value, (ast.List, ast.Tuple)):
                    defaults = list(kw.value.elts)
            if '%s.%s' % (m.name, name) in known or name in recs:
                recs[name] = None if name in recs else recs.get(name)
                continue
            recs[name] = (m, fields, defaults, st)
    recs = {k: v for k, v in recs.items() if v}
    if not recs:
        return []
    trees = [m.tree for m in prog.modules.values()]
    # uses that need the record type itself
    for t in trees:
        for x in ast.walk(t):
            if isinstance(x, ast.Attribute) and isinstance(x.value, ast.Name) and x.value.id in recs and isinstance(x.ctx, ast.Store):
                recs.pop(x.value.id, None)
            if isinstance(x, ast.Attribute) and x.attr in ('_make', '_fields', '_field_defaults') and isinstance(x.value, ast.Name):
                recs.pop(x.value.id, None)
            if isinstance(x, ast.ClassDef) and any(ast.unparse(b).split('.')[-1] in recs for b in x.bases):
                for b in x.bases:
                    recs.pop(ast.unparse(b).split('.')[-1], None)
            if isinstance(x, ast.Call) and isinstance(x.func, ast.Name) and x.func.id in ('isinstance', 'type'):
                for y in ast.walk(x):
                    if isinstance(y, ast.Name) and y.id in recs:
                        recs.pop(y.id, None)
    if not recs:
        return []
    funcs = {}
    for t in trees:
        for x in ast.walk(t):
            if isinstance(x, ast.FunctionDef):
                funcs.setdefault(x.name, []).append(x)
    rtype = {}        # id(FunctionDef) -> 'R' | ('list', 'R')
    # constant tables of records: NAME = {key: R(..), ...} at module or class level, never written through
    tables, owner = {}, {}
    written = set()
    for t in trees:
        for x in ast.walk(t):
            if isinstance(x, ast.Attribute) and isinstance(x.ctx, (ast.Store, ast.Del)):
                written.add(x.attr)
            elif isinstance(x, ast.Subscript) and isinstance(x.ctx, (ast.Store, ast.Del)) and isinstance(x.value, (ast.Attribute, ast.Name)):
                written.add(x.value.attr if isinstance(x.value, ast.Attribute) else x.value.id)
            elif isinstance(x, ast.Call) and isinstance(x.func, ast.Attribute) and x.func.attr in ('update', 'setdefault', 'pop', 'clear', 'popitem') \
                    and isinstance(x.func.value, (ast.Attribute, ast.Name)):
                written.add(x.func.value.attr if isinstance(x.func.value, ast.Attribute) else x.func.value.id)
        for holder in [t] + [c for c in ast.walk(t) if isinstance(c, ast.ClassDef)]:
            cname = holder.name if isinstance(holder, ast.ClassDef) else None
            for x in holder.body:
                if isinstance(x, ast.Assign) and len(x.targets) == 1 and isinstance(x.targets[0], ast.Name) \
                        and isinstance(x.value, ast.Dict) and x.value.values and all(
                            isinstance(v, ast.Call) and isinstance(v.func, ast.Name) and v.func.id in recs for v in x.value.values) \
                        and len({v.func.id for v in x.value.values}) == 1:
                    nm = x.targets[0].id
                    if sum(1 for y in holder.body if isinstance(y, ast.Assign) and any(isinstance(z, ast.Name) and z.id == nm for z in y.targets)) == 1:
                        tables[(cname, nm)] = ('list', x.value.values[0].func.id)
            if isinstance(holder, ast.ClassDef):
                for f_ in holder.body:
                    if isinstance(f_, ast.FunctionDef):
                        owner[id(f_)] = holder.name
    tables = {k: v for k, v in tables.items() if k[1] not in written}

    def typ(e, env):
        if isinstance(e, ast.Attribute) and isinstance(e.value, ast.Name):
            k_ = (env.get('@cls') if e.value.id in ('self', 'cls') else e.value.id, e.attr)
            if k_ in tables:
                return tables[k_]
        if isinstance(e, ast.Name) and (None, e.id) in tables and e.id not in env:
            return tables[(None, e.id)]
        if isinstance(e, ast.Call):
            f = e.func
            name = f.id if isinstance(f, ast.Name) else f.attr if isinstance(f, ast.Attribute) else None
            if name in recs and (isinstance(f, ast.Name) or isinstance(f.value, ast.Name)):
                return name
            if name in funcs:
                ts = {rtype.get(id(fn)) for fn in funcs[name]}
                if len(ts) == 1:
                    return ts.pop()
            return None
        if isinstance(e, ast.Name):
            return env.get(e.id)
        if isinstance(e, ast.Subscript) and not isinstance(e.slice, ast.Slice):
            t = typ(e.value, env)
            return t[1] if isinstance(t, tuple) else None
        if isinstance(e, ast.Subscript):
            t = typ(e.value, env)
            return t if isinstance(t, tuple) else None
        return None

    def local_env(fn):
        env = {}
        own = [x for x in ast.walk(fn)]
        for _ in range(3):
            seen = {}

            def bind(name, t):
                seen.setdefault(name, set()).add(t)
            for x in own:
                if isinstance(x, ast.Assign):
                    for tg in x.targets:
                        if isinstance(tg, ast.Name):
                            if isinstance(x.value, ast.List) and not x.value.elts:
                                bind(tg.id, ('empty',))
                            else:
                                bind(tg.id, typ(x.value, env))
                        else:
                            for y in ast.walk(tg):
                                if isinstance(y, ast.Name) and isinstance(y.ctx, ast.Store):
                                    bind(y.id, None)
                elif isinstance(x, (ast.For, ast.comprehension)):
                    t = typ(x.iter, env)
                    if isinstance(x.target, ast.Name):
                        bind(x.target.id, t[1] if isinstance(t, tuple) and t[0] == 'list' else None)
                    else:
                        for y in ast.walk(x.target):
                            if isinstance(y, ast.Name):
                                bind(y.id, None)
                elif isinstance(x, (ast.AugAssign, ast.AnnAssign, ast.NamedExpr)) and isinstance(x.target, ast.Name):
                    bind(x.target.id, None)
                elif isinstance(x, ast.withitem) and x.optional_vars is not None:
                    for y in ast.walk(x.optional_vars):
                        if isinstance(y, ast.Name):
                            bind(y.id, None)
                elif isinstance(x, ast.Call) and isinstance(x.func, ast.Attribute) and x.func.attr == 'append' \
                        and isinstance(x.func.value, ast.Name) and len(x.args) == 1:
                    t = typ(x.args[0], env)
                    bind(x.func.value.id, ('list', t) if isinstance(t, str) else None)
            for a in fn.args.args + fn.args.kwonlyargs + fn.args.posonlyargs:
                bind(a.arg, None)
            new = {}
            for name, ts in seen.items():
                ts = ts - {('empty',)}
                if len(ts) == 1 and None not in ts:
                    new[name] = next(iter(ts))
            if id(fn) in owner:
                new['@cls'] = owner[id(fn)]
            if new == env:
                break
            env = new
        return env
    for _ in range(4):
        changed = False
        for fns in funcs.values():
            for fn in fns:
                env = local_env(fn)
                rets = [x for x in ast.walk(fn) if isinstance(x, ast.Return)]
                ts = {typ(r.value, env) if r.value is not None else None for r in rets}
                t = next(iter(ts)) if len(ts) == 1 else None
                if t is not None and rtype.get(id(fn)) != t:
                    rtype[id(fn)] = t
                    changed = True
        if not changed:
            break
    # a record whose values are copied with _replace / _asdict stays a record
    for fns in funcs.values():
        for fn in fns:
            env = local_env(fn)
            for x in ast.walk(fn):
                if isinstance(x, ast.Attribute) and x.attr in ('_replace', '_asdict'):
                    t = typ(x.value, env)
                    recs.pop(t if isinstance(t, str) else None, None)
    # all or nothing: a field read on a value this inference cannot type (and that is not an attribute the reference tree reads on
    # its own objects) would be left behind on a tuple - such a record stays a record (the value terms read records as they are)
    ref_attrs = {a for v in (attr_reads or {}).values() for a in v}
    for fns in funcs.values():
        for fn in fns:
            env = local_env(fn)
            for x in ast.walk(fn):
                if isinstance(x, ast.Attribute) and isinstance(x.ctx, ast.Load) and x.attr not in ref_attrs:
                    t = typ(x.value, env)
                    for name in [k for k, v in recs.items() if x.attr in v[1] and t != k]:
                        recs.pop(name, None)
    if not recs:
        return []
    # ---- rewrite
    erased = set()
    for fns in funcs.values():
        for fn in fns:
            env = local_env(fn)

            class R(ast.NodeTransformer):
                def visit_Attribute(s_, node):
                    s_.generic_visit(node)
                    if isinstance(node.ctx, ast.Load):
                        t = typ(node.value, env)
                        if isinstance(t, str) and t in recs and node.attr in recs[t][1]:
                            erased.add(t)
                            return ast.copy_location(ast.Subscript(value=node.value, slice=ast.Constant(value=recs[t][1].index(node.attr)),
                                                                   ctx=ast.Load()), node)
                    return node
            R().visit(fn)
            ast.fix_missing_locations(fn)
    ok = set(recs)

    class C(ast.NodeTransformer):
        def visit_Call(s_, node):
            s_.generic_visit(node)
            f = node.func
            name = f.id if isinstance(f, ast.Name) else f.attr if isinstance(f, ast.Attribute) and isinstance(f.value, ast.Name) else None
            if name in recs and name in ok:
                fields, defaults = recs[name][1], recs[name][2]
                vals = dict(zip(fields, node.args))
                if any(isinstance(a, ast.Starred) for a in node.args) or len(node.args) > len(fields):
                    ok.discard(name)
                    return node
                for kw in node.keywords:
                    if kw.arg is None or kw.arg not in fields or kw.arg in vals:
                        ok.discard(name)
                        return node
                    vals[kw.arg] = kw.value
                for f_, d in zip(fields[len(fields) - len(defaults):], defaults):
                    vals.setdefault(f_, copy.deepcopy(d))
                if set(vals) != set(fields):
                    ok.discard(name)
                    return node
                erased.add(name)
                return ast.copy_location(ast.Tuple(elts=[vals[f_] for f_ in fields], ctx=ast.Load()), node)
            return node
    for t in trees:
        C().visit(t)
        ast.fix_missing_locations(t)
    for name, (m, fields, defaults, st) in recs.items():
        if name in ok and not any(isinstance(x, ast.Name) and x.id == name and isinstance(x.ctx, ast.Load) for t in trees for x in ast.walk(t)):
            m.tree.body.remove(st)
    return sorted(erased)


def _unroll_constant_comprehensions(prog, known):
    """a NEW module- or class-level table computed by a comprehension over a literal sequence - `{h: h().digest_size for h in (A, B)}`,
    `{g: f(c) for g, c in _TABLE.items()}` with _TABLE a literal dict of the same scope - is written out as the display it builds
    (`{A: A().digest_size, B: B().digest_size}`), so that it can be read like any other constant table"""
    def literal_of(name, scope):
        for st in scope:
            if isinstance(st, ast.Assign) and len(st.targets) == 1 and isinstance(st.targets[0], ast.Name) and st.targets[0].id == name:
                return st.value
        return None

    def elements(it, scopes):
        """list of element expressions (tuples for .items()) of the iterable, or None"""
        if isinstance(it, (ast.Tuple, ast.List)) and all(_display(x) for x in it.elts):
            return list(it.elts)
        base, how = it, 'iter'
        if isinstance(it, ast.Call) and isinstance(it.func, ast.Attribute) and it.func.attr in ('items', 'keys', 'values') and not it.args:
            base, how = it.func.value, it.func.attr
        name = base.id if isinstance(base, ast.Name) else base.attr if isinstance(base, ast.Attribute) and isinstance(base.value, ast.Name) \
            and base.value.id in ('cls', 'self') else None
        if name is None:
            return None
        lit = None
        for sc in scopes:
            lit = literal_of(name, sc)
            if lit is not None:
                break
        if isinstance(lit, ast.Dict) and all(k is not None for k in lit.keys):
            if how in ('iter', 'keys'):
                return list(lit.keys)
            if how == 'values':
                return list(lit.values)
            return [ast.Tuple(elts=[k, v], ctx=ast.Load()) for k, v in zip(lit.keys, lit.values)]
        if isinstance(lit, (ast.Tuple, ast.List)) and how == 'iter':
            return list(lit.elts)
        return None

    def unroll(e, scopes):
        if not isinstance(e, (ast.DictComp, ast.ListComp, ast.SetComp)) or len(e.generators) != 1:
            return None
        g = e.generators[0]
        if g.ifs or g.is_async:
            return None
        els = elements(g.iter, scopes)
        if els is None or len(els) > 32:
            return None
        outs = []
        for el in els:
            if isinstance(g.target, ast.Name):
                sub = {g.target.id: el}
            elif isinstance(g.target, ast.Tuple) and isinstance(el, ast.Tuple) and len(el.elts) == len(g.target.elts) \
                    and all(isinstance(t, ast.Name) for t in g.target.elts):
                sub = {t.id: x for t, x in zip(g.target.elts, el.elts)}
            else:
                return None
            if isinstance(e, ast.DictComp):
                outs.append((_Subst(sub, {}).visit(copy.deepcopy(e.key)), _Subst(sub, {}).visit(copy.deepcopy(e.value))))
            else:
                outs.append(_Subst(sub, {}).visit(copy.deepcopy(e.elt)))
        if isinstance(e, ast.DictComp):
            return ast.Dict(keys=[k for k, _ in outs], values=[v for _, v in outs])
        return (ast.List if isinstance(e, ast.ListComp) else ast.Set)(elts=outs, ctx=ast.Load()) if isinstance(e, ast.ListComp) else ast.Set(elts=outs)
    for m in prog.modules.values():
        for st in m.tree.body:
            if isinstance(st, ast.Assign) and len(st.targets) == 1 and isinstance(st.targets[0], ast.Name) \
                    and '%s.%s' % (m.name, st.targets[0].id) not in known:
                new = unroll(st.value, [m.tree.body])
                if new is not None:
                    st.value = ast.fix_missing_locations(ast.copy_location(new, st.value))
            if isinstance(st, ast.ClassDef):
                for b in st.body:
                    if isinstance(b, ast.Assign) and len(b.targets) == 1 and isinstance(b.targets[0], ast.Name) \
                            and '%s.%s.%s' % (m.name, st.name, b.targets[0].id) not in known:
                        new = unroll(b.value, [st.body, m.tree.body])
                        if new is not None:
                            b.value = ast.fix_missing_locations(ast.copy_location(new, b.value))


def inline_context_managers(prog):
    """`with cm(args) [as v]: BODY` where cm is a generator function of the program decorated with @contextmanager whose body is
    [PRE;] try: yield [VALUE] except E: HANDLER [finally: F]   (or PRE; yield [VALUE]; POST)
    is  PRE; [v = VALUE;] try: BODY except E: HANDLER [finally: F]   (resp. PRE; BODY; POST - only when BODY cannot leave early)
    with the parameters replaced by the arguments.  Returns the number of with-statements rewritten."""
    cms = {}
    for m in prog.modules.values():
        for st in ast.walk(m.tree):
            if isinstance(st, ast.FunctionDef) and any(src(d).split('.')[-1] == 'contextmanager' for d in st.decorator_list):
                body = _strip_doc(st.body)
                ys = [x for x in ast.walk(st) if isinstance(x, (ast.Yield, ast.YieldFrom))]
                if len(ys) != 1 or not isinstance(ys[0], ast.Yield):
                    continue
                a = st.args
                if a.vararg or a.kwarg or a.kwonlyargs:
                    continue
                shape = None
                if body and isinstance(body[-1], ast.Try) and len(body[-1].body) == 1 and isinstance(body[-1].body[0], ast.Expr) \
                        and body[-1].body[0].value is ys[0] and not body[-1].orelse \
                        and not any(isinstance(x, (ast.Yield, ast.Return)) for p_ in body[:-1] for x in ast.walk(p_)):
                    shape = ('try', body[:-1], body[-1])
                else:
                    idx = [i for i, b in enumerate(body) if isinstance(b, ast.Expr) and b.value is ys[0]]
                    if len(idx) == 1 and not any(isinstance(x, ast.Return) for b in body for x in ast.walk(b)):
                        shape = ('plain', body[:idx[0]], body[idx[0] + 1:])
                if shape is not None:
                    cms[st.name] = (st, shape, ys[0])
    if not cms:
        return 0
    count = 0

    def rewrite(stmts):
        nonlocal count
        out = []
        for st in stmts:
            for fld in ('body', 'orelse', 'finalbody'):
                sub = getattr(st, fld, None)
                if isinstance(sub, list) and sub and isinstance(sub[0], ast.stmt):
                    setattr(st, fld, rewrite(sub))
            for h in getattr(st, 'handlers', []) or []:
                h.body = rewrite(h.body)
            if isinstance(st, ast.With) and len(st.items) == 1 and isinstance(st.items[0].context_expr, ast.Call):
                call = st.items[0].context_expr
                name = call.func.id if isinstance(call.func, ast.Name) else call.func.attr if isinstance(call.func, ast.Attribute) else None
                if name in cms and not call.keywords and not any(isinstance(x, ast.Starred) for x in call.args):
                    fn, shape, y = cms[name]
                    params = [p_.arg for p_ in fn.args.posonlyargs + fn.args.args]
                    if isinstance(call.func, ast.Attribute) and params and params[0] in ('self', 'cls'):
                        params = params[1:]
                    defaults = dict(zip(params[len(params) - len(fn.args.defaults):], fn.args.defaults))
                    if len(call.args) <= len(params) and all(p_ in defaults for p_ in params[len(call.args):]) \
                            and all(isinstance(x, (ast.Constant, ast.Name, ast.Attribute, ast.JoinedStr, ast.Lambda))
                                    or (isinstance(x, ast.Tuple) and all(isinstance(y, (ast.Name, ast.Attribute)) for y in x.elts))
                                    for x in call.args):
                        sub = dict(zip(params, call.args))
                        for p_ in params[len(call.args):]:
                            sub[p_] = defaults[p_]
                        S = lambda nodes: [_Subst(sub, {}).visit(copy.deepcopy(n)) for n in nodes]      # noqa: E731
                        pre = S(shape[1])
                        bind_v = []
                        if st.items[0].optional_vars is not None:
                            if y.value is None:
                                continue
                            bind_v = [ast.Assign(targets=[st.items[0].optional_vars], value=_Subst(sub, {}).visit(copy.deepcopy(y.value)), type_comment=None)]
                        if shape[0] == 'try':
                            t = shape[2]
                            new = ast.Try(body=st.body, handlers=S(t.handlers), orelse=[], finalbody=S(t.finalbody))
                            repl = pre + bind_v + [new]
                        else:
                            if any(isinstance(x, (ast.Return, ast.Break, ast.Continue, ast.Raise)) for b in st.body for x in ast.walk(b)) and shape[2]:
                                out.append(st)
                                continue
                            repl = pre + bind_v + st.body + S(shape[2])
                        for r_ in repl:
                            ast.copy_location(r_, st)
                            ast.fix_missing_locations(r_)
                        out += repl
                        count += 1
                        continue
            out.append(st)
        return out
    for m in prog.modules.values():
        for fn in [x for x in ast.walk(m.tree) if isinstance(x, (ast.FunctionDef, ast.AsyncFunctionDef))]:
            fn.body = rewrite(fn.body)
    if count:
        # a context manager whose every use was written out is not part of the program any more (if it is not in the reference)
        tbl = known_table().get('functions', {})
        refs = set()
        for m in prog.modules.values():
            for x in ast.walk(m.tree):
                if isinstance(x, ast.Attribute):
                    refs.add(x.attr)
                elif isinstance(x, ast.Name) and isinstance(x.ctx, ast.Load):
                    refs.add(x.id)
        for name, (fn, _, _) in cms.items():
            if name in refs:
                continue
            for m in prog.modules.values():
                for holder in [m.tree] + [c for c in ast.walk(m.tree) if isinstance(c, ast.ClassDef)]:
                    if fn in holder.body:
                        q = m.name + '.' + (holder.name + '.' if isinstance(holder, ast.ClassDef) else '') + name
                        if q in tbl:
                            continue
                        holder.body.remove(fn)
                        if not holder.body:
                            holder.body.append(ast.Pass())
    return count


def inline_prelude_decorators(prog):
    """A decorator of the program that only runs some statements before handing over to the method it decorates,

        def D(p, *ps):
            def decorator(method):
                @wraps(method)
                def wrapper(self, *args, **kwargs):      (or the method's own parameter list)
                    PRE
                    return method(self, *args, **kwargs)
                return wrapper
            return decorator

    is those statements at the top of every `@D(args)` method, with the decorator's parameters replaced by its arguments; comprehensions
    over the (now literal) argument tuple are written out and `Enum['NAME']` is `Enum.NAME`.  Returns the decorated functions rewritten."""
    decos = {}
    tblf = known_table().get('functions', {})
    for m in prog.modules.values():
        for st in m.tree.body:
            if not isinstance(st, ast.FunctionDef) or st.decorator_list or (m.name + '.' + st.name) in tblf:
                continue
            body = _strip_doc(st.body)
            if not (len(body) == 2 and isinstance(body[0], ast.FunctionDef) and isinstance(body[1], ast.Return)
                    and isinstance(body[1].value, ast.Name) and body[1].value.id == body[0].name):
                continue
            deco = body[0]
            if len(deco.args.args) != 1 or deco.args.vararg or deco.args.kwarg:
                continue
            mname = deco.args.args[0].arg
            db = _strip_doc(deco.body)
            if not (len(db) == 2 and isinstance(db[0], ast.FunctionDef) and isinstance(db[1], ast.Return)
                    and isinstance(db[1].value, ast.Name) and db[1].value.id == db[0].name):
                continue
            wrap = db[0]
            if any(src(d.func if isinstance(d, ast.Call) else d).split('.')[-1] != 'wraps' for d in wrap.decorator_list):
                continue
            wb = _strip_doc(wrap.body)
            if not wb or not wrap.args.args:
                continue
            last = wb[-1]
            call = last.value if isinstance(last, (ast.Return, ast.Expr)) else None
            if not (isinstance(call, ast.Call) and isinstance(call.func, ast.Name) and call.func.id == mname):
                continue
            # the hand-over passes the wrapper's own parameters on, unchanged and in order
            wparams = [a.arg for a in wrap.args.posonlyargs + wrap.args.args]
            passed = []
            for a in call.args:
                passed.append(a.value.id if isinstance(a, ast.Starred) and isinstance(a.value, ast.Name) else a.id if isinstance(a, ast.Name) else None)
            for k in call.keywords:
                passed.append(k.value.id if k.arg is None and isinstance(k.value, ast.Name) else None)
            expect = wparams + ([wrap.args.vararg.arg] if wrap.args.vararg else []) + ([wrap.args.kwarg.arg] if wrap.args.kwarg else [])
            if passed != expect or wrap.args.kwonlyargs:
                continue
            pre = wb[:-1]
            forbidden = set(expect[1:]) | {mname, wrap.name, deco.name}
            if any(isinstance(x, ast.Name) and x.id in forbidden for b in pre for x in ast.walk(b)) \
                    or any(isinstance(x, (ast.Return, ast.Yield, ast.YieldFrom, ast.Await, ast.FunctionDef, ast.Lambda)) for b in pre for x in ast.walk(b)):
                continue
            decos[st.name] = (st, wparams[0], pre, isinstance(last, ast.Expr))
    if not decos:
        return []
    done = []
    for m in prog.modules.values():
        for fn in [x for x in ast.walk(m.tree) if isinstance(x, ast.FunctionDef)]:
            keep = []
            for d in fn.decorator_list:
                name = src(d.func).split('.')[-1] if isinstance(d, ast.Call) else None
                if name not in decos or d.keywords or any(isinstance(a, ast.Starred) for a in d.args) or not fn.args.args:
                    keep.append(d)
                    continue
                st, wself, pre, drops_result = decos[name]
                if drops_result and any(isinstance(x, ast.Return) and x.value is not None for x in walk_no_nested(fn)):
                    keep.append(d)
                    continue
                params = [a.arg for a in st.args.posonlyargs + st.args.args]
                if len(d.args) < len(params) or (len(d.args) > len(params) and not st.args.vararg) or st.args.kwarg or st.args.kwonlyargs:
                    keep.append(d)
                    continue
                sub = dict(zip(params, d.args))
                if st.args.vararg:
                    sub[st.args.vararg.arg] = ast.Tuple(elts=list(d.args[len(params):]), ctx=ast.Load())
                sub[wself] = ast.Name(id=fn.args.args[0].arg, ctx=ast.Load())
                new = [_LiteralComprehensions().visit(_Subst(sub, {}).visit(copy.deepcopy(b))) for b in pre]
                new = [_EnumByName(prog, m).visit(b) for b in new]
                for b in new:
                    ast.copy_location(b, fn.body[0])
                    ast.fix_missing_locations(b)
                    for x in ast.walk(b):
                        if hasattr(x, 'lineno'):
                            x.lineno = fn.body[0].lineno
                k = 1 if fn.body and isinstance(fn.body[0], ast.Expr) and isinstance(fn.body[0].value, ast.Constant) else 0
                fn.body[k:k] = new
                done.append(fn.name)
            fn.decorator_list = keep
    if done:
        used = {src(d.func).split('.')[-1] for m in prog.modules.values() for fn in ast.walk(m.tree) if isinstance(fn, ast.FunctionDef)
                for d in fn.decorator_list if isinstance(d, ast.Call)}
        for name, (st, _, _, _) in decos.items():
            if name not in used:
                for m in prog.modules.values():
                    if st in m.tree.body:
                        m.tree.body.remove(st)
    return done


class _LiteralComprehensions(ast.NodeTransformer):
    """[f(x) for x in ('a', 'b')] -> [f('a'), f('b')] for comprehensions over a literal tuple of constants"""

    def visit_ListComp(self, node):
        self.generic_visit(node)
        if len(node.generators) == 1 and not node.generators[0].ifs and isinstance(node.generators[0].target, ast.Name) \
                and isinstance(node.generators[0].iter, (ast.Tuple, ast.List)) and all(isinstance(e, ast.Constant) for e in node.generators[0].iter.elts):
            v = node.generators[0].target.id
            return ast.copy_location(ast.List(elts=[_Subst({v: e}, {}).visit(copy.deepcopy(node.elt)) for e in node.generators[0].iter.elts],
                                              ctx=ast.Load()), node)
        return node

    visit_GeneratorExp = visit_ListComp


class _EnumByName(ast.NodeTransformer):
    """Enum['NAME'] -> Enum.NAME"""

    def __init__(self, prog, module):
        self.prog, self.module = prog, module

    def visit_Subscript(self, node):
        self.generic_visit(node)
        if isinstance(node.slice, ast.Constant) and isinstance(node.slice.value, str) and node.slice.value.isidentifier() and attr_chain(node.value):
            try:
                c = self.prog.resolve_class_expr(node.value, self.module, None)
            except Exception:
                c = None
            if c is not None and self.prog.is_enum(c) and node.slice.value in c.attrs:
                return ast.copy_location(ast.Attribute(value=node.value, attr=node.slice.value, ctx=node.ctx), node)
        return node


def fold_generated_tables(prog):
    """Module-level tables that are *computed* when the module is loaded - a dict comprehension over `range(..)` / `zip(..)` / a literal
    sequence, followed by `TABLE.update({..})` or `TABLE[k] = v` statements - are written out as the literal display they build, entry
    by entry: `str(14)` is '14', `f'modp{2048}'` is 'modp2048', `TABLE['14']` is the entry built before, `Transform.DhId(14)` is the member
    with that value.  What cannot be folded is left as it is (the rules that read the table then say so).  Returns the names folded."""
    done = []

    def enum_member(func, value, module):
        chain = ast.unparse(func).split('.')
        for c in prog.classes.values():
            if c.qual.split('.')[-len(chain):] == chain or c.qual.endswith('.' + '.'.join(chain)):
                try:
                    members = prog.enum_members(c.qual)
                except Exception:
                    continue
                names = [k for k, v in members.items() if v == value]
                if len(names) == 1:
                    return ast.Attribute(value=copy.deepcopy(func), attr=names[0], ctx=ast.Load())
        return None

    def fold(e, tables, module):
        class F(ast.NodeTransformer):
            def visit_Call(s_, node):
                s_.generic_visit(node)
                if isinstance(node.func, ast.Name) and node.func.id in exprfuncs and not node.keywords \
                        and not any(isinstance(a, ast.Starred) for a in node.args):
                    fn = exprfuncs[node.func.id]
                    ps_ = [a.arg for a in fn.args.args]
                    if len(ps_) == len(node.args):
                        body_ = [b for b in fn.body if not (isinstance(b, ast.Expr) and isinstance(b.value, ast.Constant))]
                        return ast.copy_location(_Subst(dict(zip(ps_, node.args)), {}).visit(copy.deepcopy(body_[0].value)), node)
                if isinstance(node.func, ast.Name) and node.func.id == 'str' and len(node.args) == 1 and not node.keywords \
                        and isinstance(node.args[0], ast.Constant) and isinstance(node.args[0].value, int):
                    return ast.copy_location(ast.Constant(value=str(node.args[0].value)), node)
                if isinstance(node.func, ast.Attribute) and len(node.args) == 1 and not node.keywords and isinstance(node.args[0], ast.Constant) \
                        and isinstance(node.args[0].value, int) and not isinstance(node.args[0].value, bool):
                    m_ = enum_member(node.func, node.args[0].value, module)
                    if m_ is not None:
                        return ast.copy_location(m_, node)
                return node

            def visit_JoinedStr(s_, node):
                s_.generic_visit(node)
                if all(isinstance(v, ast.Constant) or (isinstance(v, ast.FormattedValue) and isinstance(v.value, ast.Constant)
                                                      and v.conversion == -1 and v.format_spec is None) for v in node.values):
                    return ast.copy_location(ast.Constant(value=''.join(str(v.value if isinstance(v, ast.Constant) else v.value.value) for v in node.values)), node)
                return node

            def visit_Subscript(s_, node):
                s_.generic_visit(node)
                if isinstance(node.value, ast.Name) and node.value.id in tables and isinstance(node.slice, ast.Constant) and isinstance(node.ctx, ast.Load):
                    d = tables[node.value.id]
                    for k, v in zip(d.keys, d.values):
                        if isinstance(k, ast.Constant) and k.value == node.slice.value:
                            return copy.deepcopy(v)
                return node
        return F().visit(e)

    seqs = {}          # module-level names bound once to a literal sequence (new constants): name -> Tuple / List
    exprfuncs = {}     # new module-level functions that are one expression of their parameters: `def f(a, b): return EXPR`
    tblf_ = known_table().get('functions', {})
    for m_ in prog.modules.values():
        counts = {}
        for st_ in m_.tree.body:
            if isinstance(st_, ast.Assign):
                for t_ in st_.targets:
                    for y_ in ast.walk(t_):
                        if isinstance(y_, ast.Name):
                            counts[y_.id] = counts.get(y_.id, 0) + 1
        for st_ in m_.tree.body:
            if isinstance(st_, ast.Assign) and len(st_.targets) == 1 and isinstance(st_.targets[0], ast.Name) and counts.get(st_.targets[0].id) == 1 \
                    and isinstance(st_.value, (ast.Tuple, ast.List)) and st_.value.elts and all(
                        isinstance(e_, (ast.Constant, ast.Attribute, ast.Tuple)) and not any(isinstance(z_, (ast.Call, ast.Name)) and not (
                            isinstance(z_, ast.Name) and z_.id[:1].isupper()) for z_ in ast.walk(e_)) for e_ in st_.value.elts):
                seqs[st_.targets[0].id] = st_.value
            if isinstance(st_, ast.FunctionDef) and not st_.decorator_list and (m_.name + '.' + st_.name) not in tblf_ \
                    and not (st_.args.vararg or st_.args.kwarg or st_.args.kwonlyargs or st_.args.defaults or st_.args.posonlyargs):
                body_ = [b for b in st_.body if not (isinstance(b, ast.Expr) and isinstance(b.value, ast.Constant))]
                if len(body_) == 1 and isinstance(body_[0], ast.Return) and body_[0].value is not None:
                    ps_ = {a.arg for a in st_.args.args}
                    free_ok = all(not isinstance(z_, ast.Name) or z_.id in ps_ or z_.id[:1].isupper() for z_ in ast.walk(body_[0].value))
                    if free_ok and not any(isinstance(z_, (ast.Lambda, ast.Await, ast.Yield, ast.NamedExpr)) for z_ in ast.walk(body_[0].value)):
                        exprfuncs[st_.name] = st_

    def elements(it):
        if isinstance(it, ast.Name) and it.id in seqs:
            it = seqs[it.id]
        if isinstance(it, (ast.Tuple, ast.List)):
            return list(it.elts)
        if isinstance(it, ast.Call) and isinstance(it.func, ast.Name) and it.func.id == 'range' and not it.keywords and 1 <= len(it.args) <= 3:
            try:
                vals = [prog.const_eval(a, None) if not isinstance(a, ast.Constant) else a.value for a in it.args]
            except Exception:
                return None
            if all(isinstance(v, int) for v in vals) and len(range(*vals)) <= 64:
                return [ast.Constant(value=v) for v in range(*vals)]
            return None
        if isinstance(it, ast.Call) and isinstance(it.func, ast.Name) and it.func.id == 'zip' and not it.keywords and it.args:
            cols = [elements(a) for a in it.args]
            if any(c is None for c in cols):
                return None
            return [ast.Tuple(elts=list(row), ctx=ast.Load()) for row in zip(*cols)]
        if isinstance(it, ast.Call) and isinstance(it.func, ast.Name) and it.func.id == 'enumerate' and len(it.args) == 1 and not it.keywords:
            col = elements(it.args[0])
            return None if col is None else [ast.Tuple(elts=[ast.Constant(value=i), x], ctx=ast.Load()) for i, x in enumerate(col)]
        return None

    def bind(target, el):
        if isinstance(target, ast.Name):
            return {target.id: el}
        if isinstance(target, ast.Tuple) and isinstance(el, ast.Tuple) and len(target.elts) == len(el.elts):
            out = {}
            for t, x in zip(target.elts, el.elts):
                b = bind(t, x)
                if b is None:
                    return None
                out.update(b)
            return out
        return None

    def as_display(e, tables, module):
        """ast.Dict with constant keys for a dict display / comprehension, else None"""
        if isinstance(e, ast.Dict) and all(k is not None for k in e.keys):
            d = ast.Dict(keys=[fold(copy.deepcopy(k), tables, module) for k in e.keys], values=[fold(copy.deepcopy(v), tables, module) for v in e.values])
        elif isinstance(e, ast.Dict):
            # {'a': x, **{k: f(k) for k in ..}, **OTHER}: the entries in order, later ones replacing earlier ones of the same key
            d = ast.Dict(keys=[], values=[])
            for k, v in zip(e.keys, e.values):
                if k is None:
                    more = as_display(v, tables, module)
                    if more is None and isinstance(v, ast.Name) and v.id in tables:
                        more = tables[v.id]
                    if more is None or not all(isinstance(k_, ast.Constant) for k_ in more.keys):
                        return None
                    merge(d, copy.deepcopy(more))
                else:
                    merge(d, ast.Dict(keys=[fold(copy.deepcopy(k), tables, module)], values=[fold(copy.deepcopy(v), tables, module)]))
                    if not isinstance(d.keys[-1], ast.Constant):
                        return None
        elif isinstance(e, ast.DictComp) and len(e.generators) == 1 and not e.generators[0].ifs:
            els = elements(e.generators[0].iter)
            if els is None:
                return None
            keys, vals = [], []
            for el in els:
                b = bind(e.generators[0].target, el)
                if b is None:
                    return None
                keys.append(fold(_Subst(b, {}).visit(copy.deepcopy(e.key)), tables, module))
                vals.append(fold(_Subst(b, {}).visit(copy.deepcopy(e.value)), tables, module))
            d = ast.Dict(keys=keys, values=vals)
        else:
            return None
        return d if all(isinstance(k, ast.Constant) for k in d.keys) else None

    def merge(d, more):
        for k, v in zip(more.keys, more.values):
            for i, k0 in enumerate(d.keys):
                if k0.value == k.value:
                    d.values[i] = v
                    break
            else:
                d.keys.append(k)
                d.values.append(v)
    def class_attr_value(cname, attr):
        for c in prog.classes.values():
            if c.name == cname:
                for k in c.mro():
                    for b in k.node.body:
                        if isinstance(b, ast.Assign) and len(b.targets) == 1 and isinstance(b.targets[0], ast.Name) and b.targets[0].id == attr \
                                and isinstance(b.value, (ast.Attribute, ast.Constant, ast.Name)):
                            return b.value
        return None
    # class-level tables computed from a literal sequence of classes / constants: {K.type: K for K in (A, B, ..)}
    for c in prog.classes.values():
        for b in c.node.body:
            if isinstance(b, ast.Assign) and len(b.targets) == 1 and isinstance(b.targets[0], ast.Name) and isinstance(b.value, ast.DictComp) \
                    and len(b.value.generators) == 1 and not b.value.generators[0].ifs:
                els = elements(b.value.generators[0].iter)
                if els is None:
                    continue
                keys, vals, ok = [], [], True
                for el in els:
                    bd = bind(b.value.generators[0].target, el)
                    if bd is None:
                        ok = False
                        break
                    k = _Subst(bd, {}).visit(copy.deepcopy(b.value.key))
                    v = _Subst(bd, {}).visit(copy.deepcopy(b.value.value))
                    # Class.attr -> what the class body assigns to attr (an enum member, a constant)
                    if isinstance(k, ast.Attribute) and isinstance(k.value, ast.Name):
                        cv = class_attr_value(k.value.id, k.attr)
                        if cv is not None:
                            k = copy.deepcopy(cv)
                    keys.append(k)
                    vals.append(v)
                if ok and keys:
                    b.value = ast.fix_missing_locations(ast.copy_location(ast.Dict(keys=keys, values=vals), b.value))
                    done.append('%s.%s' % (c.qual, b.targets[0].id))
    for m in prog.modules.values():
        tables, generated = {}, set()
        body = []
        for st in m.tree.body:
            if isinstance(st, ast.Assign) and len(st.targets) == 1 and isinstance(st.targets[0], ast.Name) and isinstance(st.value, (ast.Dict, ast.DictComp)):
                d = as_display(st.value, tables, m)
                if d is not None:
                    name = st.targets[0].id
                    if isinstance(st.value, ast.DictComp) or any(k is None for k in st.value.keys):
                        generated.add(name)
                        st.value = ast.fix_missing_locations(ast.copy_location(d, st.value))
                        tables[name] = st.value
                    else:
                        tables[name] = d if not all(isinstance(k, ast.Constant) for k in st.value.keys) else st.value
                body.append(st)
                continue
            if isinstance(st, ast.Expr) and isinstance(st.value, ast.Call) and isinstance(st.value.func, ast.Attribute) and st.value.func.attr == 'update' \
                    and isinstance(st.value.func.value, ast.Name) and st.value.func.value.id in tables and len(st.value.args) == 1 and not st.value.keywords:
                name = st.value.func.value.id
                more = as_display(st.value.args[0], tables, m)
                if more is not None:
                    merge(tables[name], more)
                    generated.add(name)
                    ast.fix_missing_locations(tables[name])
                    continue
            if isinstance(st, ast.Assign) and len(st.targets) == 1 and isinstance(st.targets[0], ast.Subscript) and isinstance(st.targets[0].value, ast.Name) \
                    and st.targets[0].value.id in tables:
                k = fold(copy.deepcopy(st.targets[0].slice), tables, m)
                if isinstance(k, ast.Constant):
                    merge(tables[st.targets[0].value.id], ast.Dict(keys=[k], values=[fold(copy.deepcopy(st.value), tables, m)]))
                    generated.add(st.targets[0].value.id)
                    ast.fix_missing_locations(tables[st.targets[0].value.id])
                    continue
            # anything else that names a table ends what can be said about it
            for x in ast.walk(st) if not isinstance(st, (ast.FunctionDef, ast.ClassDef)) else []:
                if isinstance(x, ast.Name) and x.id in tables and isinstance(x.ctx, ast.Store):
                    tables.pop(x.id, None)
            body.append(st)
        if generated:
            m.tree.body = body
            done += ['%s.%s' % (m.name, n) for n in sorted(generated)]
    return done


def _written_names(prog):
    """names / attribute names through which something is written at run time: `X[k] = v`, `obj.X[k] = v`, `X.append(..)`, `obj.X.update(..)`,
    `X += ..` - a table that is written is state, not a constant"""
    out = set()
    muts = {'append', 'extend', 'insert', 'remove', 'pop', 'clear', 'update', 'add', 'discard', 'setdefault', 'popitem', 'sort', 'reverse'}

    def name_of(e):
        return e.id if isinstance(e, ast.Name) else e.attr if isinstance(e, ast.Attribute) else None
    for m in prog.modules.values():
        for x in ast.walk(m.tree):
            if isinstance(x, ast.Subscript) and isinstance(x.ctx, (ast.Store, ast.Del)):
                out.add(name_of(x.value))
            elif isinstance(x, ast.Call) and isinstance(x.func, ast.Attribute) and x.func.attr in muts:
                out.add(name_of(x.func.value))
            elif isinstance(x, ast.AugAssign):
                out.add(name_of(x.target))
    out.discard(None)
    return out


def _mutable_escapes(prog, name):
    """some use of the module-level name hands the object itself on: `return X`, `y = X`, `f(X)`, `obj.a = X`, `[.., X]` - anything but
    reading through it (`X[k]`, `k in X`, `for _ in X`, `len(X)`, `X.get(..)`, `X + [..]`, `*X`)"""
    readers = {'get', 'items', 'keys', 'values', 'index', 'count', 'copy'}
    for m in prog.modules.values():
        parent = {}
        for x in ast.walk(m.tree):
            for ch in ast.iter_child_nodes(x):
                parent[id(ch)] = x
        for x in ast.walk(m.tree):
            if not (isinstance(x, ast.Name) and x.id == name and isinstance(x.ctx, ast.Load)):
                continue
            par = parent.get(id(x))
            if isinstance(par, ast.Subscript) and par.value is x:
                continue
            if isinstance(par, ast.Compare) and x in par.comparators:
                continue
            if isinstance(par, (ast.For, ast.comprehension)) and par.iter is x:
                continue
            if isinstance(par, ast.Attribute) and par.value is x and par.attr in readers:
                continue
            if isinstance(par, ast.Call) and isinstance(par.func, ast.Name) and par.func.id in ('len', 'sorted', 'list', 'tuple', 'dict', 'set', 'frozenset',
                                                                                                  'sum', 'min', 'max', 'any', 'all', 'enumerate', 'iter',
                                                                                                  'reversed', 'bool') and x in par.args:
                continue
            if isinstance(par, ast.BinOp) or isinstance(par, ast.Starred) or (isinstance(par, ast.keyword) and par.arg is None):
                continue
            if isinstance(par, ast.Dict) and x in par.values and any(k is None and v is x for k, v in zip(par.keys, par.values)):
                continue
            return True
    return False


def inline_new_constants(prog, known):
    """module-level and class-level names that are not in the reference tree and are bound once to a constant display are
    replaced by that display wherever they are read (so `_HEADER_FORMAT = '>8s8s4B2L'` ... `unpack_from(_HEADER_FORMAT, data)`
    is again `unpack_from('>8s8s4B2L', data)`).  Returns the list of inlined names."""
    done = []
    _unroll_constant_comprehensions(prog, known)
    written_through = _written_names(prog)
    # ---- module level
    for m in prog.modules.values():
        cands = {}
        for st in m.tree.body:
            if isinstance(st, ast.Assign) and len(st.targets) == 1 and isinstance(st.targets[0], ast.Name) and _display(st.value):
                name = st.targets[0].id
                q = '%s.%s' % (m.name, name)
                if q not in known and not name.startswith('__') and name not in written_through:
                    cands[name] = st
        # assigned once only, never stored elsewhere
        for name in list(cands):
            stores = sum(1 for x in ast.walk(m.tree) if isinstance(x, ast.Name) and x.id == name and isinstance(x.ctx, (ast.Store, ast.Del)))
            if stores != 1 or any(isinstance(x, ast.Global) and name in x.names for x in ast.walk(m.tree)):
                del cands[name]
        # a mutable object (list / dict / set display) is a constant only where it is read: when it is returned, stored, passed on or
        # aliased, the one module-level object escapes to code that may write to it - that is state, and must stay visible as such
        for name in list(cands):
            v = cands[name].value
            if not isinstance(v, (ast.List, ast.Dict, ast.Set, ast.ListComp, ast.DictComp, ast.SetComp)):
                continue
            if _mutable_escapes(prog, name):
                del cands[name]
        # constants may refer to each other: resolve in order of definition
        for name, st in list(cands.items()):
            st.value = _Subst({k: v.value for k, v in cands.items() if k != name}, {}).visit(st.value)
        if not cands:
            continue
        exprs = {k: v.value for k, v in cands.items()}

        class R(ast.NodeTransformer):
            def visit_FunctionDef(s_, node):
                # a parameter / local of the same name shadows the constant
                shadow = _stored_names(node) | {a.arg for a in node.args.posonlyargs + node.args.args + node.args.kwonlyargs}
                sub = {k: v for k, v in exprs.items() if k not in shadow}
                if sub:
                    for i, b in enumerate(node.body):
                        node.body[i] = _Subst(sub, {}).visit(b)
                return node

            def visit_ClassDef(s_, node):
                s_.generic_visit(node)
                return node
        for i, st in enumerate(m.tree.body):
            if st in cands.values():
                continue
            if isinstance(st, (ast.FunctionDef, ast.ClassDef)):
                R().visit(st)
                if isinstance(st, ast.ClassDef):
                    for j, b in enumerate(st.body):
                        if not isinstance(b, (ast.FunctionDef, ast.ClassDef)):
                            st.body[j] = _Subst(exprs, {}).visit(b)
            else:
                m.tree.body[i] = _Subst(exprs, {}).visit(st)
        # other modules: `from m import NAME` / `m.NAME`
        for om in prog.modules.values():
            if om is m:
                continue
            alias = {}
            for st in om.tree.body:
                if isinstance(st, ast.ImportFrom) and st.module == m.name:
                    for a in st.names:
                        if a.name in exprs:
                            alias[a.asname or a.name] = exprs[a.name]
            mod_alias = [a.asname or a.name for st in om.tree.body if isinstance(st, ast.Import) for a in st.names if a.name == m.name]
            if alias:
                om.tree = _Subst(alias, {}).visit(om.tree)
            if mod_alias:
                class RA(ast.NodeTransformer):
                    def visit_Attribute(s_, node):
                        s_.generic_visit(node)
                        if isinstance(node.value, ast.Name) and node.value.id in mod_alias and node.attr in exprs and isinstance(node.ctx, ast.Load):
                            return ast.copy_location(copy.deepcopy(exprs[node.attr]), node)
                        return node
                om.tree = RA().visit(om.tree)
        m.tree.body = [st for st in m.tree.body if st not in cands.values()]
        done += ['%s.%s' % (m.name, k) for k in cands]
    # ---- class level
    for c in list(prog.classes.values()):
        cands = {}
        for st in c.node.body:
            if isinstance(st, ast.Assign) and len(st.targets) == 1 and isinstance(st.targets[0], ast.Name) and _display(st.value):
                name = st.targets[0].id
                if '%s.%s' % (c.qual, name) not in known and not name.startswith('__') and name not in ('_fields_', '_pack_') \
                        and name not in written_through:
                    cands[name] = st
        for name in list(cands):
            others = [k for k in prog.classes.values() if k is not c and name in k.attrs and (c in k.mro() or k in c.mro())]
            written = any(isinstance(x, ast.Attribute) and x.attr == name and isinstance(x.ctx, (ast.Store, ast.Del))
                          for m in prog.modules.values() for x in ast.walk(m.tree))
            if others or written:
                del cands[name]
        if not cands:
            continue
        exprs = {k: v.value for k, v in cands.items()}
        cname = c.name

        class RC(ast.NodeTransformer):
            def visit_Attribute(s_, node):
                s_.generic_visit(node)
                if node.attr in exprs and isinstance(node.ctx, ast.Load):
                    v = node.value
                    if isinstance(v, ast.Name) and v.id in ('self', 'cls', cname):
                        return ast.copy_location(copy.deepcopy(exprs[node.attr]), node)
                    if isinstance(v, ast.Attribute) and v.attr == cname:
                        return ast.copy_location(copy.deepcopy(exprs[node.attr]), node)
                return node
        # inside the class: self.N / cls.N / Class.N and bare N in the class body; elsewhere: Class.N
        for j, b in enumerate(c.node.body):
            if b in cands.values():
                continue
            if isinstance(b, (ast.FunctionDef, ast.ClassDef)):
                RC().visit(b)
            else:
                c.node.body[j] = RC().visit(_Subst(exprs, {}).visit(b))

        class RO(ast.NodeTransformer):
            def visit_Attribute(s_, node):
                s_.generic_visit(node)
                if node.attr in exprs and isinstance(node.ctx, ast.Load) and (
                        (isinstance(node.value, ast.Name) and node.value.id == cname) or
                        (isinstance(node.value, ast.Attribute) and node.value.attr == cname)):
                    return ast.copy_location(copy.deepcopy(exprs[node.attr]), node)
                return node
        for m in prog.modules.values():
            RO().visit(m.tree)
        c.node.body = [b for b in c.node.body if b not in cands.values()] or [ast.Pass()]
        done += ['%s.%s' % (c.qual, k) for k in cands]
    for m in prog.modules.values():
        ast.fix_missing_locations(m.tree)
    return done


# ----------------------------------------------------------------------------------------------- the pass
class Inliner:
    def __init__(self, prog, resolver_factory, known=None, max_rounds=6):
        self.prog = prog
        self.known = known if known is not None else known_functions()
        self.mk_resolver = resolver_factory
        self.max_rounds = max_rounds
        self.report = {'helpers': [], 'inlined_calls': [], 'left_as_calls': []}
        self._uid = 0
        self.moved = {}

    # ---- candidates
    def candidates(self):
        out = {}
        for q, fi in self.prog.functions.items():
            if q in self.known and not (q in FOLDABLE_WHEN_CHANGED and self._signature_changed(q, fi)):
                continue
            if fi.name.startswith('__') and fi.name.endswith('__'):
                # the constructor of a new base class that is only ever reached through `super().__init__(..)` is a helper of its subclasses
                if not (fi.name == '__init__' and fi.cls is not None and self._only_subclassed(fi.cls)):
                    continue
            n = fi.node
            if not isinstance(n, ast.FunctionDef):
                continue
            a = n.args
            if a.kwarg:
                continue
            if a.vararg:
                # *args is supported when the body only ever splices it (`(x, *args)`, `f(*args)`)
                va = a.vararg.arg
                # ... or reads it (the arguments as a tuple display: `for x in args`, `len(args)`)
                uses = [x for x in ast.walk(n) if isinstance(x, ast.Name) and x.id == va]
                if not uses or any(not isinstance(u.ctx, ast.Load) for u in uses):
                    continue
            # a local class without methods (a record / ctypes layout) is data the helper builds; a memoised factory of such a class
            # (`@lru_cache` ... `class L: _fields_ = ..` ... `return L`) is that factory: the cached value is a class, which nobody mutates
            local_classes = {x.name for x in ast.walk(n) if isinstance(x, ast.ClassDef) and not any(
                isinstance(y, (ast.FunctionDef, ast.AsyncFunctionDef, ast.ClassDef, ast.Lambda)) and y is not x for y in ast.walk(x))}
            decos = [src(d.func if isinstance(d, ast.Call) else d).split('.')[-1] for d in n.decorator_list]
            memo = [d for d in decos if d in ('lru_cache', 'cache')]
            if any(d not in ('staticmethod', 'classmethod', 'lru_cache', 'cache') for d in decos):
                continue
            if memo:
                # ... or of values nobody can change: numbers, strings, tuples of them, immutable library value objects
                def immutable(e):
                    if isinstance(e, ast.Name) and e.id in local_classes:
                        return True
                    if isinstance(e, ast.Constant):
                        return True
                    if isinstance(e, ast.Tuple):
                        return all(immutable(x) for x in e.elts)
                    if isinstance(e, (ast.BinOp, ast.UnaryOp, ast.Compare, ast.BoolOp)):
                        return not any(isinstance(x, (ast.List, ast.Dict, ast.Set, ast.ListComp, ast.DictComp, ast.SetComp)) for x in ast.walk(e))
                    if isinstance(e, ast.Call) and isinstance(e.func, (ast.Name, ast.Attribute)):
                        return src(e.func).split('.')[-1] in ('len', 'int', 'bytes', 'str', 'tuple', 'frozenset', 'Struct', 'ip_address', 'ip_network',
                                                              'DHParameterNumbers', 'DHPublicNumbers', 'EllipticCurvePublicNumbers', 'calcsize', 'sizeof')
                    return False
                rets = [x for x in walk_no_nested(n) if isinstance(x, ast.Return)]
                if not rets or not all(r.value is not None and immutable(r.value) for r in rets):
                    continue
            bad = False
            # a local function (a callback closing over the helper's locals) moves with the body, as long as its own names shadow nothing
            # of the helper: then renaming the helper's locals inside it is renaming the variables it closes over
            own = {a.arg for a in ast.walk(a) if isinstance(a, ast.arg)} | {x.id for x in walk_no_nested(n) if isinstance(x, ast.Name)
                                                                           and isinstance(x.ctx, (ast.Store, ast.Del))}
            local_funcs = set()
            for d in _nested_defs(n):
                if isinstance(d, ast.FunctionDef) and not d.decorator_list and not any(
                        isinstance(y, (ast.Yield, ast.YieldFrom, ast.Await, ast.Global, ast.Nonlocal, ast.FunctionDef, ast.AsyncFunctionDef,
                                       ast.ClassDef)) and y is not d for y in ast.walk(d)):
                    inner = {y.arg for y in ast.walk(d.args) if isinstance(y, ast.arg)} | {
                        y.id for y in ast.walk(d) if isinstance(y, ast.Name) and isinstance(y.ctx, (ast.Store, ast.Del))}
                    if not inner & (own | {d.name}):
                        local_funcs.add(d.name)
            for x in walk_no_nested(n):
                if isinstance(x, (ast.Yield, ast.YieldFrom, ast.Await, ast.Global, ast.Nonlocal)):
                    bad = True
            for x in ast.walk(n):
                if x is not n and isinstance(x, ast.AsyncFunctionDef):
                    bad = True
                if x is not n and isinstance(x, ast.FunctionDef) and x.name not in local_funcs:
                    bad = True
                if x is not n and isinstance(x, ast.ClassDef) and x.name not in local_classes:
                    bad = True
            if bad:
                continue
            # overriding / overridden methods are dispatched dynamically: leave them
            if fi.cls is not None and fi.name != '__init__':
                others = [c for c in self.prog.classes.values() if c is not fi.cls and fi.name in c.methods
                          and (fi.cls in c.mro() or c in fi.cls.mro())]
                if others:
                    continue
            out[q] = fi
        return out

    def _signature_changed(self, q, fi):
        sig = known_table().get('signatures', {}).get(q)
        if sig is None:
            return False
        k = sig.index('*')
        return set(sig[:k]) != set(fi.params) or set(sig[k + 1:]) != set(fi.kwonly)

    def _only_subclassed(self, cls):
        """no expression constructs the class by its name: its __init__ runs only on behalf of subclasses"""
        if not any(cls in c.mro()[1:] for c in self.prog.classes.values()):
            return False
        for m in self.prog.modules.values():
            for x in ast.walk(m.tree):
                if isinstance(x, ast.Call) and src(x.func).split('.')[-1] == cls.name:
                    return False
                if isinstance(x, ast.Name) and x.id == cls.name and isinstance(x.ctx, ast.Load):
                    # any other mention (a table of classes, an alias) could be a constructor call in disguise; base lists are fine
                    if not any(isinstance(c, ast.ClassDef) and any(b is x for b in c.bases) for c in ast.walk(m.tree)):
                        return False
        return True

    # ---- one call
    def _bind(self, call, fi_callee, caller_node, keep=()):
        """(exprs, prelude, renames): parameter substitutions, binding statements, local renames"""
        n = fi_callee.node
        params = [a.arg for a in n.args.posonlyargs + n.args.args]
        defaults = fi_callee.defaults()
        exprs, prelude, renames = {}, [], {}
        bound = {}
        if fi_callee.cls is not None and not fi_callee.is_staticmethod:
            if not isinstance(call.func, ast.Attribute):
                raise Unsupported('method called through a bare name')
            recv = call.func.value
            if isinstance(recv, ast.Call) and isinstance(recv.func, ast.Name) and recv.func.id == 'super':
                first = (caller_node.args.posonlyargs + caller_node.args.args)[:1] if isinstance(caller_node, ast.FunctionDef) else []
                if recv.args or recv.keywords or not first or fi_callee.is_classmethod:
                    raise Unsupported('super() call')
                recv = ast.copy_location(ast.Name(id=first[0].arg, ctx=ast.Load()), recv)
            cargs = list(call.args)
            if (not fi_callee.is_classmethod and isinstance(recv, ast.Name) and cargs and not isinstance(cargs[0], ast.Starred)
                    and any(c.name == recv.id and fi_callee.cls in c.mro() for c in self.prog.classes.values())
                    and recv.id not in _stored_names(caller_node)):
                # `Class.method(obj, ..)`: the method through its class, the receiver passed explicitly
                recv, cargs = cargs[0], cargs[1:]
            bound[params[0]] = recv
            params = params[1:]
        else:
            cargs = list(call.args)
        vararg = n.args.vararg.arg if n.args.vararg else None
        extra = []
        for i, a in enumerate(cargs):
            if isinstance(a, ast.Starred):
                raise Unsupported('argument list does not match the signature')
            if i >= len(params):
                if vararg is None:
                    raise Unsupported('argument list does not match the signature')
                extra.append(a)
                continue
            bound[params[i]] = a
        if vararg is not None:
            if not all(_is_simple(a) for a in extra):
                # computed once, in order, into locals of their own (only when nothing else of the call needs evaluating)
                if not all(_is_simple(a) for a in cargs[:len(params)]) or call.keywords:
                    raise Unsupported('*args with non-trivial arguments')
                names_ = _all_names(caller_node)
                tmp = []
                for i_, a in enumerate(extra):
                    if _is_simple(a):
                        tmp.append(a)
                        continue
                    nm_ = '%s_%d__%s' % (vararg, i_, fi_callee.name.strip('_'))
                    while nm_ in names_:
                        nm_ += '_'
                    names_.add(nm_)
                    prelude.append(ast.copy_location(ast.Assign(targets=[ast.Name(id=nm_, ctx=ast.Store())], value=a, type_comment=None), call))
                    tmp.append(ast.copy_location(ast.Name(id=nm_, ctx=ast.Load()), a))
                extra = tmp
            bound[vararg] = ast.Tuple(elts=list(extra), ctx=ast.Load())
        for kw in call.keywords:
            if kw.arg is None or kw.arg not in params + [k.arg for k in n.args.kwonlyargs]:
                raise Unsupported('keyword argument does not match the signature')
            bound[kw.arg] = kw.value
        for p in params + [k.arg for k in n.args.kwonlyargs]:
            if p not in bound:
                if p not in defaults:
                    raise Unsupported('missing argument %s' % p)
                bound[p] = defaults[p]
        stored = _stored_names(n)
        caller_names = _all_names(caller_node)
        arg_names = set()
        for a in bound.values():
            arg_names |= _all_names(a)
        body = _strip_doc(n.body)
        for p, a in bound.items():
            uses = sum(1 for s in body for x in ast.walk(s) if isinstance(x, ast.Name) and x.id == p
                       and isinstance(x.ctx, ast.Load))
            if p == vararg:
                exprs[p] = a
                continue
            if p not in stored and (_is_simple(a) or uses <= 1):
                if uses == 0 and any(isinstance(x, ast.Call) for x in ast.walk(a)):
                    prelude.append(ast.copy_location(ast.Expr(value=a), call))
                exprs[p] = a
            else:
                new = p
                if p in caller_names or p in arg_names:
                    new = '%s__%s' % (p, fi_callee.name.strip('_'))
                    renames[p] = new
                prelude.append(ast.copy_location(ast.Assign(targets=[ast.Name(id=new, ctx=ast.Store())], value=a,
                                                            type_comment=None), call))
        for loc in sorted(stored - set(bound)):
            if loc in keep and loc not in arg_names:
                continue        # the callee's local is the very variable the caller assigns the result to
            if loc in caller_names or loc in arg_names:
                renames[loc] = '%s__%s' % (loc, fi_callee.name.strip('_'))
        return exprs, prelude, renames

    def _instantiate(self, fi_callee, call, caller_node, keep=()):
        exprs, prelude, renames = self._bind(call, fi_callee, caller_node, keep)
        body = [_Subst(exprs, renames).visit(copy.deepcopy(s)) for s in _strip_doc(fi_callee.node.body)]
        body = [_Splice().visit(s) for s in body]
        return prelude, body

    def as_expression(self, fi_callee, call, caller_node):
        exprs, prelude, renames = self._bind(call, fi_callee, caller_node)
        if prelude:
            raise Unsupported('arguments need binding statements')
        e = to_expr(_strip_doc(fi_callee.node.body))
        return _Subst(exprs, renames).visit(copy.deepcopy(e))

    def as_statements(self, fi_callee, call, caller_node, mode, targets=None):
        """mode: 'tail' (the call's value is returned), 'assign' (to `targets`), 'drop'"""
        keep = tuple(t.id for t in (targets or []) if isinstance(t, ast.Name)) if mode == 'assign' else ()
        prelude, body = self._instantiate(fi_callee, call, caller_node, keep)
        if mode == 'tail':
            if not _always_exits(body):
                body = body + [ast.copy_location(ast.Return(value=ast.Constant(value=None)), call)]
            return prelude + body

        def mk(value, node):
            if mode == 'assign':
                v = value if value is not None else ast.copy_location(ast.Constant(value=None), node)
                if len(targets) == 1 and isinstance(targets[0], ast.Name) and isinstance(v, ast.Name) and v.id == targets[0].id:
                    return []       # x = x
                return [ast.copy_location(ast.Assign(targets=copy.deepcopy(targets), value=v, type_comment=None), node)]
            if value is not None and any(isinstance(x, ast.Call) for x in ast.walk(value)):
                return [ast.copy_location(ast.Expr(value=value), node)]
            return []
        el = _Elim(mk)
        cont = []
        if mode == 'assign' and not _always_exits(body):
            cont = mk(None, call)
        out = el.seq(body, cont)
        return prelude + (out or [ast.copy_location(ast.Pass(), call)])

    # ---- rewriting one function
    def _rewrite_function(self, fi, cands, res):
        changed = False

        def target_of(call):
            f_ = call.func
            if (isinstance(f_, ast.Attribute) and isinstance(f_.value, ast.Call) and isinstance(f_.value.func, ast.Name)
                    and f_.value.func.id == 'super' and not f_.value.args and getattr(fi, 'cls', None) is not None):
                # static dispatch: the next class of the MRO that defines the method
                for k_ in fi.cls.mro()[1:]:
                    t_ = k_.methods.get(f_.attr)
                    if t_ is not None:
                        return t_ if t_.qual in cands and t_ is not fi else None
                return None
            try:
                r = res.resolve_call(call, fi, count=False)
            except Exception:
                return None
            if r.kind == 'repo' and len(r.targets) == 1 and r.targets[0].qual in cands and r.targets[0] is not fi \
                    and not ('cha' in (r.note or '') and r.targets[0].name in _CONTAINER_METHOD_NAMES):
                # (a method called `get` / `items` / `update` .. found by its name alone, on a receiver of unknown type, is far more
                # likely the dict / list method - inlining a same-named helper of the program there would even recurse into itself)
                # a function that took the place of a reference method is inlined into the wrapper that stands for that method, and
                # nowhere else: the other call sites are turned into calls of the wrapper once everything else has been inlined
                w = self.moved.get(r.targets[0].qual)
                if w is not None and fi.qual != w['wrapper']:
                    return None
                return r.targets[0]
            return None

        def note(t, call, how):
            self.report['inlined_calls'].append({'helper': t.qual, 'into': fi.qual, 'line': getattr(call, 'lineno', None),
                                                 'how': how})

        def left(t, call, why):
            self.report['left_as_calls'].append({'helper': t.qual, 'in': fi.qual, 'line': getattr(call, 'lineno', None),
                                                 'why': str(why)})

        # 1. expression-level inlining of predicate-like helpers, anywhere
        class ExprInl(ast.NodeTransformer):
            def visit_FunctionDef(s, node):
                if node is fi.node:
                    s.generic_visit(node)
                return node

            def visit_Call(s, node):
                s.generic_visit(node)
                t = target_of(node)
                if t is None:
                    return node
                try:
                    e = self.as_expression(t, node, fi.node)
                except Unsupported:
                    return node
                nonlocal changed
                changed = True
                note(t, node, 'expression')
                return ast.copy_location(e, node)
        ExprInl().visit(fi.node)

        # 2. statement-level
        def hoistable(stmt, call):
            """the call is evaluated unconditionally and first among the calls of the statement's expression"""
            if isinstance(stmt, (ast.Assign, ast.AugAssign, ast.AnnAssign, ast.Expr, ast.Return)):
                root = stmt.value
            elif isinstance(stmt, ast.If):
                root = stmt.test
            elif isinstance(stmt, ast.For):
                root = stmt.iter
            elif isinstance(stmt, ast.Raise):
                root = stmt.exc
            else:
                return False
            if root is None:
                return False
            # walk from root to the call; refuse conditional contexts
            def find(e):
                if e is call:
                    return True
                if isinstance(e, (ast.Lambda, ast.ListComp, ast.SetComp, ast.DictComp, ast.GeneratorExp)):
                    return False
                if isinstance(e, ast.BoolOp):
                    return find(e.values[0])
                if isinstance(e, ast.IfExp):
                    return find(e.test)
                return any(find(c) for c in ast.iter_child_nodes(e))
            return find(root)

        def rewrite_block(stmts):
            nonlocal changed
            out = []
            for st in stmts:
                # recurse into compound statements first
                for field in ('body', 'orelse', 'finalbody'):
                    if hasattr(st, field) and isinstance(getattr(st, field), list) and not isinstance(
                            st, (ast.FunctionDef, ast.ClassDef, ast.AsyncFunctionDef)):
                        setattr(st, field, rewrite_block(getattr(st, field)) or (
                            [ast.copy_location(ast.Pass(), st)] if field == 'body' else []))
                if isinstance(st, ast.Try):
                    for h in st.handlers:
                        h.body = rewrite_block(h.body)
                if isinstance(st, (ast.FunctionDef, ast.ClassDef, ast.AsyncFunctionDef)):
                    out.append(st)
                    continue
                done = False
                # the calls of this statement's own expressions (not of nested blocks)
                own = []
                if isinstance(st, (ast.If, ast.While)):
                    roots = [st.test]
                elif isinstance(st, ast.For):
                    roots = [st.iter]
                elif isinstance(st, (ast.With, ast.Try)):
                    roots = []
                else:
                    roots = [st]
                for r_ in roots:
                    for x in walk_no_nested(r_):
                        if isinstance(x, ast.Call):
                            own.append(x)
                for call in own:
                    t = target_of(call)
                    if t is None:
                        continue
                    try:
                        if isinstance(st, ast.Return) and st.value is call:
                            new = self.as_statements(t, call, fi.node, 'tail')
                            how = 'tail'
                        elif isinstance(st, ast.Expr) and st.value is call:
                            new = self.as_statements(t, call, fi.node, 'drop')
                            how = 'statement'
                        elif isinstance(st, ast.Assign) and st.value is call:
                            new = self.as_statements(t, call, fi.node, 'assign', st.targets)
                            how = 'assignment'
                        elif not isinstance(st, ast.While) and hoistable(st, call):
                            self._uid += 1
                            tmp = '%s__%d' % (t.name.strip('_'), self._uid)
                            new = self.as_statements(t, call, fi.node, 'assign', [ast.Name(id=tmp, ctx=ast.Store())])
                            repl = ast.copy_location(ast.Name(id=tmp, ctx=ast.Load()), call)

                            class R(ast.NodeTransformer):
                                def visit_Call(s, node):
                                    if node is call:
                                        return repl
                                    return s.generic_visit(node)
                            if isinstance(st, ast.If):
                                st.test = R().visit(st.test)
                            elif isinstance(st, ast.For):
                                st.iter = R().visit(st.iter)
                            else:
                                R().visit(st)
                            new = new + [st]
                            how = 'hoisted'
                        else:
                            left(t, call, 'call in a conditional or repeated position')
                            continue
                    except Unsupported as ex:
                        left(t, call, ex)
                        continue
                    note(t, call, how)
                    changed = True
                    out.extend(rewrite_block(new) if how != 'hoisted' else rewrite_block(new[:-1]) + [new[-1]])
                    done = True
                    break
                if not done:
                    out.append(st)
            return out

        fi.node.body = rewrite_block(fi.node.body) or [ast.Pass()]
        ast.fix_missing_locations(fi.node)
        return changed

    # ---- driver
    def run(self):
        prog = self.prog
        tbl = known_table()
        self.report['recovered_renames'] = recover_renames(prog, tbl)
        moved = recover_moves(prog, tbl)
        if moved:
            self.report['recovered_renames'] = self.report['recovered_renames'] + moved
            prog.reindex()
            for m in moved:
                self.moved[m['found_as']] = {'wrapper': m['reference_name'], 'lead': m['leading_argument'], 'kind': m['kind']}
        more = recover_identifier_renames(prog, tbl)
        if more:
            self.report['recovered_renames'] = self.report['recovered_renames'] + more
        if self.report['recovered_renames']:
            prog.reindex()
        self.report['recovered_parameters'] = recover_parameter_renames(prog, tbl)
        if self.report['recovered_parameters']:
            prog.reindex()
        self.report['recovered_locals'] = recover_local_renames(prog, tbl)
        self.report['dispatch_tables'] = {}
        for q, fi in prog.functions.items():
            if isinstance(fi.node, ast.FunctionDef):
                k = dict_dispatch_to_chain(fi.node)
                if k:
                    self.report['dispatch_tables'][q] = k
                k = count_loops_to_while(fi.node)
                if k:
                    self.report.setdefault('count_loops', {})[q] = k
                k = propagate_state_snapshots(fi.node)
                if k:
                    self.report.setdefault('state_snapshots', {})[q] = k
                k = conditional_callee_to_branches(fi.node)
                if k:
                    self.report.setdefault('conditional_callees', {})[q] = k
                k = first_match_forms(fi.node)
                if k:
                    self.report.setdefault('first_match_forms', {})[q] = k
                k = next_default_to_try(fi.node)
                if k:
                    self.report.setdefault('next_with_default', {})[q] = k
                k = unroll_literal_loops(fi.node)
                if k:
                    self.report.setdefault('unrolled_literal_loops', {})[q] = k
        k = inline_context_managers(prog)
        if k:
            self.report['context_managers'] = k
            prog.reindex()
        k = inline_prelude_decorators(prog)
        if k:
            self.report['prelude_decorators'] = k
            prog.reindex()
        self.report['generated_tables'] = fold_generated_tables(prog)
        if self.report['generated_tables']:
            prog.reindex()
        self.report['erased_records'] = erase_new_records(prog, known_constants(), tbl.get('attr_reads'))
        if self.report['erased_records']:
            prog.reindex()
        self.report['inlined_constants'] = inline_new_constants(prog, known_constants())
        if self.report['inlined_constants']:
            for q, fi in prog.functions.items():
                if isinstance(fi.node, ast.FunctionDef):
                    k = unroll_literal_loops(fi.node)
                    if k:
                        self.report.setdefault('unrolled_literal_loops', {})[q] = self.report.get('unrolled_literal_loops', {}).get(q, 0) + k
                    k = getattr_tables(fi.node)
                    if k:
                        self.report.setdefault('getattr_tables', {})[q] = k
                    k = table_get_to_chain(fi.node, constant_table_names(prog))
                    if k:
                        self.report.setdefault('table_get_chains', {})[q] = k
                    _Accessors.needs_struct = False
                    _Accessors().visit(fi.node)
                    ast.fix_missing_locations(fi.node)
                    if _Accessors.needs_struct:
                        tree = fi.module.tree
                        if not any(isinstance(st, ast.Import) and any(a.name == 'struct' and a.asname is None for a in st.names) for st in tree.body):
                            k = 1 if tree.body and isinstance(tree.body[0], ast.Expr) and isinstance(tree.body[0].value, ast.Constant) else 0
                            while k < len(tree.body) and isinstance(tree.body[k], ast.ImportFrom) and tree.body[k].module == '__future__':
                                k += 1
                            tree.body.insert(k, ast.fix_missing_locations(ast.Import(names=[ast.alias(name='struct', asname=None)])))
            prog.reindex()
        cands = self.candidates()
        self.report['condition_locals'] = {}
        if not cands:
            self._condition_locals()
            prog.reindex()
            return self.report
        self.report['helpers'] = sorted(cands)
        for _ in range(self.max_rounds):
            res = self.mk_resolver(prog)
            # helpers that (transitively) call themselves are not inlined
            graph = {}
            for q, fi in cands.items():
                graph[q] = set()
                for x in walk_no_nested(fi.node):
                    if isinstance(x, ast.Call):
                        try:
                            r = res.resolve_call(x, fi, count=False)
                        except Exception:
                            continue
                        if 'cha' in (r.note or '') and any(t.name in _CONTAINER_METHOD_NAMES for t in r.targets):
                            continue        # `self._d.get(k)` is the dict's get, not this class's
                        for t in r.targets:
                            if t.qual in cands:
                                graph[q].add(t.qual)
            rec = set()
            for q in graph:
                seen, todo = set(), list(graph[q])
                while todo:
                    y = todo.pop()
                    if y == q:
                        rec.add(q)
                        break
                    if y not in seen:
                        seen.add(y)
                        todo.extend(graph.get(y, ()))
            live = {q: f for q, f in cands.items() if q not in rec}
            any_change = False
            for fi in list(prog.functions.values()):
                if isinstance(fi.node, ast.FunctionDef):
                    if self._rewrite_function(fi, live, res):
                        any_change = True
            # the script part of a module (pyikev2.py) is a body like any other: helpers it calls are inlined into it
            for m in prog.modules.values():
                top = [st for st in m.tree.body if not isinstance(st, (ast.FunctionDef, ast.AsyncFunctionDef, ast.ClassDef, ast.Import,
                                                                         ast.ImportFrom))]
                if not any(isinstance(x, ast.Call) for st in top for x in ast.walk(st)):
                    continue
                try:
                    from .sval import _ModScope
                    scope = _ModScope(m)
                    scope.node = m.tree
                    if self._rewrite_function(scope, live, res):
                        any_change = True
                except Exception:
                    pass
            prog.reindex()
            cands = {q: prog.functions[q] for q in cands if q in prog.functions}
            if not any_change:
                break
        if getattr(prog, 'desugared', None):
            self.report['desugared'] = prog.desugared
        self._finish_moves()
        self._drop_unreferenced(cands)
        k = fold_derived_fields(prog, set(tbl.get('vocabulary') or ()))
        if k:
            self.report['derived_fields'] = k
            prog.reindex()
        if self._plain_record_subclasses():
            prog.reindex()
            k = erase_new_records(prog, known_constants(), tbl.get('attr_reads'))
            if k:
                self.report['erased_records'] = list(self.report.get('erased_records') or []) + list(k)
                prog.reindex()
        self._condition_locals()
        prog.reindex()
        self._drop_unused_classes()
        return self.report

    def _plain_record_subclasses(self):
        """`class R(namedtuple('R', fields)):` whose methods have all been inlined away (docstring and `__slots__ = ()` are what is left)
        is the record `R = namedtuple('R', fields)`"""
        n = 0
        for m in self.prog.modules.values():
            for i, st in enumerate(list(m.tree.body)):
                if not (isinstance(st, ast.ClassDef) and len(st.bases) == 1 and not st.keywords and not st.decorator_list
                        and isinstance(st.bases[0], ast.Call) and src(st.bases[0].func).split('.')[-1] == 'namedtuple'
                        and st.bases[0].args and isinstance(st.bases[0].args[0], ast.Constant) and st.bases[0].args[0].value == st.name):
                    continue
                if m.name + '.' + st.name in self.known_classes():
                    continue
                rest = [b for b in st.body if not (isinstance(b, ast.Pass) or (isinstance(b, ast.Expr) and isinstance(b.value, ast.Constant))
                                                   or (isinstance(b, ast.Assign) and len(b.targets) == 1 and isinstance(b.targets[0], ast.Name)
                                                       and b.targets[0].id == '__slots__'))]
                if rest:
                    continue
                new = ast.Assign(targets=[ast.Name(id=st.name, ctx=ast.Store())], value=st.bases[0], type_comment=None)
                ast.copy_location(new, st)
                ast.fix_missing_locations(new)
                m.tree.body[m.tree.body.index(st)] = new
                self.report.setdefault('record_subclasses', []).append(m.name + '.' + st.name)
                n += 1
        return n

    def known_classes(self):
        return {q.rsplit('.', 1)[0] for q in self.known if q.count('.') >= 2}

    def _finish_moves(self):
        """calls of a moved function that inlining has brought into methods of the class it came from go through the wrapper"""
        prog = self.prog
        for fq, w in self.moved.items():
            fname = fq.rsplit('.', 1)[1]
            holder, mname = w['wrapper'].rsplit('.', 1)
            cls = prog.classes.get(holder)
            if cls is None:
                continue
            for f2 in cls.methods.values():
                if f2.qual == w['wrapper'] or not f2.self_name and w['kind'] != 'staticmethod':
                    continue
                for c in ast.walk(f2.node):
                    if isinstance(c, ast.Call) and ((isinstance(c.func, ast.Name) and c.func.id == fname) or
                                                    (isinstance(c.func, ast.Attribute) and c.func.attr == fname)):
                        extra = 1 if w['lead'] else 0
                        if extra:
                            if not c.args or not f2.self_name or src(c.args[0]) != w['lead'].replace('@', f2.self_name, 1):
                                continue
                        if w['kind'] == 'staticmethod' or not f2.self_name:
                            c.func = ast.Attribute(value=ast.Name(id=cls.name, ctx=ast.Load()), attr=mname, ctx=ast.Load())
                        else:
                            c.func = ast.Attribute(value=ast.Name(id=f2.self_name, ctx=ast.Load()), attr=mname, ctx=ast.Load())
                        c.args = list(c.args[extra:])
                        ast.fix_missing_locations(c)
        if self.moved:
            prog.reindex()

    def _condition_locals(self):
        self.report['counting_loops'] = {}
        self.report['lambda_applications'] = {}
        ctabs = constant_table_names(self.prog)
        for q, fi in self.prog.functions.items():
            if isinstance(fi.node, ast.FunctionDef):
                k = beta_reduce(fi.node)
                if k:
                    self.report['lambda_applications'][q] = k
                k = erase_local_wrappers(fi.node, self.prog, self.known_classes())
                if k:
                    self.report.setdefault('erased_wrappers', {})[q] = k
                k = table_get_to_chain(fi.node, ctabs)
                if k:
                    self.report.setdefault('table_get_chains', {})[q] = self.report.get('table_get_chains', {}).get(q, 0) + k
                k = inline_bound_method_locals(fi.node)
                if k:
                    self.report.setdefault('bound_method_locals', {})[q] = k
                if fi.cls is not None and fi.self_name:
                    def rebound_elsewhere(a, fi=fi):
                        for m_ in fi.cls.methods.values():
                            if m_ is fi or m_.name == '__init__' or not isinstance(m_.node, ast.FunctionDef):
                                continue
                            for y in ast.walk(m_.node):
                                if isinstance(y, ast.Attribute) and y.attr == a and isinstance(y.ctx, (ast.Store, ast.Del)):
                                    return True
                        return False
                    k = eliminate_container_aliases(fi.node, fi.self_name, rebound_elsewhere)
                    if k:
                        self.report.setdefault('container_aliases', {})[q] = k
                k = inline_constant_set_locals(fi.node)
                if k:
                    self.report.setdefault('constant_set_locals', {})[q] = k
                k = successor_pairs_to_index(fi.node)
                if k:
                    self.report.setdefault('successor_pairs', {})[q] = k
                k = counting_whiles_to_for(fi.node)
                if k:
                    self.report['counting_loops'][q] = k
                n = propagate_condition_locals(fi.node)
                if n:
                    self.report['condition_locals'][q] = n

    def _drop_unused_classes(self):
        """a class that is not in the reference and that nothing names any more (its only uses were wrapper objects that have been
        written out) is not part of the program"""
        known = self.known_classes()
        vocabulary = set(known_table().get('vocabulary') or ())
        dropped = []
        for m in self.prog.modules.values():
            for st in list(m.tree.body):
                if not isinstance(st, ast.ClassDef) or (m.name + '.' + st.name) in known or st.name in vocabulary:
                    continue
                used = False
                for m2 in self.prog.modules.values():
                    for x in ast.walk(m2.tree):
                        if x is st:
                            continue
                        if isinstance(x, ast.Name) and x.id == st.name and not any(x is y for y in ast.walk(st)):
                            used = True
                        elif isinstance(x, ast.Attribute) and x.attr == st.name:
                            used = True
                        elif isinstance(x, ast.Constant) and x.value == st.name:
                            used = True
                    if used:
                        break
                if not used and not any(isinstance(b, ast.ClassDef) for b in st.body):
                    m.tree.body.remove(st)
                    dropped.append(m.name + '.' + st.name)
        if dropped:
            self.report['dropped_classes'] = dropped
            self.prog.reindex()

    def _drop_unreferenced(self, cands):
        prog = self.prog
        refs, arefs = {}, {}
        for m in prog.modules.values():
            for x in ast.walk(m.tree):
                if isinstance(x, ast.Attribute):
                    refs[x.attr] = refs.get(x.attr, 0) + 1
                    arefs[x.attr] = arefs.get(x.attr, 0) + 1
                elif isinstance(x, ast.Name) and isinstance(x.ctx, ast.Load):
                    refs[x.id] = refs.get(x.id, 0) + 1
                elif isinstance(x, ast.Constant) and isinstance(x.value, str) and x.value.isidentifier():
                    arefs[x.value] = arefs.get(x.value, 0) + 1          # getattr(obj, 'name') and the like
        dropped = []
        for q, fi in cands.items():
            # a method is reached through an attribute (or, inside its class body, by its bare name); a bare name elsewhere - the builtin
            # `reversed`, a local - is something else
            if fi.cls is not None:
                inside = sum(1 for x in ast.walk(fi.cls.node) if isinstance(x, ast.Name) and isinstance(x.ctx, ast.Load) and x.id == fi.name
                             and not any(x in ast.walk(f) for f in fi.cls.node.body if isinstance(f, (ast.FunctionDef, ast.AsyncFunctionDef))))
                unref = arefs.get(fi.name, 0) == 0 and inside == 0
            else:
                unref = refs.get(fi.name, 0) == 0
            if unref:
                holder = fi.cls.node if fi.cls is not None else fi.module.tree
                if fi.node in holder.body:
                    holder.body.remove(fi.node)
                    if not holder.body:
                        holder.body.append(ast.Pass())
                    dropped.append(q)
        self.report['dropped_definitions'] = dropped
