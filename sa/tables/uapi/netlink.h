/* SPDX-License-Identifier: GPL-2.0 WITH Linux-syscall-note */
#ifndef __LINUX_NETLINK_H
#define __LINUX_NETLINK_H

#include <linux/const.h>
#include <linux/socket.h> /* for __kernel_sa_family_t */
#include <linux/types.h>

#define NETLINK_ROUTE		0	/* Routing/device hook				*/
#define NETLINK_UNUSED		1	/* Unused number				*/
#define NETLINK_USERSOCK	2	/* Reserved for user mode socket protocols 	*/
#define NETLINK_FIREWALL	3	/* Unused number, formerly ip_queue		*/
#define NETLINK_SOCK_DIAG	4	/* socket monitoring				*/
#define NETLINK_NFLOG		5	/* netfilter/iptables ULOG */
#define NETLINK_XFRM		6	/* ipsec */
#define NETLINK_SELINUX		7	/* SELinux event notifications */
#define NETLINK_ISCSI		8	/* Open-iSCSI */
#define NETLINK_AUDIT		9	/* auditing */
#define NETLINK_FIB_LOOKUP	10	
#define NETLINK_CONNECTOR	11
#define NETLINK_NETFILTER	12	/* netfilter subsystem */
#define NETLINK_IP6_FW		13
#define NETLINK_DNRTMSG		14	/* DECnet routing messages (obsolete) */
#define NETLINK_KOBJECT_UEVENT	15	/* Kernel messages to userspace */
#define NETLINK_GENERIC		16
/* leave room for NETLINK_DM (DM Events) */
#define NETLINK_SCSITRANSPORT	18	/* SCSI Transports */
#define NETLINK_ECRYPTFS	19
#define NETLINK_RDMA		20
#define NETLINK_CRYPTO		21	/* Crypto layer */
#define NETLINK_SMC		22	/* SMC monitoring */

#define NETLINK_INET_DIAG	NETLINK_SOCK_DIAG

#define MAX_LINKS 32		

struct sockaddr_nl {
	__kernel_sa_family_t	nl_family;	/* AF_NETLINK	*/
	unsigned short	nl_pad;		/* zero		*/
	__u32		nl_pid;		/* port ID	*/
       	__u32		nl_groups;	/* multicast groups mask */
};

/**
 * struct nlmsghdr - fixed format metadata header of Netlink messages
 * @nlmsg_len:   Length of message including header
 * @nlmsg_type:  Message content type
 * @nlmsg_flags: Additional flags
 * @nlmsg_seq:   Sequence number
 * @nlmsg_pid:   Sending process port ID
 */
struct nlmsghdr {
	__u32		nlmsg_len;
	__u16		nlmsg_type;
	__u16		nlmsg_flags;
	__u32		nlmsg_seq;
	__u32		nlmsg_pid;
};

/* Flags values */

#define NLM_F_REQUEST		0x01	/* It is request message. 	*/
#define NLM_F_MULTI		0x02	/* Multipart message, terminated by NLMSG_DONE */
#define NLM_F_ACK		0x04	/* Reply with ack, with zero or error code */
#define NLM_F_ECHO		0x08	/* Receive resulting notifications */
#define NLM_F_DUMP_INTR		0x10	/* Dump was inconsistent due to sequence change */
#define NLM_F_DUMP_FILTERED	0x20	/* Dump was filtered as requested */

/* Modifiers to GET request */
#define NLM_F_ROOT	0x100	/* specify tree	root	*/
#define NLM_F_MATCH	0x200	/* return all matching	*/
#define NLM_F_ATOMIC	0x400	/* atomic GET		*/
#define NLM_F_DUMP	(NLM_F_ROOT|NLM_F_MATCH)

/* Modifiers to NEW request */
#define NLM_F_REPLACE	0x100	/* Override existing		*/
#define NLM_F_EXCL	0x200	/* Do not touch, if it exists	*/
#define NLM_F_CREATE	0x400	/* Create, if it does not exist	*/
#define NLM_F_APPEND	0x800	/* Add to end of list		*/

/* Modifiers to DELETE request */
#define NLM_F_NONREC	0x100	/* Do not delete recursively	*/
#define NLM_F_BULK	0x200	/* Delete multiple objects	*/

/* Flags for ACK message */
#define NLM_F_CAPPED	0x100	/* request was capped */
#define NLM_F_ACK_TLVS	0x200	/* extended ACK TVLs were included */

/*
   4.4BSD ADD		NLM_F_CREATE|NLM_F_EXCL
   4.4BSD CHANGE	NLM_F_REPLACE

   True CHANGE		NLM_F_CREATE|NLM_F_REPLACE
   Append		NLM_F_CREATE
   Check		NLM_F_EXCL
 */

#define NLMSG_ALIGNTO	4U
#define NLMSG_ALIGN(len) ( ((len)+NLMSG_ALIGNTO-1) & ~(NLMSG_ALIGNTO-1) )
#define NLMSG_HDRLEN	 ((int) NLMSG_ALIGN(sizeof(struct nlmsghdr)))
#define NLMSG_LENGTH(len) ((len) + NLMSG_HDRLEN)
#define NLMSG_SPACE(len) NLMSG_ALIGN(NLMSG_LENGTH(len))
#define NLMSG_DATA(nlh)  ((void *)(((char *)nlh) + NLMSG_HDRLEN))
#define NLMSG_NEXT(nlh,len)	 ((len) -= NLMSG_ALIGN((nlh)->nlmsg_len), \
				  (struct nlmsghdr *)(((char *)(nlh)) + \
				  NLMSG_ALIGN((nlh)->nlmsg_len)))
#define NLMSG_OK(nlh,len) ((len) >= (int)sizeof(struct nlmsghdr) && \
			   (nlh)->nlmsg_len >= sizeof(struct nlmsghdr) && \
			   (nlh)->nlmsg_len <= (len))
#define NLMSG_PAYLOAD(nlh,len) ((nlh)->nlmsg_len - NLMSG_SPACE((len)))

#define NLMSG_NOOP		0x1	/* Nothing.		*/
#define NLMSG_ERROR		0x2	/* Error		*/
#define NLMSG_DONE		0x3	/* End of a dump	*/
#define NLMSG_OVERRUN		0x4	/* Data lost		*/

#define NLMSG_MIN_TYPE		0x10	/* < 0x10: reserved control messages */

struct nlmsgerr {
	int		error;
	struct nlmsghdr msg;
	/*
	 * followed by the message contents unless NETLINK_CAP_ACK was set
	 * or the ACK indicates success (error == 0)
	 * message length is aligned with NLMSG_ALIGN()
	 */
	/*
	 * followed by TLVs defined in enum nlmsgerr_attrs
	 * if NETLINK_EXT_ACK was set
	 */
};

/**
 * enum nlmsgerr_attrs - nlmsgerr attributes
 * @NLMSGERR_ATTR_UNUSED: unused
 * @NLMSGERR_ATTR_MSG: error message string (string)
 * @NLMSGERR_ATTR_OFFS: offset of the invalid attribute in the original
 *	 message, counting from the beginning of the header (u32)
 * @NLMSGERR_ATTR_COOKIE: arbitrary subsystem specific cookie to
 *	be used - in the success case - to identify a created
 *	object or operation or similar (binary)
 * @NLMSGERR_ATTR_POLICY: policy for a rejected attribute
 * @NLMSGERR_ATTR_MISS_TYPE: type of a missing required attribute,
 *	%NLMSGERR_ATTR_MISS_NEST will not be present if the attribute was
 *	missing at the message level
 * @NLMSGERR_ATTR_MISS_NEST: offset of the nest where attribute was missing
 * @__NLMSGERR_ATTR_MAX: number of attributes
 * @NLMSGERR_ATTR_MAX: highest attribute number
 */
enum nlmsgerr_attrs {
	NLMSGERR_ATTR_UNUSED,
	NLMSGERR_ATTR_MSG,
	NLMSGERR_ATTR_OFFS,
	NLMSGERR_ATTR_COOKIE,
	NLMSGERR_ATTR_POLICY,
	NLMSGERR_ATTR_MISS_TYPE,
	NLMSGERR_ATTR_MISS_NEST,

	__NLMSGERR_ATTR_MAX,
	NLMSGERR_ATTR_MAX = __NLMSGERR_ATTR_MAX - 1
};

#define NETLINK_ADD_MEMBERSHIP		1
#define NETLINK_DROP_MEMBERSHIP		2
#define NETLINK_PKTINFO			3
#define NETLINK_BROADCAST_ERROR		4
#define NETLINK_NO_ENOBUFS		5
#define NETLINK_RX_RING			6
#define NETLINK_TX_RING			7
#define NETLINK_LISTEN_ALL_NSID		8
#define NETLINK_LIST_MEMBERSHIPS	9
#define NETLINK_CAP_ACK			10
#define NETLINK_EXT_ACK			11
#define NETLINK_GET_STRICT_CHK		12

struct nl_pktinfo {
	__u32	group;
};

struct nl_mmap_req {
	unsigned int	nm_block_size;
	unsigned int	nm_block_nr;
	unsigned int	nm_frame_size;
	unsigned int	nm_frame_nr;
};

struct nl_mmap_hdr {
	unsigned int	nm_status;
	unsigned int	nm_len;
	__u32		nm_group;
	/* credentials */
	__u32		nm_pid;
	__u32		nm_uid;
	__u32		nm_gid;
};

enum nl_mmap_status {
	NL_MMAP_STATUS_UNUSED,
	NL_MMAP_STATUS_RESERVED,
	NL_MMAP_STATUS_VALID,
	NL_MMAP_STATUS_COPY,
	NL_MMAP_STATUS_SKIP,
};

#define NL_MMAP_MSG_ALIGNMENT		NLMSG_ALIGNTO
#define NL_MMAP_MSG_ALIGN(sz)		__ALIGN_KERNEL(sz, NL_MMAP_MSG_ALIGNMENT)
#define NL_MMAP_HDRLEN			NL_MMAP_MSG_ALIGN(sizeof(struct nl_mmap_hdr))

#define NET_MAJOR 36		/* Major 36 is reserved for networking 						*/

enum {
	NETLINK_UNCONNECTED = 0,
	NETLINK_CONNECTED,
};

/*
 *  <------- NLA_HDRLEN ------> <-- NLA_ALIGN(payload)-->
 * +---------------------+- - -+- - - - - - - - - -+- - -+
 * |        Header       | Pad |     Payload       | Pad |
 * |   (struct nlattr)   | ing |                   | ing |
 * +---------------------+- - -+- - - - - - - - - -+- - -+
 *  <-------------- nlattr->nla_len -------------->
 */

struct nlattr {
	__u16           nla_len;
	__u16           nla_type;
};

/*
 * nla_type (16 bits)
 * +---+---+-------------------------------+
 * | N | O | Attribute Type                |
 * +---+---+-------------------------------+
 * N := Carries nested attributes
 * O := Payload stored in network byte order
 *
 * Note: The N and O flag are mutually exclusive.
 */
#define NLA_F_NESTED		(1 << 15)
#define NLA_F_NET_BYTEORDER	(1 << 14)
#define NLA_TYPE_MASK		~(NLA_F_NESTED | NLA_F_NET_BYTEORDER)

#define NLA_ALIGNTO		4
#define NLA_ALIGN(len)		(((len) + NLA_ALIGNTO - 1) & ~(NLA_ALIGNTO - 1))
#define NLA_HDRLEN		((int) NLA_ALIGN(sizeof(struct nlattr)))

/* Generic 32 bitflags attribute content sent to the kernel.
 *
 * The value is a bitmap that defines the values being set
 * The selector is a bitmask that defines which value is legit
 *
 * Examples:
 *  value = 0x0, and selector = 0x1
 *  implies we are selecting bit 1 and we want to set its value to 0.
 *
 *  value = 0x2, and selector = 0x2
 *  implies we are selecting bit 2 and we want to set its value to 1.
 *
 */
struct nla_bitfield32 {
	__u32 value;
	__u32 selector;
};

/*
 * policy descriptions - it's specific to each family how this is used
 * Normally, it should be retrieved via a dump inside another attribute
 * specifying where it applies.
 */

/**
 * enum netlink_attribute_type - type of an attribute
 * @NL_ATTR_TYPE_INVALID: unused
 * @NL_ATTR_TYPE_FLAG: flag attribute (present/not present)
 * @NL_ATTR_TYPE_U8: 8-bit unsigned attribute
 * @NL_ATTR_TYPE_U16: 16-bit unsigned attribute
 * @NL_ATTR_TYPE_U32: 32-bit unsigned attribute
 * @NL_ATTR_TYPE_U64: 64-bit unsigned attribute
 * @NL_ATTR_TYPE_S8: 8-bit signed attribute
 * @NL_ATTR_TYPE_S16: 16-bit signed attribute
 * @NL_ATTR_TYPE_S32: 32-bit signed attribute
 * @NL_ATTR_TYPE_S64: 64-bit signed attribute
 * @NL_ATTR_TYPE_BINARY: binary data, min/max length may be specified
 * @NL_ATTR_TYPE_STRING: string, min/max length may be specified
 * @NL_ATTR_TYPE_NUL_STRING: NUL-terminated string,
 *	min/max length may be specified
 * @NL_ATTR_TYPE_NESTED: nested, i.e. the content of this attribute
 *	consists of sub-attributes. The nested policy and maxtype
 *	inside may be specified.
 * @NL_ATTR_TYPE_NESTED_ARRAY: nested array, i.e. the content of this
 *	attribute contains sub-attributes whose type is irrelevant
 *	(just used to separate the array entries) and each such array
 *	entry has attributes again, the policy for those inner ones
 *	and the corresponding maxtype may be specified.
 * @NL_ATTR_TYPE_BITFIELD32: &struct nla_bitfield32 attribute
 */
enum netlink_attribute_type {
	NL_ATTR_TYPE_INVALID,

	NL_ATTR_TYPE_FLAG,

	NL_ATTR_TYPE_U8,
	NL_ATTR_TYPE_U16,
	NL_ATTR_TYPE_U32,
	NL_ATTR_TYPE_U64,

	NL_ATTR_TYPE_S8,
	NL_ATTR_TYPE_S16,
	NL_ATTR_TYPE_S32,
	NL_ATTR_TYPE_S64,

	NL_ATTR_TYPE_BINARY,
	NL_ATTR_TYPE_STRING,
	NL_ATTR_TYPE_NUL_STRING,

	NL_ATTR_TYPE_NESTED,
	NL_ATTR_TYPE_NESTED_ARRAY,

	NL_ATTR_TYPE_BITFIELD32,
};

/**
 * enum netlink_policy_type_attr - policy type attributes
 * @NL_POLICY_TYPE_ATTR_UNSPEC: unused
 * @NL_POLICY_TYPE_ATTR_TYPE: type of the attribute,
 *	&enum netlink_attribute_type (U32)
 * @NL_POLICY_TYPE_ATTR_MIN_VALUE_S: minimum value for signed
 *	integers (S64)
 * @NL_POLICY_TYPE_ATTR_MAX_VALUE_S: maximum value for signed
 *	integers (S64)
 * @NL_POLICY_TYPE_ATTR_MIN_VALUE_U: minimum value for unsigned
 *	integers (U64)
 * @NL_POLICY_TYPE_ATTR_MAX_VALUE_U: maximum value for unsigned
 *	integers (U64)
 * @NL_POLICY_TYPE_ATTR_MIN_LENGTH: minimum length for binary
 *	attributes, no minimum if not given (U32)
 * @NL_POLICY_TYPE_ATTR_MAX_LENGTH: maximum length for binary
 *	attributes, no maximum if not given (U32)
 * @NL_POLICY_TYPE_ATTR_POLICY_IDX: sub policy for nested and
 *	nested array types (U32)
 * @NL_POLICY_TYPE_ATTR_POLICY_MAXTYPE: maximum sub policy
 *	attribute for nested and nested array types, this can
 *	in theory be < the size of the policy pointed to by
 *	the index, if limited inside the nesting (U32)
 * @NL_POLICY_TYPE_ATTR_BITFIELD32_MASK: valid mask for the
 *	bitfield32 type (U32)
 * @NL_POLICY_TYPE_ATTR_MASK: mask of valid bits for unsigned integers (U64)
 * @NL_POLICY_TYPE_ATTR_PAD: pad attribute for 64-bit alignment
 *
 * @__NL_POLICY_TYPE_ATTR_MAX: number of attributes
 * @NL_POLICY_TYPE_ATTR_MAX: highest attribute number
 */
enum netlink_policy_type_attr {
	NL_POLICY_TYPE_ATTR_UNSPEC,
	NL_POLICY_TYPE_ATTR_TYPE,
	NL_POLICY_TYPE_ATTR_MIN_VALUE_S,
	NL_POLICY_TYPE_ATTR_MAX_VALUE_S,
	NL_POLICY_TYPE_ATTR_MIN_VALUE_U,
	NL_POLICY_TYPE_ATTR_MAX_VALUE_U,
	NL_POLICY_TYPE_ATTR_MIN_LENGTH,
	NL_POLICY_TYPE_ATTR_MAX_LENGTH,
	NL_POLICY_TYPE_ATTR_POLICY_IDX,
	NL_POLICY_TYPE_ATTR_POLICY_MAXTYPE,
	NL_POLICY_TYPE_ATTR_BITFIELD32_MASK,
	NL_POLICY_TYPE_ATTR_PAD,
	NL_POLICY_TYPE_ATTR_MASK,

	/* keep last */
	__NL_POLICY_TYPE_ATTR_MAX,
	NL_POLICY_TYPE_ATTR_MAX = __NL_POLICY_TYPE_ATTR_MAX - 1
};

#endif /* __LINUX_NETLINK_H */
