/* SPDX-License-Identifier: GPL-2.0 WITH Linux-syscall-note */
#ifndef _LINUX_XFRM_H
#define _LINUX_XFRM_H

#include <linux/in6.h>
#include <linux/types.h>

/* All of the structures in this file may not change size as they are
 * passed into the kernel from userspace via netlink sockets.
 */

/* Structure to encapsulate addresses. I do not want to use
 * "standard" structure. My apologies.
 */
typedef union {
	__be32		a4;
	__be32		a6[4];
	struct in6_addr	in6;
} xfrm_address_t;

/* Ident of a specific xfrm_state. It is used on input to lookup
 * the state by (spi,daddr,ah/esp) or to store information about
 * spi, protocol and tunnel address on output.
 */
struct xfrm_id {
	xfrm_address_t	daddr;
	__be32		spi;
	__u8		proto;
};

struct xfrm_sec_ctx {
	__u8	ctx_doi;
	__u8	ctx_alg;
	__u16	ctx_len;
	__u32	ctx_sid;
	char	ctx_str[];
};

/* Security Context Domains of Interpretation */
#define XFRM_SC_DOI_RESERVED 0
#define XFRM_SC_DOI_LSM 1

/* Security Context Algorithms */
#define XFRM_SC_ALG_RESERVED 0
#define XFRM_SC_ALG_SELINUX 1

/* Selector, used as selector both on policy rules (SPD) and SAs. */

struct xfrm_selector {
	xfrm_address_t	daddr;
	xfrm_address_t	saddr;
	__be16	dport;
	__be16	dport_mask;
	__be16	sport;
	__be16	sport_mask;
	__u16	family;
	__u8	prefixlen_d;
	__u8	prefixlen_s;
	__u8	proto;
	int	ifindex;
	__kernel_uid32_t	user;
};

#define XFRM_INF (~(__u64)0)

struct xfrm_lifetime_cfg {
	__u64	soft_byte_limit;
	__u64	hard_byte_limit;
	__u64	soft_packet_limit;
	__u64	hard_packet_limit;
	__u64	soft_add_expires_seconds;
	__u64	hard_add_expires_seconds;
	__u64	soft_use_expires_seconds;
	__u64	hard_use_expires_seconds;
};

struct xfrm_lifetime_cur {
	__u64	bytes;
	__u64	packets;
	__u64	add_time;
	__u64	use_time;
};

struct xfrm_replay_state {
	__u32	oseq;
	__u32	seq;
	__u32	bitmap;
};

#define XFRMA_REPLAY_ESN_MAX	4096

struct xfrm_replay_state_esn {
	unsigned int	bmp_len;
	__u32		oseq;
	__u32		seq;
	__u32		oseq_hi;
	__u32		seq_hi;
	__u32		replay_window;
	__u32		bmp[];
};

struct xfrm_algo {
	char		alg_name[64];
	unsigned int	alg_key_len;    /* in bits */
	char		alg_key[];
};

struct xfrm_algo_auth {
	char		alg_name[64];
	unsigned int	alg_key_len;    /* in bits */
	unsigned int	alg_trunc_len;  /* in bits */
	char		alg_key[];
};

struct xfrm_algo_aead {
	char		alg_name[64];
	unsigned int	alg_key_len;	/* in bits */
	unsigned int	alg_icv_len;	/* in bits */
	char		alg_key[];
};

struct xfrm_stats {
	__u32	replay_window;
	__u32	replay;
	__u32	integrity_failed;
};

enum {
	XFRM_POLICY_TYPE_MAIN	= 0,
	XFRM_POLICY_TYPE_SUB	= 1,
	XFRM_POLICY_TYPE_MAX	= 2,
	XFRM_POLICY_TYPE_ANY	= 255
};

enum {
	XFRM_POLICY_IN	= 0,
	XFRM_POLICY_OUT	= 1,
	XFRM_POLICY_FWD	= 2,
	XFRM_POLICY_MASK = 3,
	XFRM_POLICY_MAX	= 3
};

enum {
	XFRM_SHARE_ANY,		/* No limitations */
	XFRM_SHARE_SESSION,	/* For this session only */
	XFRM_SHARE_USER,	/* For this user only */
	XFRM_SHARE_UNIQUE	/* Use once */
};

#define XFRM_MODE_TRANSPORT 0
#define XFRM_MODE_TUNNEL 1
#define XFRM_MODE_ROUTEOPTIMIZATION 2
#define XFRM_MODE_IN_TRIGGER 3
#define XFRM_MODE_BEET 4
#define XFRM_MODE_MAX 5

/* Netlink configuration messages.  */
enum {
	XFRM_MSG_BASE = 0x10,

	XFRM_MSG_NEWSA = 0x10,
#define XFRM_MSG_NEWSA XFRM_MSG_NEWSA
	XFRM_MSG_DELSA,
#define XFRM_MSG_DELSA XFRM_MSG_DELSA
	XFRM_MSG_GETSA,
#define XFRM_MSG_GETSA XFRM_MSG_GETSA

	XFRM_MSG_NEWPOLICY,
#define XFRM_MSG_NEWPOLICY XFRM_MSG_NEWPOLICY
	XFRM_MSG_DELPOLICY,
#define XFRM_MSG_DELPOLICY XFRM_MSG_DELPOLICY
	XFRM_MSG_GETPOLICY,
#define XFRM_MSG_GETPOLICY XFRM_MSG_GETPOLICY

	XFRM_MSG_ALLOCSPI,
#define XFRM_MSG_ALLOCSPI XFRM_MSG_ALLOCSPI
	XFRM_MSG_ACQUIRE,
#define XFRM_MSG_ACQUIRE XFRM_MSG_ACQUIRE
	XFRM_MSG_EXPIRE,
#define XFRM_MSG_EXPIRE XFRM_MSG_EXPIRE

	XFRM_MSG_UPDPOLICY,
#define XFRM_MSG_UPDPOLICY XFRM_MSG_UPDPOLICY
	XFRM_MSG_UPDSA,
#define XFRM_MSG_UPDSA XFRM_MSG_UPDSA

	XFRM_MSG_POLEXPIRE,
#define XFRM_MSG_POLEXPIRE XFRM_MSG_POLEXPIRE

	XFRM_MSG_FLUSHSA,
#define XFRM_MSG_FLUSHSA XFRM_MSG_FLUSHSA
	XFRM_MSG_FLUSHPOLICY,
#define XFRM_MSG_FLUSHPOLICY XFRM_MSG_FLUSHPOLICY

	XFRM_MSG_NEWAE,
#define XFRM_MSG_NEWAE XFRM_MSG_NEWAE
	XFRM_MSG_GETAE,
#define XFRM_MSG_GETAE XFRM_MSG_GETAE

	XFRM_MSG_REPORT,
#define XFRM_MSG_REPORT XFRM_MSG_REPORT

	XFRM_MSG_MIGRATE,
#define XFRM_MSG_MIGRATE XFRM_MSG_MIGRATE

	XFRM_MSG_NEWSADINFO,
#define XFRM_MSG_NEWSADINFO XFRM_MSG_NEWSADINFO
	XFRM_MSG_GETSADINFO,
#define XFRM_MSG_GETSADINFO XFRM_MSG_GETSADINFO

	XFRM_MSG_NEWSPDINFO,
#define XFRM_MSG_NEWSPDINFO XFRM_MSG_NEWSPDINFO
	XFRM_MSG_GETSPDINFO,
#define XFRM_MSG_GETSPDINFO XFRM_MSG_GETSPDINFO

	XFRM_MSG_MAPPING,
#define XFRM_MSG_MAPPING XFRM_MSG_MAPPING

	XFRM_MSG_SETDEFAULT,
#define XFRM_MSG_SETDEFAULT XFRM_MSG_SETDEFAULT
	XFRM_MSG_GETDEFAULT,
#define XFRM_MSG_GETDEFAULT XFRM_MSG_GETDEFAULT
	__XFRM_MSG_MAX
};
#define XFRM_MSG_MAX (__XFRM_MSG_MAX - 1)

#define XFRM_NR_MSGTYPES (XFRM_MSG_MAX + 1 - XFRM_MSG_BASE)

/*
 * Generic LSM security context for comunicating to user space
 * NOTE: Same format as sadb_x_sec_ctx
 */
struct xfrm_user_sec_ctx {
	__u16			len;
	__u16			exttype;
	__u8			ctx_alg;  /* LSMs: e.g., selinux == 1 */
	__u8			ctx_doi;
	__u16			ctx_len;
};

struct xfrm_user_tmpl {
	struct xfrm_id		id;
	__u16			family;
	xfrm_address_t		saddr;
	__u32			reqid;
	__u8			mode;
	__u8			share;
	__u8			optional;
	__u32			aalgos;
	__u32			ealgos;
	__u32			calgos;
};

struct xfrm_encap_tmpl {
	__u16		encap_type;
	__be16		encap_sport;
	__be16		encap_dport;
	xfrm_address_t	encap_oa;
};

/* AEVENT flags  */
enum xfrm_ae_ftype_t {
	XFRM_AE_UNSPEC,
	XFRM_AE_RTHR=1,	/* replay threshold*/
	XFRM_AE_RVAL=2, /* replay value */
	XFRM_AE_LVAL=4, /* lifetime value */
	XFRM_AE_ETHR=8, /* expiry timer threshold */
	XFRM_AE_CR=16, /* Event cause is replay update */
	XFRM_AE_CE=32, /* Event cause is timer expiry */
	XFRM_AE_CU=64, /* Event cause is policy update */
	__XFRM_AE_MAX

#define XFRM_AE_MAX (__XFRM_AE_MAX - 1)
};

struct xfrm_userpolicy_type {
	__u8		type;
	__u16		reserved1;
	__u8		reserved2;
};

/* Netlink message attributes.  */
enum xfrm_attr_type_t {
	XFRMA_UNSPEC,
	XFRMA_ALG_AUTH,		/* struct xfrm_algo */
	XFRMA_ALG_CRYPT,	/* struct xfrm_algo */
	XFRMA_ALG_COMP,		/* struct xfrm_algo */
	XFRMA_ENCAP,		/* struct xfrm_algo + struct xfrm_encap_tmpl */
	XFRMA_TMPL,		/* 1 or more struct xfrm_user_tmpl */
	XFRMA_SA,		/* struct xfrm_usersa_info  */
	XFRMA_POLICY,		/*struct xfrm_userpolicy_info */
	XFRMA_SEC_CTX,		/* struct xfrm_sec_ctx */
	XFRMA_LTIME_VAL,
	XFRMA_REPLAY_VAL,
	XFRMA_REPLAY_THRESH,
	XFRMA_ETIMER_THRESH,
	XFRMA_SRCADDR,		/* xfrm_address_t */
	XFRMA_COADDR,		/* xfrm_address_t */
	XFRMA_LASTUSED,		/* __u64 */
	XFRMA_POLICY_TYPE,	/* struct xfrm_userpolicy_type */
	XFRMA_MIGRATE,
	XFRMA_ALG_AEAD,		/* struct xfrm_algo_aead */
	XFRMA_KMADDRESS,        /* struct xfrm_user_kmaddress */
	XFRMA_ALG_AUTH_TRUNC,	/* struct xfrm_algo_auth */
	XFRMA_MARK,		/* struct xfrm_mark */
	XFRMA_TFCPAD,		/* __u32 */
	XFRMA_REPLAY_ESN_VAL,	/* struct xfrm_replay_state_esn */
	XFRMA_SA_EXTRA_FLAGS,	/* __u32 */
	XFRMA_PROTO,		/* __u8 */
	XFRMA_ADDRESS_FILTER,	/* struct xfrm_address_filter */
	XFRMA_PAD,
	XFRMA_OFFLOAD_DEV,	/* struct xfrm_user_offload */
	XFRMA_SET_MARK,		/* __u32 */
	XFRMA_SET_MARK_MASK,	/* __u32 */
	XFRMA_IF_ID,		/* __u32 */
	XFRMA_MTIMER_THRESH,	/* __u32 in seconds for input SA */
	__XFRMA_MAX

#define XFRMA_OUTPUT_MARK XFRMA_SET_MARK	/* Compatibility */
#define XFRMA_MAX (__XFRMA_MAX - 1)
};

struct xfrm_mark {
	__u32           v; /* value */
	__u32           m; /* mask */
};

enum xfrm_sadattr_type_t {
	XFRMA_SAD_UNSPEC,
	XFRMA_SAD_CNT,
	XFRMA_SAD_HINFO,
	__XFRMA_SAD_MAX

#define XFRMA_SAD_MAX (__XFRMA_SAD_MAX - 1)
};

struct xfrmu_sadhinfo {
	__u32 sadhcnt; /* current hash bkts */
	__u32 sadhmcnt; /* max allowed hash bkts */
};

enum xfrm_spdattr_type_t {
	XFRMA_SPD_UNSPEC,
	XFRMA_SPD_INFO,
	XFRMA_SPD_HINFO,
	XFRMA_SPD_IPV4_HTHRESH,
	XFRMA_SPD_IPV6_HTHRESH,
	__XFRMA_SPD_MAX

#define XFRMA_SPD_MAX (__XFRMA_SPD_MAX - 1)
};

struct xfrmu_spdinfo {
	__u32 incnt;
	__u32 outcnt;
	__u32 fwdcnt;
	__u32 inscnt;
	__u32 outscnt;
	__u32 fwdscnt;
};

struct xfrmu_spdhinfo {
	__u32 spdhcnt;
	__u32 spdhmcnt;
};

struct xfrmu_spdhthresh {
	__u8 lbits;
	__u8 rbits;
};

struct xfrm_usersa_info {
	struct xfrm_selector		sel;
	struct xfrm_id			id;
	xfrm_address_t			saddr;
	struct xfrm_lifetime_cfg	lft;
	struct xfrm_lifetime_cur	curlft;
	struct xfrm_stats		stats;
	__u32				seq;
	__u32				reqid;
	__u16				family;
	__u8				mode;		/* XFRM_MODE_xxx */
	__u8				replay_window;
	__u8				flags;
#define XFRM_STATE_NOECN	1
#define XFRM_STATE_DECAP_DSCP	2
#define XFRM_STATE_NOPMTUDISC	4
#define XFRM_STATE_WILDRECV	8
#define XFRM_STATE_ICMP		16
#define XFRM_STATE_AF_UNSPEC	32
#define XFRM_STATE_ALIGN4	64
#define XFRM_STATE_ESN		128
};

#define XFRM_SA_XFLAG_DONT_ENCAP_DSCP	1
#define XFRM_SA_XFLAG_OSEQ_MAY_WRAP	2

struct xfrm_usersa_id {
	xfrm_address_t			daddr;
	__be32				spi;
	__u16				family;
	__u8				proto;
};

struct xfrm_aevent_id {
	struct xfrm_usersa_id		sa_id;
	xfrm_address_t			saddr;
	__u32				flags;
	__u32				reqid;
};

struct xfrm_userspi_info {
	struct xfrm_usersa_info		info;
	__u32				min;
	__u32				max;
};

struct xfrm_userpolicy_info {
	struct xfrm_selector		sel;
	struct xfrm_lifetime_cfg	lft;
	struct xfrm_lifetime_cur	curlft;
	__u32				priority;
	__u32				index;
	__u8				dir;
	__u8				action;
#define XFRM_POLICY_ALLOW	0
#define XFRM_POLICY_BLOCK	1
	__u8				flags;
#define XFRM_POLICY_LOCALOK	1	/* Allow user to override global policy */
	/* Automatically expand selector to include matching ICMP payloads. */
#define XFRM_POLICY_ICMP	2
	__u8				share;
};

struct xfrm_userpolicy_id {
	struct xfrm_selector		sel;
	__u32				index;
	__u8				dir;
};

struct xfrm_user_acquire {
	struct xfrm_id			id;
	xfrm_address_t			saddr;
	struct xfrm_selector		sel;
	struct xfrm_userpolicy_info	policy;
	__u32				aalgos;
	__u32				ealgos;
	__u32				calgos;
	__u32				seq;
};

struct xfrm_user_expire {
	struct xfrm_usersa_info		state;
	__u8				hard;
};

struct xfrm_user_polexpire {
	struct xfrm_userpolicy_info	pol;
	__u8				hard;
};

struct xfrm_usersa_flush {
	__u8				proto;
};

struct xfrm_user_report {
	__u8				proto;
	struct xfrm_selector		sel;
};

/* Used by MIGRATE to pass addresses IKE should use to perform
 * SA negotiation with the peer */
struct xfrm_user_kmaddress {
	xfrm_address_t                  local;
	xfrm_address_t                  remote;
	__u32				reserved;
	__u16				family;
};

struct xfrm_user_migrate {
	xfrm_address_t			old_daddr;
	xfrm_address_t			old_saddr;
	xfrm_address_t			new_daddr;
	xfrm_address_t			new_saddr;
	__u8				proto;
	__u8				mode;
	__u16				reserved;
	__u32				reqid;
	__u16				old_family;
	__u16				new_family;
};

struct xfrm_user_mapping {
	struct xfrm_usersa_id		id;
	__u32				reqid;
	xfrm_address_t			old_saddr;
	xfrm_address_t			new_saddr;
	__be16				old_sport;
	__be16				new_sport;
};

struct xfrm_address_filter {
	xfrm_address_t			saddr;
	xfrm_address_t			daddr;
	__u16				family;
	__u8				splen;
	__u8				dplen;
};

struct xfrm_user_offload {
	int				ifindex;
	__u8				flags;
};
/* This flag was exposed without any kernel code that supports it.
 * Unfortunately, strongswan has the code that sets this flag,
 * which makes it impossible to reuse this bit.
 *
 * So leave it here to make sure that it won't be reused by mistake.
 */
#define XFRM_OFFLOAD_IPV6	1
#define XFRM_OFFLOAD_INBOUND	2

struct xfrm_userpolicy_default {
#define XFRM_USERPOLICY_UNSPEC	0
#define XFRM_USERPOLICY_BLOCK	1
#define XFRM_USERPOLICY_ACCEPT	2
	__u8				in;
	__u8				fwd;
	__u8				out;
};

/* backwards compatibility for userspace */
#define XFRMGRP_ACQUIRE		1
#define XFRMGRP_EXPIRE		2
#define XFRMGRP_SA		4
#define XFRMGRP_POLICY		8
#define XFRMGRP_REPORT		0x20

enum xfrm_nlgroups {
	XFRMNLGRP_NONE,
#define XFRMNLGRP_NONE		XFRMNLGRP_NONE
	XFRMNLGRP_ACQUIRE,
#define XFRMNLGRP_ACQUIRE	XFRMNLGRP_ACQUIRE
	XFRMNLGRP_EXPIRE,
#define XFRMNLGRP_EXPIRE	XFRMNLGRP_EXPIRE
	XFRMNLGRP_SA,
#define XFRMNLGRP_SA		XFRMNLGRP_SA
	XFRMNLGRP_POLICY,
#define XFRMNLGRP_POLICY	XFRMNLGRP_POLICY
	XFRMNLGRP_AEVENTS,
#define XFRMNLGRP_AEVENTS	XFRMNLGRP_AEVENTS
	XFRMNLGRP_REPORT,
#define XFRMNLGRP_REPORT	XFRMNLGRP_REPORT
	XFRMNLGRP_MIGRATE,
#define XFRMNLGRP_MIGRATE	XFRMNLGRP_MIGRATE
	XFRMNLGRP_MAPPING,
#define XFRMNLGRP_MAPPING	XFRMNLGRP_MAPPING
	__XFRMNLGRP_MAX
};
#define XFRMNLGRP_MAX	(__XFRMNLGRP_MAX - 1)

#endif /* _LINUX_XFRM_H */
