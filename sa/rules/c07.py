"""C07 - Encrypted payloads round-trip and every modification is detected.

E1 (A6+A7) sender and verifier compute integrity.compute(SK_a, D[:-ICV]) over the same D: the complete
         datagram from the first octet of the IKE header; on the sender after the length field was
         patched; same key attribute, same truncation; the ICV is written over the placeholder that ends
         the SK payload, which is the last payload; the verifier compares with D[-ICV:].
E2 (A4)  compare-then-raise before decrypt (shared with C03/U1).
E3 (A11) padding: the pad-length expression is evaluated by the checker's interpreter for every plaintext
         length modulo the block size: whole blocks, 0 <= padlen <= block-1, and the removal in decrypt is
         its inverse; IV / ciphertext / ICV slicing agree on both sides; same key attribute.
E4 (A5)  after IKE_SA_INIT everything travels inside the SK payload: the three conditionals of the two
         generators are complementary, nobody else constructs a Message, to_bytes appends exactly one SK.
E5       messages are generated under my_crypto and verified under peer_crypto.
E6       ICV lengths and integrity key sizes per transform (12/16/32; 20/32/64).
"""
import ast

from ..model import src, walk_no_nested
from ..sval import NONE, const, norm_pc, same, strip_ids
from ..terms import calls_in
from .. import tq
from . import common

EXPLANATION = ('static analysis: term extraction of the MAC input on the sending and verifying side and comparison after '
               'normalisation, ordering of length patch / MAC / ICV write, finite-abstraction evaluation of the padding '
               'arithmetic for every length modulo the block size, slicing agreement, and clear-text discipline of the '
               'message generators (who-may-construct)')
ASSUMPTIONS = [
    'HMAC and AES-CBC are correct and the MAC is collision resistant (trusted); that every modification is detected is a '
    'consequence of MAC coverage, which is what is decided here',
    'the TestMessage.test_encrypted 8-octet-key oddity is a test artefact, not a code path of the daemon',
]


def attr(t, n):
    return ('attr', t, n)


SELF = ('param', 'self')


def swap_crypto(t, frm, to):
    """term with the keys object `frm` replaced by `to`"""
    if t == frm:
        return to
    if isinstance(t, tuple):
        return tuple(swap_crypto(x, frm, to) for x in t)
    return t


def icv_table(ctx, rule):
    """the ICV appended to (and compared at the end of) every protected message has the length RFC 7296 3.14 / RFC 2404 / RFC 4868
    give for the negotiated integrity transform: 96 bits of HMAC-SHA1, 128 of HMAC-SHA2-256, 256 of HMAC-SHA2-512"""
    prog = ctx.prog
    integ = prog.cls('crypto.Integrity')
    d = integ.lookup_attr('_digestmod_dict')
    ctx.require(isinstance(d, ast.Dict), 'anchor vanished: Integrity._digestmod_dict')
    have = {}
    for k, v in zip(d.keys, d.values):
        kid = prog.const_eval(k, integ.module, integ)
        if isinstance(v, ast.Tuple) and len(v.elts) == 2:
            have[int(kid)] = (src(v.elts[0]), prog.const_eval(v.elts[1], integ.module, integ))
    want = {2: ('hashlib.sha1', 96), 12: ('hashlib.sha256', 128), 14: ('hashlib.sha512', 256)}
    for k, v in want.items():
        ctx.check(have.get(k) == v, rule, 'integrity transform %d uses %s with a %d-bit ICV' % (k, v[0], v[1]),
                  key=(rule, 'table', k), site='crypto.py:%s' % d.lineno, detail={'found': have.get(k)})
    hs = ctx.func('crypto.Integrity.hash_size')
    ks = ctx.func('crypto.Integrity.key_size')
    common.expect_term(ctx, rule, ctx.sval(hs), ctx.sval(hs).ret(), 'self.keybits // 8', 'ICV length = bits // 8', (rule, 'hash-size'),
                       ctx.site(hs, hs.node))
    ctx.check(common.digest_size_table(ctx, ks) == {'sha1': 20, 'sha256': 32, 'sha512': 64}, rule, 'integrity key size = digest size',
              key=(rule, 'key-size'), site=ctx.site(ks, ks.node), detail={'found': common.digest_size_table(ctx, ks)})
    ii = ctx.func('crypto.Integrity.__init__')
    II = ctx.sval(ii)
    tr = ii.call_params()[0]
    ctx.check(same(II.final('self.hasher') or NONE, II.expr('self._digestmod_dict[%s.id][0]' % tr)) and
              same(II.final('self.keybits') or NONE, II.expr('self._digestmod_dict[%s.id][1]' % tr)), rule,
              'Integrity takes (digest, ICV bits) of the negotiated transform', key=(rule, 'init'), site=ctx.site(ii, ii.node))


def run(ctx):
    prog, res = ctx.prog, ctx.res
    esc = ctx.escape('engine', kills=common.engine_kills(ctx))

    # ---------------------------------------------------------------- E1 / E2 verifier
    macs = common.mac_check(ctx, esc)
    ctx.check(len(macs) == 1, 'E2', 'Message.parse compares the received checksum with integrity.compute(...)',
              key=('E2', 'no-mac-comparison'))
    if len(macs) != 1:
        return
    parse, g, mac, passing, computed, received = macs[0]
    PV = ctx.sval(parse)
    dparam = parse.call_params()[0]
    failing = 'T' if passing == 'F' else 'F'
    fn = [m for lab, m in mac.succ if lab == failing]
    ctx.check(bool(fn) and all(m.kind == 'stmt' and isinstance(m.ast, ast.Raise) for m in fn) and all(
        esc.hier.is_sub(e, 'IkeSaError') for m in fn for e in (m.raises or {'?': 1})), 'E2',
        'a checksum mismatch raises a protocol error', key=('E2', 'mismatch'), site=ctx.site(parse, mac.ast))
    macterm = PV.terms[id(mac.ast)]
    macpos = macterm[1] if macterm[0] == 'not' else macterm
    for c in PV.calls_to(qual='message.PayloadSK.decrypt'):
        ctx.check(tq.entails(c.pc, macpos) is True, 'E2', 'decryption runs only after the comparison passed',
                  key=('E2', 'decrypt-dominated'), site=ctx.site(parse, c.node))
    vkeys = ('param', 'crypto')
    vwant = PV.expr('crypto.integrity.compute(crypto.sk_a, %s[:-crypto.integrity.hash_size])' % dparam)
    ctx.check(same(computed, vwant), 'E1', 'verifier: MAC = integrity.compute(SK_a, datagram[:-ICV]) over the datagram as received',
              key=('E1', 'verifier-term'), site=ctx.site(parse, mac.ast), detail={'found': tq.text(computed)})
    ctx.check(same(received, PV.expr('%s[-crypto.integrity.hash_size:]' % dparam)), 'E1',
              'verifier: compared with the last ICV octets of the datagram', key=('E1', 'verifier-received'), site=ctx.site(parse, mac.ast),
              detail={'found': tq.text(received)})

    # ---------------------------------------------------------------- E1 sender
    tb = ctx.func('message.Message.to_bytes')
    T = ctx.sval(tb)
    site = ctx.site(tb, tb.node)
    skeys = attr(SELF, 'crypto')
    has_keys = norm_pc(((T.expr('self.crypto is not None'), True),))
    comp = T.calls_to(qual='crypto.Integrity.compute')
    ctx.check(len(comp) == 1, 'E1', 'sender: Message.to_bytes computes one MAC', key=('E1', 'sender-compute'), site=site)
    if len(comp) == 1:
        c = comp[0]
        D = T.ret()
        ctx.check(same(c.term, swap_crypto(strip_ids(vwant), vkeys, skeys)[:2] + (attr(skeys, 'integrity'),) + (
            (('key', attr(skeys, 'sk_a')), ('data', ('slice', strip_ids(D), NONE, ('un', 'USub', attr(attr(skeys, 'integrity'), 'hash_size')), NONE))),)),
            'E1', 'sender: MAC = integrity.compute(SK_a, message[:-ICV]) over the buffer that is returned - the same key attribute and '
            'truncation as the verifier', key=('E1', 'sender-term'), site=ctx.site(tb, c.node), detail={'found': tq.text(c.term, 300)})
        ctx.check(strip_ids(c.pc) == strip_ids(has_keys), 'E1', 'sender: the MAC is computed iff keys are set', key=('E1', 'mac-iff-keys'),
                  site=ctx.site(tb, c.node))
        parts = list(D[1]) if D[0] == 'add' else []
        ctx.check(len(parts) == 2, 'E1', 'sender: the MACed buffer is header | payloads', key=('E1', 'sender-buffer'), site=site,
                  detail={'found': tq.text(D, 300)})
        if len(parts) == 2:
            head = parts[0]
            if tq.is_call(head, 'builtins.bytearray'):
                head = list(tq.args(head).values())[0]
            ha = list(tq.args(head).values()) if tq.is_call(head, 'struct.pack') else []
            ctx.check(len(ha) >= 2 and ha[0] == const('>8s8s4B2L') and ha[1] == attr(SELF, 'spi_i'), 'E1',
                      'sender: the buffer starts with the 28-octet IKE header (from the initiator SPI)', key=('E1', 'sender-header'), site=site)
            pl = tq.args(parts[1]).get('payloads') if tq.is_call(parts[1], 'message.Message._payloads_to_bytes') else None
            ctx.check(pl is not None, 'E1', 'sender: followed by the serialised payload list', key=('E1', 'sender-payloads'), site=site)
            # SK payload is last and ends with the placeholder
            ok = pl is not None and pl[0] == 'list' and len(pl[1]) == 2 and pl[1][0] == ('star', attr(SELF, 'payloads')) \
                and pl[1][1][0] == 'when' and strip_ids(pl[1][1][1]) == strip_ids(has_keys)
            if ok:
                sk = pl[1][1][2]
                ok = tq.is_call(sk, 'message.PayloadSK.generate') and same(tq.args(sk).get('cleartext', NONE), T.expr(
                    'self._payloads_to_bytes(self.encrypted_payloads)')) and tq.args(sk).get('iv') == attr(SELF, 'iv') \
                    and tq.args(sk).get('crypto') == skeys
            ctx.check(ok, 'E1', 'sender: exactly one SK payload, generated from the serialisation of encrypted_payloads with the message '
                      'IV and keys, is appended last, iff keys are set', key=('E1', 'sk-last'), site=site,
                      detail={'payload list': tq.text(pl, 400) if pl is not None else None})
        pis = T.calls_to(callee='struct.pack_into')
        patches = [x for x in pis if list(x.args.values())[:1] == [const('>L')] and len(x.args) == 4 and
                   list(x.args.values())[1] == D and list(x.args.values())[2] == const(24) and
                   same(list(x.args.values())[3], ('call', 'builtins.len', NONE, (('#0', D),)))]
        from .c05 import header_length_form
        form = header_length_form(T, D)
        ctx.check(form is not None and (form[0] == 'direct' or form[1].seq < c.seq), 'E1',
                  'sender: the total length is in the header (offset 24) before the MAC is computed',
                  key=('E1', 'length-before-mac'), site=ctx.site(tb, c.node))
        icvw = [x for x in pis if x not in patches]
        ok = len(icvw) == 1
        if ok:
            a = list(icvw[0].args.values())
            LEN = lambda t: ('call', 'builtins.len', NONE, (('#0', t),))   # noqa: E731
            ok = len(a) == 4 and a[1] == D and a[3] == c.term and icvw[0].seq > c.seq and \
                strip_ids(a[2]) == strip_ids(('bin', '-', LEN(D), LEN(c.term)))
            fmt = a[0] if len(a) == 4 else NONE
            # '>{0}s'.format(len(mac)) - an f-string is read as this form (sa.desugar)
            ok = ok and tq.is_call(fmt, 'method.format') and tq.recv(fmt) == const('>{0}s') \
                and [strip_ids(x) for x in tq.args(fmt).values()] == [strip_ids(LEN(c.term))]
            ok = ok and strip_ids(icvw[0].pc) == strip_ids(has_keys)
        ctx.check(ok, 'E1', 'sender: the MAC is written over the last len(MAC) octets of the message', key=('E1', 'icv-write'),
                  site=ctx.site(tb, c.node))
        ctx.check(len(T.returns) == 1, 'E1', 'sender: the MACed buffer is what is returned', key=('E1', 'returns-buffer'), site=site)
    gen = ctx.func('message.PayloadSK.generate')
    G = ctx.sval(gen)
    clear, ivp, cryp = gen.call_params()[:3]
    r = G.ret()
    body = tq.args(r).get('ciphertext') if tq.is_call(r, 'new message.PayloadSK') else None
    bparts = list(body[1]) if body is not None and body[0] == 'add' else []
    enc = bparts[1] if len(bparts) == 3 else NONE
    ok = len(bparts) == 3 and bparts[0] == ('param', ivp) and tq.is_call(enc, 'crypto.Cipher.encrypt') and \
        strip_ids(bparts[2]) in (strip_ids(G.expr("b'\\x00' * %s.integrity.hash_size" % cryp)),)
    ctx.check(ok, 'E1', 'the SK body is IV | ciphertext | ICV-sized placeholder', key=('E1', 'sk-body'), site=ctx.site(gen, gen.node),
              detail={'body': tq.text(body, 400) if body is not None else None})
    ic = ctx.func('crypto.Integrity.compute')
    IC = ctx.sval(ic)
    ps = ic.call_params()
    common.expect_term(ctx, 'E1', IC, IC.ret(), 'HMAC(%s, %s, digestmod=self.hasher).digest()[:self.hash_size]' % (ps[0], ps[1]),
                       'Integrity.compute = HMAC(key, data) truncated to hash_size', ('E1', 'compute'), ctx.site(ic, ic.node))

    # ---------------------------------------------------------------- E3
    ea = tq.args(enc) if tq.is_call(enc, 'crypto.Cipher.encrypt') else {}
    data = ea.get('data', NONE)
    if tq.is_call(data, 'builtins.bytes'):
        data = list(tq.args(data).values())[0]
    dp = list(data[1]) if data[0] == 'add' else []
    pad = None
    if len(dp) == 3 and dp[0] == ('param', clear) and dp[1][0] == 'bin' and dp[1][1] == '*' and const(b'\x00') in dp[1][2:] \
            and tq.is_call(dp[2], 'struct.pack') and list(tq.args(dp[2]).values())[0] == const('>B'):
        n1 = [x for x in dp[1][2:] if x != const(b'\x00')][0]
        n2 = list(tq.args(dp[2]).values())[1]
        if strip_ids(n1) == strip_ids(n2):
            pad = n1
    ctx.check(pad is not None, 'E3', 'the plaintext is followed by padlen pad octets and one Pad Length octet holding the same padlen',
              key=('E3', 'pad-append'), site=ctx.site(gen, gen.node), detail={'encrypted data': tq.text(data, 400)})
    ncase = 0
    bad = None
    if pad is not None:
        for B in (8, 16):
            for n in range(0, 3 * B + 1):
                def leaf(t, B=B, n=n):
                    if t == ('param', clear):
                        return (0,) * n
                    if strip_ids(t) == attr(attr(('param', cryp), 'cipher'), 'block_size'):
                        return B
                    raise tq.NoValue()
                try:
                    v = tq.teval(pad, leaf)
                except (tq.NoValue, Exception):
                    v = None
                ncase += 1
                if not (isinstance(v, int) and 0 <= v <= B - 1 and (n + v + 1) % B == 0) and bad is None:
                    bad = (B, n, v)
        ctx.check(bad is None, 'E3', 'padding: for every plaintext length modulo the block size (8 and 16) the padded length is a '
                  'whole number of blocks and 0 <= padlen <= block-1 (%d cases)' % ncase, key=('E3', 'pad-arith'),
                  site=ctx.site(gen, gen.node), detail={'block,len,padlen': bad, 'padlen': tq.text(pad)})
    ctx.check(ea.get('key') == attr(('param', cryp), 'sk_e') and same(ea.get('iv', NONE), G.expr('bytes(%s)' % ivp)) and
              enc[2] == attr(('param', cryp), 'cipher') if tq.is_call(enc) else False, 'E3',
              'the padded plaintext is encrypted under SK_e with the message IV', key=('E3', 'encrypt-args'), site=ctx.site(gen, gen.node))
    dec = ctx.func('message.PayloadSK.decrypt')
    DV = ctx.sval(dec)
    dc = dec.call_params()[0]
    r = DV.ret()
    B_ = '%s.cipher.block_size' % dc
    ivw = DV.expr('self.ciphertext[:%s]' % B_)
    plain = DV.expr('%s.cipher.decrypt(%s.sk_e, bytes(self.ciphertext[:%s]), bytes(self.ciphertext[%s:-%s.integrity.hash_size]))' % (
        dc, dc, B_, B_, dc))
    ok = r[0] == 'tuple' and len(r[1]) == 2 and same(r[1][0], ivw)
    ctx.check(ok and tq.contains(r[1][1], plain), 'E3', 'decrypt slices IV = first block, ciphertext = up to the ICV, and decrypts under SK_e '
              'with the received IV', key=('E3', 'slicing'), site=ctx.site(dec, dec.node), detail={'returned': tq.text(r, 500)})
    ok = ok and r[1][1][0] == 'slice' and same(r[1][1][1], plain) and r[1][1][2] == NONE and r[1][1][4] == NONE
    if ok:
        up = r[1][1][3]
        for p_ in range(0, 16):
            def leaf(t, p_=p_):
                if strip_ids(t) == ('index', strip_ids(plain), const(-1)):
                    return p_
                raise tq.NoValue()
            try:
                ok = ok and tq.teval(up, leaf) == -(p_ + 1)
            except (tq.NoValue, Exception):
                ok = False
    ctx.check(ok, 'E3', 'unpadding removes the Pad Length octet and exactly padlen pad octets (inverse of generate)',
              key=('E3', 'unpad'), site=ctx.site(dec, dec.node))
    bs = ctx.func('crypto.Cipher.block_size')
    BS = ctx.sval(bs)
    common.expect_term(ctx, 'E3', BS, BS.ret(), 'self._algorithm.block_size // 8', 'block_size is the cipher block size in octets',
                       ('E3', 'block-size'), ctx.site(bs, bs.node))
    giv = ctx.func('crypto.Cipher.generate_iv')
    GI = ctx.sval(giv)
    common.expect_term(ctx, 'E3', GI, GI.ret(), 'os.urandom(self.block_size)', 'the IV is one random block', ('E3', 'iv'), ctx.site(giv, giv.node))

    # "round-trip": what the sender's to_bytes produced is accepted - Message.parse refuses a protected message only for a header that
    # does not unpack or a checksum that does not match; any further refusal (a minimum length that assumes a block-sized ICV ...) must
    # be unsatisfiable (shared with C05 W5)
    from .c05 import parse_refusals
    parse_refusals(ctx, 'E3')
    # ---------------------------------------------------------------- E4 / E5
    for name in ('generate_request', 'generate_response'):
        fi = ctx.func('ikesa.IkeSa.' + name)
        F = ctx.sval(fi)
        ps = fi.call_params()
        ctors = F.calls_to(callee='new message.Message')
        ctx.require(len(ctors) == 1, 'anchor vanished: Message(...) in %s' % name)
        b = ctors[0].args
        ex, pl = ('param', ps[0]), ('param', ps[1])
        is_init = tq.eq_decider(ex, ('global', 'message.Message.Exchange.IKE_SA_INIT'), True)
        not_init = tq.eq_decider(ex, ('global', 'message.Message.Exchange.IKE_SA_INIT'), False)
        empty = ('list', ())

        def split(t):
            return (strip_ids(tq.restrict(t, is_init)), strip_ids(tq.restrict(t, not_init))) if t is not None else (None, None)
        ctx.check(split(b.get('payloads')) == (pl, empty), 'E4', '%s: clear payloads only for IKE_SA_INIT' % name,
                  key=('E4', name, 'payloads'), site=ctx.site(fi, ctors[0].node), detail={'found': tq.text(b.get('payloads', NONE))})
        ctx.check(split(b.get('encrypted_payloads')) == (empty, pl), 'E4', '%s: all payloads inside SK for every other exchange' % name,
                  key=('E4', name, 'encrypted_payloads'), site=ctx.site(fi, ctors[0].node),
                  detail={'found': tq.text(b.get('encrypted_payloads', NONE))})
        ctx.check(split(b.get('crypto')) == (NONE, attr(SELF, 'my_crypto')), 'E5',
                  '%s: protected under my_crypto for every exchange but IKE_SA_INIT' % name, key=('E5', name, 'crypto'),
                  site=ctx.site(fi, ctors[0].node), detail={'found': tq.text(b.get('crypto', NONE))})
    allowed = {'ikesa.IkeSa.generate_request', 'ikesa.IkeSa.generate_response'}
    outside = []
    for fi in prog.all_functions():
        if fi.module.name == 'message':
            continue
        for c in calls_in(fi.node):
            r = res.resolve_call(c, fi, count=False)
            if r.kind == 'ctor' and r.cls is not None and r.cls.qual == 'message.Message' and fi.qual not in allowed:
                outside.append(fi.qual)
    ctx.check(not outside, 'E4', 'outside message.py, Message objects are constructed only by generate_request/generate_response',
              key=('E4', 'who-constructs', ','.join(sorted(outside))))
    pm = ctx.func('ikesa.IkeSa.process_message')
    PM = ctx.sval(pm)
    pcs = PM.calls_to(qual='message.Message.parse')
    ctx.check(len(pcs) == 1 and pcs[0].args.get('crypto') == attr(SELF, 'peer_crypto'), 'E5',
              'received messages are verified under peer_crypto', key=('E5', 'verify-keys'), site=ctx.site(pm, pm.node))

    # ---------------------------------------------------------------- E6
    icv_table(ctx, 'E6')


MANIFEST = {
    'level': 'Static decision that the MAC covers the same octets on both sides: sender and verifier terms are extracted and '
             'compared after normalisation (integrity.compute(SK_a, datagram[:-ICV]) over the buffer that starts with the '
             '28-octet header, computed after the length patch, written over the placeholder that ends the last payload; '
             'verifier compares with datagram[-ICV:] and raises before decrypting); the padding expression is evaluated by the '
             'checker\'s interpreter for every plaintext length modulo 8 and 16 (whole blocks, 0<=padlen<=block-1, unpad is the '
             'inverse); IV/ciphertext slicing and key attributes agree; the two message generators put every payload inside '
             'SK and use my_crypto for all exchanges but IKE_SA_INIT, and nobody else constructs a Message; ICV/key size tables.',
    'note': 'Trusted: HMAC/AES-CBC correctness and MAC collision resistance. Declined: tamper detection as a runtime fact; '
            'behaviour under every key.',
    'technique': 'value-term extraction and sibling comparison + ordering of recorded effects + finite-abstraction evaluation of padding arithmetic',
    'design_ref': 'DESIGN.md 3/C07',
}
MANIFEST['note'] += (' Also decided here (necessary conditions shared between properties or added after the independent '
                     'change rounds, DESIGN.md 8.7): Rounds 7-8: Message.parse refuses a genuine message for nothing but header / checksum (from C05).')
