"""C07 - Encrypted payloads round-trip and every modification is detected.

E1 (A6+A7) sender and verifier compute integrity.compute(SK_a, D[:-ICV]) over the same D: the complete
         datagram from the first octet of the IKE header; on the sender after the length field was
         patched; same key attribute, same truncation; the ICV is written over the placeholder that ends
         the SK payload, which is the last payload; the verifier compares with D[-ICV:].
E2 (A4)  compare-then-raise before decrypt (shared with C03/U1).
E3 (A11) padding: the pad-length expression is evaluated by the checker's interpreter for every plaintext
         length modulo the block size: whole blocks, 0 <= padlen <= block-1, and the removal in decrypt is
         its inverse; IV / ciphertext / ICV slicing agree on both sides; same key attribute.
E4 (A5)  after IKE_SA_INIT everything travels inside the SK payload: the three conditionals of the two
         generators are complementary, nobody else constructs a Message, to_bytes appends exactly one SK.
E5       messages are generated under my_crypto and verified under peer_crypto.
E6       ICV lengths and integrity key sizes per transform (12/16/32; 20/32/64).
"""
import ast

from ..finite import Interp
from ..model import src, walk_no_nested
from ..terms import callee_name, calls_in, compare_parts, flatten_add, inline, kwargs_of, single_def
from . import common

EXPLANATION = ('static analysis: term extraction of the MAC input on the sending and verifying side and comparison after '
               'normalisation, ordering of length patch / MAC / ICV write, finite-abstraction evaluation of the padding '
               'arithmetic for every length modulo the block size, slicing agreement, and clear-text discipline of the '
               'message generators (who-may-construct)')
ASSUMPTIONS = [
    'HMAC and AES-CBC are correct and the MAC is collision resistant (trusted); that every modification is detected is a '
    'consequence of MAC coverage, which is what is decided here',
    'the TestMessage.test_encrypted 8-octet-key oddity is a test artefact, not a code path of the daemon',
]


def norm_crypto(t):
    return t.replace('self.crypto.', 'crypto.')


def run(ctx):
    prog, res = ctx.prog, ctx.res
    esc = ctx.escape('engine', kills=common.engine_kills(ctx))

    # ---------------------------------------------------------------- E1 / E2 verifier
    macs = common.mac_check(ctx, esc)
    ctx.check(len(macs) == 1, 'E2', 'Message.parse compares the received checksum with integrity.compute(...)',
              key=('E2', 'no-mac-comparison'))
    if len(macs) != 1:
        return
    parse, g, mac, passing, computed, received = macs[0]
    dparam = parse.call_params()[0]
    failing = 'T' if passing == 'F' else 'F'
    fn = [m for lab, m in mac.succ if lab == failing]
    ctx.check(bool(fn) and all(m.kind == 'stmt' and isinstance(m.ast, ast.Raise) for m in fn) and all(
        esc.hier.is_sub(e, 'IkeSaError') for m in fn for e in (m.raises or {'?': 1})), 'E2',
        'a checksum mismatch raises a protocol error', key=('E2', 'mismatch'), site=ctx.site(parse, mac.ast))
    for n, x in common.nodes_calling(ctx, parse, g, common.calls_named('decrypt')):
        ctx.check(common.dominated_by_edge(g, n, mac, passing), 'E2', 'decryption runs only after the comparison passed',
                  key=('E2', 'decrypt-dominated'), site=ctx.site(parse, x))
    vcall = [x for x in ast.walk(computed) if isinstance(x, ast.Call) and callee_name(x) == 'compute'][0]
    v_args = [src(a) for a in vcall.args]
    ctx.check(src(vcall.func.value) == 'crypto.integrity' and v_args == ['crypto.sk_a', '%s[:-crypto.integrity.hash_size]' % dparam]
              and src(computed) == src(vcall), 'E1', 'verifier: MAC = integrity.compute(SK_a, datagram[:-ICV]) over the datagram as received',
              key=('E1', 'verifier-term'), site=ctx.site(parse, mac.ast), detail={'found': src(computed)})
    ctx.check(src(received) == '%s[-crypto.integrity.hash_size:]' % dparam, 'E1', 'verifier: compared with the last ICV octets of the datagram',
              key=('E1', 'verifier-received'), site=ctx.site(parse, mac.ast), detail={'found': src(received)})
    reassigned = [n for n in walk_no_nested(parse.node) if isinstance(n, (ast.Assign, ast.AugAssign)) and any(
        src(t) == dparam for t in (n.targets if isinstance(n, ast.Assign) else [n.target]))]
    ctx.check(not reassigned, 'E1', 'verifier: the datagram is not altered before the MAC is computed', key=('E1', 'verifier-data'),
              site=ctx.site(parse, parse.node))

    # ---------------------------------------------------------------- E1 sender
    tb = ctx.func('message.Message.to_bytes')
    gt = esc.add_exception_edges(tb)
    comp = [(n, x) for n, x in common.nodes_calling(ctx, tb, gt, common.calls_named('compute'))]
    ctx.check(len(comp) == 1, 'E1', 'sender: Message.to_bytes computes one MAC', key=('E1', 'sender-compute'), site=ctx.site(tb, tb.node))
    if len(comp) == 1:
        cn, cx = comp[0]
        s_args = [norm_crypto(src(a)) for a in cx.args]
        dvar = cx.args[1].value.id if len(cx.args) == 2 and isinstance(cx.args[1], ast.Subscript) and isinstance(
            cx.args[1].value, ast.Name) else None
        ctx.check(norm_crypto(src(cx.func.value)) == 'crypto.integrity' and dvar is not None and s_args == [
            'crypto.sk_a', '%s[:-crypto.integrity.hash_size]' % dvar], 'E1',
            'sender: MAC = integrity.compute(SK_a, message[:-ICV]) - the same key attribute and truncation as the verifier',
            key=('E1', 'sender-term'), site=ctx.site(tb, cx), detail={'found': src(cx)})
        if dvar:
            d = single_def(res, tb, dvar)
            ops = [src(o) for o in flatten_add(d)] if isinstance(d, ast.AST) else []
            ctx.check(len(ops) == 2, 'E1', 'sender: the MACed buffer is header | payloads', key=('E1', 'sender-buffer'),
                      site=ctx.site(tb, cx), detail={'found': ops})
            hd = single_def(res, tb, ops[0]) if len(ops) == 2 else None
            pk = [c for c in calls_in(hd) if callee_name(c) == 'pack'] if isinstance(hd, ast.AST) else []
            ok = len(pk) == 1 and isinstance(pk[0].args[0], ast.Constant) and pk[0].args[0].value == '>8s8s4B2L' \
                and src(pk[0].args[1]) == 'self.spi_i'
            ctx.check(ok, 'E1', 'sender: the buffer starts with the 28-octet IKE header (from the initiator SPI)',
                      key=('E1', 'sender-header'), site=ctx.site(tb, cx))
            pd = single_def(res, tb, ops[1]) if len(ops) == 2 else None
            pl = pd.args[0] if isinstance(pd, ast.Call) and callee_name(pd) == '_payloads_to_bytes' and pd.args else None
            ctx.check(pl is not None, 'E1', 'sender: followed by the serialised payload list', key=('E1', 'sender-payloads'),
                      site=ctx.site(tb, cx))
            # length patch dominates the MAC; ICV written at the end
            patches = []
            icvw = []
            for n, x in common.nodes_calling(ctx, tb, gt, common.calls_named('pack_into')):
                a = [src(z) for z in x.args]
                if len(a) == 4 and a[0] == "'>L'" and a[1] == dvar and a[2] == '24' and a[3] == 'len(%s)' % dvar:
                    patches.append(n)
                elif len(a) == 4 and a[1] == dvar:
                    icvw.append((n, x))
            ctx.check(len(patches) == 1 and cn.id not in gt.reach([gt.entry], blocked_nodes=patches), 'E1',
                      'sender: the total length is patched into the header (offset 24) before the MAC is computed',
                      key=('E1', 'length-before-mac'), site=ctx.site(tb, cx))
            mv = src(cn.ast.targets[0]) if isinstance(cn.ast, ast.Assign) else None
            ok = len(icvw) == 1 and mv is not None
            if ok:
                n, x = icvw[0]
                a = [src(z) for z in x.args]
                ok = a[2] == 'len(%s) - len(%s)' % (dvar, mv) and a[3] == mv and n.id in gt.reach([cn]) \
                    and src(x.args[0]) in ("f'>{len(%s)}s'" % mv,)
            ctx.check(ok, 'E1', 'sender: the MAC is written over the last len(MAC) octets of the message', key=('E1', 'icv-write'),
                      site=ctx.site(tb, cx))
            rets = [n for n in gt.nodes if n.kind == 'stmt' and isinstance(n.ast, ast.Return)]
            ctx.check(len(rets) == 1 and src(rets[0].ast.value) == dvar, 'E1', 'sender: the MACed buffer is what is returned',
                      key=('E1', 'returns-buffer'), site=ctx.site(tb, tb.node))
            # SK payload is last and ends with the placeholder
            sk_app = [(n, x) for n, x in common.nodes_calling(ctx, tb, gt, common.calls_named('append'))]
            ok = len(sk_app) == 1 and pl is not None and src(sk_app[0][1].func.value) == src(pl)
            if ok:
                skv = src(sk_app[0][1].args[0])
                d2 = single_def(res, tb, skv)
                ok = isinstance(d2, ast.Call) and callee_name(d2) == 'generate' and src(d2.func.value) == 'PayloadSK'
                lst = single_def(res, tb, src(pl))
                ok = ok and isinstance(lst, ast.AST) and src(lst) == 'self.payloads[:]'
                conds = [c for c in gt.nodes if c.kind == 'cond' and src(c.ast) == 'self.crypto is not None']
                ok = ok and any(common.dominated_by_edge(gt, sk_app[0][0], c, 'T') for c in conds) \
                    and any(common.dominated_by_edge(gt, cn, c, 'T') for c in conds)
            ctx.check(ok, 'E1', 'sender: exactly one SK payload is appended last, iff keys are set, and the MAC is computed iff keys are set',
                      key=('E1', 'sk-last'), site=ctx.site(tb, tb.node))
    gen = ctx.func('message.PayloadSK.generate')
    rets = [n for n in walk_no_nested(gen.node) if isinstance(n, ast.Return)]
    ok = len(rets) == 1 and isinstance(rets[0].value, ast.Call) and callee_name(rets[0].value) == 'PayloadSK'
    if ok:
        ops = [src(o) for o in flatten_add(rets[0].value.args[0])]
        ok = len(ops) == 3 and ops[0] == 'iv' and ops[2] in ("b'\\x00' * crypto.integrity.hash_size",) \
            and isinstance(single_def(res, gen, ops[1]), ast.Call) and callee_name(single_def(res, gen, ops[1])) == 'encrypt'
    ctx.check(ok, 'E1', 'the SK body is IV | ciphertext | ICV-sized placeholder', key=('E1', 'sk-body'), site=ctx.site(gen, gen.node))
    ic = ctx.func('crypto.Integrity.compute')
    rets = [n for n in walk_no_nested(ic.node) if isinstance(n, ast.Return)]
    ok = len(rets) == 1
    if ok:
        e = inline(res, ic, rets[0].value, 3)
        ps = ic.call_params()
        ok = src(e) == 'HMAC(%s, %s, digestmod=self.hasher).digest()[:self.hash_size]' % (ps[0], ps[1])
    ctx.check(ok, 'E1', 'Integrity.compute = HMAC(key, data) truncated to hash_size', key=('E1', 'compute'), site=ctx.site(ic, ic.node))

    # ---------------------------------------------------------------- E3
    pd = single_def(res, gen, 'padlen')
    ctx.check(isinstance(pd, ast.AST), 'E3', 'PayloadSK.generate computes a pad length', key=('E3', 'padlen'), site=ctx.site(gen, gen.node))
    ncase = 0
    bad = None
    if isinstance(pd, ast.AST):
        clear = gen.call_params()[0]
        for B in (8, 16):
            for n in range(0, 3 * B + 1):
                v = Interp(prog, gen, {'crypto.cipher.block_size': B, clear: (0,) * n}).ev(pd)
                ncase += 1
                if not (isinstance(v, int) and 0 <= v <= B - 1 and (n + v + 1) % B == 0) and bad is None:
                    bad = (B, n, v)
        ctx.check(bad is None, 'E3', 'padding: for every plaintext length modulo the block size (8 and 16) the padded length is a '
                  'whole number of blocks and 0 <= padlen <= block-1 (%d cases)' % ncase, key=('E3', 'pad-arith'),
                  site=ctx.site(gen, gen.node), detail={'block,len,padlen': bad})
        aug = [n for n in walk_no_nested(gen.node) if isinstance(n, ast.AugAssign) and src(n.target) == clear]
        ok = len(aug) == 1 and isinstance(aug[0].op, ast.Add)
        if ok:
            ops = flatten_add(aug[0].value)
            ok = len(ops) == 2 and src(ops[0]) == "b'\\x00' * padlen" and src(ops[1]) == "pack('>B', padlen)"
        ctx.check(ok, 'E3', 'the plaintext is followed by padlen pad octets and one Pad Length octet', key=('E3', 'pad-append'),
                  site=ctx.site(gen, gen.node))
        enc = [c for c in calls_in(gen.node) if callee_name(c) == 'encrypt']
        ctx.check(len(enc) == 1 and [src(a) for a in enc[0].args] == ['crypto.sk_e', 'bytes(iv)', 'bytes(%s)' % clear], 'E3',
                  'the padded plaintext is encrypted under SK_e with the message IV', key=('E3', 'encrypt-args'), site=ctx.site(gen, gen.node))
    dec = ctx.func('message.PayloadSK.decrypt')
    ivd = single_def(res, dec, 'iv')
    ctd = single_def(res, dec, 'ciphertext')
    ctx.check(isinstance(ivd, ast.AST) and src(ivd) == 'self.ciphertext[:crypto.cipher.block_size]' and isinstance(ctd, ast.AST)
              and src(ctd) == 'self.ciphertext[crypto.cipher.block_size:-crypto.integrity.hash_size]', 'E3',
              'decrypt slices IV = first block, ciphertext = up to the ICV', key=('E3', 'slicing'), site=ctx.site(dec, dec.node))
    dcall = [c for c in calls_in(dec.node) if callee_name(c) == 'decrypt']
    ctx.check(len(dcall) == 1 and [src(a) for a in dcall[0].args] == ['crypto.sk_e', 'bytes(iv)', 'bytes(ciphertext)'], 'E3',
              'decryption uses SK_e and the received IV', key=('E3', 'decrypt-args'), site=ctx.site(dec, dec.node))
    pl = single_def(res, dec, 'padlen')
    rets = [n for n in walk_no_nested(dec.node) if isinstance(n, ast.Return)]
    ok = isinstance(pl, ast.AST) and len(rets) == 1 and isinstance(rets[0].value, ast.Tuple) and len(rets[0].value.elts) == 2
    if ok:
        buf = src(pl.value) if isinstance(pl, ast.Subscript) else None
        ok = buf is not None and src(pl) == buf + '[-1]' and src(rets[0].value.elts[0]) == 'iv'
        body = rets[0].value.elts[1]
        ok = ok and isinstance(body, ast.Subscript) and src(body.value) == buf and isinstance(body.slice, ast.Slice) \
            and body.slice.lower is None and body.slice.upper is not None
        if ok:
            for p in range(0, 16):
                up = Interp(prog, dec, {'padlen': p}).ev(body.slice.upper)
                ok = ok and up == -(p + 1)
    ctx.check(ok, 'E3', 'unpadding removes the Pad Length octet and exactly padlen pad octets (inverse of generate)',
              key=('E3', 'unpad'), site=ctx.site(dec, dec.node))
    ciph = prog.cls('crypto.Cipher')
    bs = ciph.lookup('block_size')
    ctx.check(bs is not None and src(bs.node.body[-1]) == 'return self._algorithm.block_size // 8', 'E3',
              'block_size is the cipher block size in octets', key=('E3', 'block-size'), site=ctx.site(bs, bs.node) if bs else None)
    giv = ctx.func('crypto.Cipher.generate_iv')
    ctx.check(src(giv.node.body[-1]) == 'return os.urandom(self.block_size)', 'E3', 'the IV is one random block',
              key=('E3', 'iv'), site=ctx.site(giv, giv.node))

    # ---------------------------------------------------------------- E4 / E5
    minit = ctx.func('message.Message.__init__')
    for name in ('generate_request', 'generate_response'):
        fi = ctx.func('ikesa.IkeSa.' + name)
        ps = fi.call_params()
        ctors = [c for c in calls_in(fi.node) if callee_name(c) == 'Message']
        ctx.require(len(ctors) == 1, 'anchor vanished: Message(...) in %s' % name)
        b = kwargs_of(ctors[0], target=minit)
        ex, pl = ps[0], ps[1]
        init = 'Message.Exchange.IKE_SA_INIT'

        def cond_is(e, then, other, positive):
            """e is `then if <ex> ==/!= INIT else other` with the given polarity (positive: then when IS init)"""
            if not isinstance(e, ast.IfExp):
                return False
            cp = compare_parts(e.test)
            if not cp or {src(cp[0]), src(cp[2])} != {ex, init}:
                return False
            is_init_then = cp[1] is ast.Eq
            if cp[1] not in (ast.Eq, ast.NotEq):
                return False
            a, bb = (src(e.body), src(e.orelse)) if is_init_then == positive else (src(e.orelse), src(e.body))
            return a == then and bb == other
        ctx.check(cond_is(b.get('payloads'), pl, '[]', True), 'E4', '%s: clear payloads only for IKE_SA_INIT' % name,
                  key=('E4', name, 'payloads'), site=ctx.site(fi, ctors[0]))
        ctx.check(cond_is(b.get('encrypted_payloads'), pl, '[]', False), 'E4', '%s: all payloads inside SK for every other exchange' % name,
                  key=('E4', name, 'encrypted_payloads'), site=ctx.site(fi, ctors[0]))
        ctx.check(cond_is(b.get('crypto'), 'self.my_crypto', 'None', False), 'E5',
                  '%s: protected under my_crypto for every exchange but IKE_SA_INIT' % name, key=('E5', name, 'crypto'),
                  site=ctx.site(fi, ctors[0]))
    allowed = {'ikesa.IkeSa.generate_request', 'ikesa.IkeSa.generate_response'}
    outside = []
    for fi in prog.all_functions():
        if fi.module.name == 'message':
            continue
        for c in calls_in(fi.node):
            r = res.resolve_call(c, fi, count=False)
            if r.kind == 'ctor' and r.cls is not None and r.cls.qual == 'message.Message' and fi.qual not in allowed:
                outside.append(fi.qual)
    ctx.check(not outside, 'E4', 'outside message.py, Message objects are constructed only by generate_request/generate_response',
              key=('E4', 'who-constructs', ','.join(sorted(outside))))
    cl = [c for c in calls_in(tb.node) if callee_name(c) == '_payloads_to_bytes']
    ctx.check(any(src(c.args[0]) == 'self.encrypted_payloads' for c in cl) and any(
        isinstance(single_def(res, tb, 'cleartext'), ast.Call) for _ in [0]), 'E4',
        'to_bytes encrypts the serialisation of encrypted_payloads', key=('E4', 'cleartext'), site=ctx.site(tb, tb.node))
    gcall = [c for c in calls_in(tb.node) if callee_name(c) == 'generate']
    ctx.check(len(gcall) == 1 and [src(a) for a in gcall[0].args] == ['cleartext', 'self.iv', 'self.crypto'], 'E4',
              'the SK payload is generated from that cleartext with the message IV and keys', key=('E4', 'generate-args'),
              site=ctx.site(tb, tb.node))
    pm = ctx.func('ikesa.IkeSa.process_message')
    pcs = [c for c in calls_in(pm.node) if callee_name(c) == 'parse']
    ctx.check(len(pcs) == 1 and any(k.arg == 'crypto' and src(k.value) == 'self.peer_crypto' for k in pcs[0].keywords), 'E5',
              'received messages are verified under peer_crypto', key=('E5', 'verify-keys'), site=ctx.site(pm, pm.node))

    # ---------------------------------------------------------------- E6
    integ = prog.cls('crypto.Integrity')
    d = integ.lookup_attr('_digestmod_dict')
    ctx.require(isinstance(d, ast.Dict), 'anchor vanished: Integrity._digestmod_dict')
    have = {}
    for k, v in zip(d.keys, d.values):
        kid = prog.const_eval(k, integ.module, integ)
        if isinstance(v, ast.Tuple) and len(v.elts) == 2:
            have[int(kid)] = (src(v.elts[0]), prog.const_eval(v.elts[1], integ.module, integ))
    want = {2: ('hashlib.sha1', 96), 12: ('hashlib.sha256', 128), 14: ('hashlib.sha512', 256)}
    for k, v in want.items():
        ctx.check(have.get(k) == v, 'E6', 'integrity transform %d uses %s with a %d-bit ICV' % (k, v[0], v[1]),
                  key=('E6', 'table', k), site='crypto.py:%s' % d.lineno, detail={'found': have.get(k)})
    hs = integ.lookup('hash_size')
    ks = integ.lookup('key_size')
    ctx.check(hs is not None and src(hs.node.body[-1]) == 'return self.keybits // 8', 'E6', 'ICV length = bits // 8',
              key=('E6', 'hash-size'), site=ctx.site(hs, hs.node) if hs else None)
    ctx.check(ks is not None and src(ks.node.body[-1]) == 'return self.hasher().digest_size', 'E6',
              'integrity key size = digest size', key=('E6', 'key-size'), site=ctx.site(ks, ks.node) if ks else None)
    ii = ctx.func('crypto.Integrity.__init__')
    ctx.check(any(isinstance(n, ast.Assign) and src(n) == 'self.hasher, self.keybits = self._digestmod_dict[transform.id]'
                  for n in walk_no_nested(ii.node)), 'E6', 'Integrity takes (digest, ICV bits) of the negotiated transform',
              key=('E6', 'init'), site=ctx.site(ii, ii.node))


MANIFEST = {
    'level': 'Static decision that the MAC covers the same octets on both sides: sender and verifier terms are extracted and '
             'compared after normalisation (integrity.compute(SK_a, datagram[:-ICV]) over the buffer that starts with the '
             '28-octet header, computed after the length patch, written over the placeholder that ends the last payload; '
             'verifier compares with datagram[-ICV:] and raises before decrypting); the padding expression is evaluated by the '
             'checker\'s interpreter for every plaintext length modulo 8 and 16 (whole blocks, 0<=padlen<=block-1, unpad is the '
             'inverse); IV/ciphertext slicing and key attributes agree; the two message generators put every payload inside '
             'SK and use my_crypto for all exchanges but IKE_SA_INIT, and nobody else constructs a Message; ICV/key size tables.',
    'note': 'Trusted: HMAC/AES-CBC correctness and MAC collision resistance. Declined: tamper detection as a runtime fact; '
            'behaviour under every key.',
    'technique': 'term extraction and sibling comparison + dominance/ordering + finite-abstraction evaluation of padding arithmetic',
    'design_ref': 'DESIGN.md 3/C07',
}
