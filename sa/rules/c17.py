"""C17 - No datagram, kernel event or send failure can stop or wedge the daemon.

V1 (A1)  no exception can leave an iteration of the event loop: from the loop head neither
         the normal nor the exceptional exit of main_loop is reachable.
V2 (A2)  every loop reachable from the loop body has a variant; the only blocking network
         wait is select() with a finite timeout and recv/recvfrom/accept run only on
         sockets reported readable; all timer readings come from one clock (a sweep with
         nothing due does nothing, however often stray datagrams make the loop pass it).
V3 (A1)  rendering a received message for the log (IkeSa.log_message reach) cannot raise,
         and no to_dict emits a raw byte string into json.dumps.
V4 (A8)  an IKE_SA registered by an event that then fails is unregistered again (shared
         with C16/D2): a failed event leaves no half-open entry behind.
"""
import ast

from ..cfg import build_cfg
from ..loops import Loops
from ..model import src, walk_no_nested
from . import common

EXPLANATION = ('static analysis: exception-escape analysis of one event-loop iteration over the whole resolved call '
               'graph (every catalogue effect routed through the enclosing handlers), loop-variant analysis of every '
               'loop reachable from the loop body, dominance of blocking socket calls by the readable test, and '
               'non-raising rendering of received messages')
ASSUMPTIONS = [
    'kernel replies to our own netlink requests are well-formed (NetlinkProtocol.send_recv reply loop has no '
    'progress fact for header.length == 0); kernel ACQUIRE/EXPIRE events are parsed without loops on them',
    'the control socket (conn.recv on a local client) is outside the property\'s quantifier',
    '"keeps serving other peers correctly" is decided only through V4 (no half-registered IKE_SA survives a '
    'failed event); the rest is behavioural and declined',
]

SEGMENT_CALLS = ['dispatch_message', 'parse_message', 'process_acquire', 'process_expire',
                 'check_retransmission_timer', 'check_dead_peer_detection_timer', 'check_rekey_ike_sa_timer']


def event_loop(ctx, fi):
    loops = [n for n in walk_no_nested(fi.node) if isinstance(n, ast.While)
             and isinstance(n.test, ast.Constant) and n.test.value is True]
    ctx.require(len(loops) == 1, 'anchor vanished: the `while True` event loop of main_loop (found %d)' % len(loops))
    return loops[0]


def run(ctx):
    prog, res = ctx.prog, ctx.res
    ml = ctx.func('ikesacontroller.IkeSaController.main_loop')
    kills = common.engine_kills(ctx)
    esc = ctx.escape('c17', kills=kills)
    g = esc.add_exception_edges(ml)
    loop = event_loop(ctx, ml)
    inside = set(id(x) for x in ast.walk(loop))
    body_nodes = [n for n in g.nodes if n.ast is not None and id(n.ast) in inside]
    head = next((h for h, l in g.loops if l is loop), None)
    ctx.require(head is not None, 'anchor vanished: CFG head of the event loop')

    # anchors: the six segments are inside the loop
    present = set()
    for n in body_nodes:
        for e in n.exprs():
            if e is None:
                continue
            for x in walk_no_nested(e):
                if isinstance(x, ast.Call) and isinstance(x.func, ast.Attribute):
                    present.add(x.func.attr)
    # segments may be called directly in the loop body or through private helpers of the controller
    reach_names = set()
    for n in body_nodes:
        for e in n.exprs():
            if e is None:
                continue
            for x in walk_no_nested(e):
                if isinstance(x, ast.Call):
                    for t in res.resolve_call(x, ml, count=False).targets:
                        if t.cls is ml.cls:
                            for q in esc.reach([t]):
                                f2 = prog.functions.get(q)
                                if f2 is not None and f2.cls is ml.cls:
                                    for y in walk_no_nested(f2.node):
                                        if isinstance(y, ast.Call) and isinstance(y.func, ast.Attribute):
                                            reach_names.add(y.func.attr)
    for name in SEGMENT_CALLS + ['recvfrom', 'sendto', 'recv']:
        ctx.require(name in present or name in reach_names, 'anchor vanished: event loop no longer calls %s' % name)
    ctx.floor('V1 CFG nodes in the event-loop body', len(body_nodes), 30)

    # ---------------------------------------------------------------- V1
    raising = 0
    nviol = 0
    for n in body_nodes:
        for exc, origins in (n.raises or {}).items():
            raising += 1
            hs, escapes = esc.route(ml, n, exc)
            if escapes:
                for origin, chain in origins.items():
                    nviol += 1
                    ctx.bad('V1', ('V1', exc, origin),
                            'event loop can be terminated by %s raised at %s (main_loop L%s: %s)' % (
                                exc, origin, n.lineno, n.text()[:60]),
                            ctx.site(ml, n.ast), {'witness': ['main_loop L%s %s' % (n.lineno, n.text()[:80])] + chain})
    ctx.floor('V1 (node, exception class) pairs raised inside the loop body', raising, 20)
    if nviol == 0:
        ctx.ok('V1', 'all %d (statement, exception class) pairs raised inside the event loop are caught inside it'
               % raising, ctx.site(ml, loop))
    reach = g.reach([head])
    ctx.check(g.xexit.id not in reach, 'V1', 'exceptional exit of main_loop unreachable from the event-loop head',
              key=('V1', 'xexit-reachable'), site=ctx.site(ml, loop))
    ctx.check(g.exit.id not in reach, 'V1', 'normal exit of main_loop unreachable from the event-loop head '
              '(no break/return leaves the loop)', key=('V1', 'exit-reachable'), site=ctx.site(ml, loop))
    # handlers of the loop's try statements fall through to the next iteration
    for n in body_nodes:
        if n.kind == 'handler':
            r = g.reach([n], follow_exc=True)
            ctx.check(head.id in r and g.xexit.id not in g.reach([n]), 'V1',
                      'handler `%s` returns to the loop head' % n.text(), key=('V1', 'handler', n.text()),
                      site=ctx.site(ml, n.ast))

    # the handlers are the last line of defence: what they raise themselves leaves main_loop.  They run after an iteration was cut
    # short at an unknown point, so every name the loop body binds holds whatever the interrupted section (or an earlier iteration)
    # left there - None, a datagram's (host, port) pair, an address object.  Formatting such a value is total; subscripting it,
    # reading an attribute of it, calling a method on it or computing with it is not.
    stored = {x.id for x in ast.walk(loop) if isinstance(x, ast.Name) and isinstance(x.ctx, (ast.Store, ast.Del))}
    nh = 0
    for t in [x for x in ast.walk(loop) if isinstance(x, ast.Try)]:
        for h in t.handlers:
            nh += 1
            own = {h.name} if h.name else set()
            own |= {x.id for st in h.body for x in ast.walk(st) if isinstance(x, ast.Name) and isinstance(x.ctx, ast.Store)}

            def base(e):
                while isinstance(e, (ast.Attribute, ast.Subscript)):
                    e = e.value
                return e.id if isinstance(e, ast.Name) else None
            for st in h.body:
                for x in ast.walk(st):
                    operand = None
                    if isinstance(x, (ast.Subscript, ast.Attribute)) and isinstance(x.ctx, ast.Load):
                        operand = x.value
                    elif isinstance(x, ast.BinOp):
                        operand = x.left if base(x.left) in stored - own else x.right
                    elif isinstance(x, ast.UnaryOp) and not isinstance(x.op, ast.Not):
                        operand = x.operand
                    elif isinstance(x, (ast.For, ast.comprehension)):
                        operand = x.iter
                    elif isinstance(x, ast.Starred):
                        operand = x.value
                    b = base(operand) if operand is not None else None
                    if b is not None and b in stored - own:
                        ctx.bad('V1', ('V1', 'handler-operates-on-loop-local', b),
                                'the handler `except %s` of the event loop computes with `%s`, which holds whatever the interrupted '
                                'iteration (or an earlier one) left in it: `%s` can raise inside the handler and end main_loop' % (
                                    src(h.type) if h.type is not None else '', b, src(x)[:60]), ctx.site(ml, x), {})
    ctx.floor('V1 handlers of the event loop', nh, 1)
    if not any(tuple(v['key'])[1:2] == ('handler-operates-on-loop-local',) for v in ctx.violations):
        ctx.ok('V1', 'the %d handler(s) of the event loop only format the values the interrupted iteration left behind' % nh, ctx.site(ml, loop))
    # the sender's address is used as it was received: the host (element 0) goes to dispatch_message, the address object itself to
    # sendto.  An AF_INET6 socket reports a 4-tuple (host, port, flowinfo, scope id): code that takes the address apart with a fixed
    # arity raises for every IPv6 datagram *after it was consumed* (the iteration - and with it the timers of every other IKE_SA -
    # ends there), and an address put together again loses the scope id
    MLV = ctx.sval(ml)
    from ..sval import strip_ids as _sid
    from .. import tq as _tq
    recvs = [c for c in MLV.calls if c.name == 'recvfrom']
    ctx.floor('V1 recvfrom in the event loop', len(recvs), 1, rule='V1')
    for rc in recvs:
        R = _sid(rc.term)
        addr = ('index', R, ('const', 'int', 1))
        disp = [c for c in MLV.calls_to(qual='ikesacontroller.IkeSaController.dispatch_message') if _tq.contains(_sid(tuple(c.args.values())), R)]
        for c in disp:
            pa = _sid(list(c.args.values())[2]) if len(c.args) > 2 else None
            ctx.check(pa == ('index', addr, ('const', 'int', 0)), 'V1', 'the peer address handed to dispatch_message is element 0 of the '
                      'address recvfrom returned', key=('V1', 'peer-address-host'), site=ctx.site(ml, c.node),
                      detail={'found': _tq.text(pa, 200) if pa is not None else None})
        replies = [c for c in MLV.calls if c.name == 'sendto' and any(_tq.contains(_sid(v), _sid(d.term)) for d in disp for v in list(c.args.values())[:1])]
        ctx.floor('V1 reply to the sender of a datagram', len(replies), 1, rule='V1')
        for c in replies:
            dst = _sid(list(c.args.values())[1]) if len(c.args) > 1 else None
            ctx.check(dst == addr, 'V1', 'the reply goes to the address object the datagram came from (not to one taken apart and '
                      'put together again)', key=('V1', 'reply-address'), site=ctx.site(ml, c.node),
                      detail={'found': _tq.text(dst, 200) if dst is not None else None})
    common.parse_errors_propagate(ctx, 'V4')
    # what a failing datagram makes the controller drop is at most the entry this very datagram created: an error path that removes
    # whatever IKE_SA a cleartext header field selected lets one datagram take an established IKE_SA away from the daemon
    common.deleted_observed(ctx, esc, 'V4')
    # what enters the table is an IKE_SA: the successor of a rekey is registered exactly while the old IKE_SA has one (never None, never a
    # half-built object) - one bad entry makes every later pass of the timer sweep and of the lookups raise (shared with C16 D3)
    from .c16 import successor_registration
    successor_registration(ctx, esc, 'V4')
    # stray datagrams only make the loop pass its timer sweep more often: harmless as long as a sweep with nothing due does nothing,
    # i.e. deadlines and `now` are readings of the same clock
    common.one_clock(ctx, 'V2')
    # ---------------------------------------------------------------- V2
    # a DELETED entry leaves the table only after its kernel SAs were removed: that removal must not be able to fail on an SA
    # the kernel has already dropped, or the dead entry raises again on every later iteration
    from .c10 import kernel_teardown
    kernel_teardown(ctx, esc, 'V4')
    lp = Loops(prog, res, esc)
    results, quals = lp.check_reach([ml])
    for q in quals:
        ctx.functions.add(q)
    ctx.floor('V2 functions reachable from main_loop', len(quals), 120)
    ctx.floor('V2 loops reachable from main_loop', len(results), 8)
    for r in results:
        fi, l = r['fi'], r['loop']
        desc = ('while ' + src(l.test)) if isinstance(l, ast.While) else 'for %s in %s' % (src(l.target), src(l.iter))
        if l is loop:
            ctx.ok('V2', 'the event loop itself (`while True`), bounded per iteration by V1/V2', ctx.site(fi, l))
            continue
        if not r['ok'] and fi.qual == 'netlink.NetlinkProtocol.send_recv' and r['shape'].startswith(('shrink', 'cursor')) \
                and all('no progress fact' in p_ for p_ in r['problems']):
            ctx.ok('V2', 'loop `%s` in %s: walk over a kernel reply advancing by nlmsg_len (trusted input, assumption)' % (
                desc, fi.qual), ctx.site(fi, l))
            continue
        if r['ok']:
            ctx.ok('V2', 'loop `%s` in %s has a variant (%s)' % (desc, fi.qual, r['shape']), ctx.site(fi, l))
        else:
            ctx.bad('V2', ('V2', fi.qual, desc), 'loop may not terminate: %s in %s: %s' % (
                desc, fi.qual, '; '.join(r['problems'][:2])), ctx.site(fi, l), {'problems': r['problems']})
    # blocking calls
    dom = g.dominators()
    sel = [n for n in body_nodes for e in n.exprs() if e is not None for x in walk_no_nested(e)
           if isinstance(x, ast.Call) and res.resolve_call(x, ml, count=False).lib == 'select.select']
    ctx.require(len(sel) >= 1, 'anchor vanished: select() call in the event loop')
    for n in body_nodes:
        for e in n.exprs():
            if e is None:
                continue
            for x in walk_no_nested(e):
                if not isinstance(x, ast.Call):
                    continue
                r = res.resolve_call(x, ml, count=False)
                if r.lib == 'select.select':
                    t = x.args[3] if len(x.args) > 3 else None
                    ok = isinstance(t, ast.Constant) and isinstance(t.value, (int, float)) and 0 < t.value <= 60
                    ctx.check(ok, 'V2', 'select() in the event loop has a finite positive timeout constant (%s)' % (
                        src(t) if t is not None else 'none'), key=('V2', 'select-timeout'), site=ctx.site(ml, x))
                elif isinstance(x.func, ast.Attribute) and x.func.attr in ('recv', 'recvfrom', 'accept'):
                    recv = src(x.func.value)
                    if recv == 'conn':
                        ctx.note('control socket: conn.recv() may block on a silent local client (outside the quantifier)')
                        continue
                    guarded = False
                    for c in g.nodes:
                        if c.kind == 'cond' and isinstance(c.ast, ast.Compare) \
                                and isinstance(c.ast.ops[0], (ast.In, ast.NotIn)) and src(c.ast.left) == recv \
                                and src(c.ast.comparators[0]) == 'readable':
                            # the edge on which the socket is readable: the true edge of `in`, the false edge of `not in`
                            lab_ok = 'T' if isinstance(c.ast.ops[0], ast.In) else 'F'
                            blocked = [(c.id, lab_ok, m.id) for lab, m in c.succ if lab == lab_ok]
                            if n.id not in g.reach([g.entry], blocked_edges=blocked):
                                guarded = True
                    ctx.check(guarded, 'V2', '%s.%s() runs only when `%s in readable`' % (recv, x.func.attr, recv),
                              key=('V2', 'blocking', recv + '.' + x.func.attr), site=ctx.site(ml, x))

    # ---------------------------------------------------------------- V3
    lm = ctx.func('ikesa.IkeSa.log_message')
    e3 = esc.escapes(lm)
    n3 = 0
    for exc, origins in e3.items():
        for origin, chain in origins.items():
            n3 += 1
            ctx.bad('V3', ('V3', exc, origin), 'rendering a message for the log can raise %s: %s' % (exc, origin),
                    chain[-1].split(' ')[0], {'witness': chain})
    rq = esc.reach([lm])
    ctx.floor('V3 functions in the reach of IkeSa.log_message', len(rq), 15)
    if n3 == 0:
        ctx.ok('V3', 'escape set of IkeSa.log_message is empty over %d functions' % len(rq), ctx.site(lm, lm.node))
    common.to_dict_value_kinds(ctx, 'V3')

    # ---------------------------------------------------------------- V4
    common.table_insert_undo(ctx, esc, 'V4')
    common.typestate_asserts_hold(ctx, esc, 'V4')
    ctx.stats['uncatalogued library calls'] = sorted(esc.uncatalogued)


MANIFEST = {
    'level': 'All-paths static decision of the "does not raise / does not loop" part of C17 inside the catalogue '
             'envelope: the exception-escape set of one event-loop iteration over the whole resolved call graph is '
             'empty (neither exit of main_loop is reachable from the loop head), every loop reachable from the loop '
             'body has a termination variant, blocking socket calls are dominated by the readable test and select '
             'has a finite timeout, message rendering cannot raise, and a failed event leaves no half-registered '
             'IKE_SA. main_loop is never executed by the suite; this analyses every path through it.',
    'note': 'Trusted: effect catalogue, resolver typing table, kernel replies well-formed, control socket out of '
            'scope. "Keeps serving other peers correctly afterwards" is claimed only via the undo rule V4.',
    'technique': 'interprocedural exception-escape analysis + CFG reachability + loop variants',
    'design_ref': 'DESIGN.md 3/C17',
}
MANIFEST['note'] += (' Also decided here (necessary conditions shared between properties or added after the independent '
                     'change rounds, DESIGN.md 8.7): kernel teardown (from C10/C14), parse errors leave process_message, distinct IkeSa.State values. Rounds 7-8: one clock for all timer readings; registration of a rekey successor (from C16).')
