"""C02 - No IKE_SA is established without a valid AUTH over the real exchange.

G1 (A4)  in both IKE_AUTH handlers the two identity comparisons (against the configured *peer*
         identity) and the AUTH verification dominate every path to establishment, CHILD_SA
         processing (which installs kernel SAs) and the normal return.
G2 (A4)  _verify_auth_payload: every normal-return path passed the non-raising edge of a
         comparison of the received AUTH with a value computed from the signed octets, under the
         method/credential dispatch, and the dispatch falls through to a raise.
G3 (A6+A5) the signed octets at the four generate/verify sites are RFC 7296 2.15's: the right
         retained message, the other side's nonce, the presented ID payload, the signer's SK_p;
         term of the helpers; PSK pad constant; ID payload body.
G4 (A5)  what is retained as IKE_SA_INIT request/response bytes derives from the message of that
         exchange only, and is re-derived after every mutation of the request (COOKIE, INVALID_KE).
G5 (A4)  the initiator refuses a response proposal not drawn from its offer before using it.
G6 (A3)  ESTABLISHED is assigned from a non-established state only in the two IKE_AUTH handlers.
"""
import ast

from ..model import AnalysisError, src, walk_no_nested
from ..terms import callee_name, calls_in, compare_parts, flatten_add, inline, kwargs_of, single_def
from ..sval import strip_ids
from .. import tq
from . import common

EXPLANATION = ('static analysis: dominance of establishment/installation by the identity comparisons and the AUTH '
               'verification on every CFG path of both IKE_AUTH handlers; path enumeration of _verify_auth_payload; '
               'term extraction of the signed octets at the four generate/verify sites compared with the RFC 7296 2.15 '
               'table; provenance of the retained IKE_SA_INIT bytes; typestate origin of ESTABLISHED')
ASSUMPTIONS = [
    'HMAC / RSA PKCS#1 verification are sound (trusted); man-in-the-middle histories are not enumerated',
    'observation (not a violation): receivers retain request.to_bytes()/response.to_bytes(), i.e. the re-serialisation of '
    'the parsed IKE_SA_INIT message rather than the datagram; for non-canonical datagrams a conforming peer\'s AUTH then '
    'fails closed',
]

AUTH_REQ = 'ikesa.IkeSa.process_ike_auth_request'
AUTH_RES = 'ikesa.IkeSa.process_ike_auth_response'
REQ_DATA, RES_DATA = 'self.ike_sa_init_req_data', 'self.ike_sa_init_res_data'


def lookup_of(res, fi, name):
    """(message expr text, payload type member, encrypted const) when local `name` is defined by
    `<msg>.get_payload(Payload.Type.X, enc)`"""
    d = single_def(res, fi, name)
    if isinstance(d, ast.Call) and callee_name(d) == 'get_payload' and d.args:
        kw = kwargs_of(d, names=['type', 'encrypted'])
        enc = kw.get('encrypted')
        return (src(d.func.value), src(kw['type']).split('.')[-1],
                enc.value if isinstance(enc, ast.Constant) else None)
    return None


def nonce_source(res, fi, expr):
    """which retained message a nonce argument comes from: 'req' / 'res' / None"""
    e = inline(res, fi, expr, 4)
    t = src(e)
    if not (t.endswith('.nonce') and 'Payload.Type.NONCE' in t and 'Message.parse(' in t):
        return None
    if REQ_DATA in t and RES_DATA not in t:
        return 'req'
    if RES_DATA in t and REQ_DATA not in t:
        return 'res'
    return None


def run(ctx):
    prog, res = ctx.prog, ctx.res
    esc = ctx.escape('engine', kills=common.engine_kills(ctx))

    # ---------------------------------------------------------------- G1
    for q, idtype, role in ((AUTH_REQ, 'IDi', 'responder'), (AUTH_RES, 'IDr', 'initiator')):
        fi = ctx.func(q)
        g = esc.add_exception_edges(fi)
        msgp = fi.call_params()[0]
        # protected effects
        E = []
        for n in g.nodes:
            if n.kind == 'stmt' and isinstance(n.ast, ast.Assign) and any(src(t) == 'self.state' for t in n.ast.targets) \
                    and common.state_name(n.ast.value) == 'ESTABLISHED':
                E.append((n, 'self.state = ESTABLISHED'))
        for n, x in common.nodes_calling(ctx, fi, g, lambda c, r: any(
                t.name in ('_process_create_child_sa_negotiation_req', '_process_create_child_sa_negotiation_res')
                for t in r.targets)):
            E.append((n, 'CHILD_SA processing `%s`' % callee_name(x)))
        ctx.check(len(E) >= 2, 'G1', '%s establishes the IKE_SA and processes the piggy-backed CHILD_SA' % fi.name,
                  key=('G1', q, 'anchors'), site=ctx.site(fi, fi.node))
        rets = [n for n in g.nodes if n.kind == 'stmt' and isinstance(n.ast, ast.Return)]
        E += [(n, 'normal return') for n in rets]
        # identity comparisons
        SV = ctx.sval(fi)
        for attr in ('id_type', 'id_data'):
            conds = []
            # the comparison is recognised by its value term: received <idtype>.<attr> == configured peer identity's <attr>
            want = strip_ids(SV.expr('%s.get_payload(Payload.Type.%s, True).%s == self.configuration.peer_auth.id.%s' % (
                msgp, idtype, attr, attr)))
            for c in g.nodes:
                if c.kind != 'cond' or id(c.ast) not in SV.terms:
                    continue
                t = strip_ids(SV.terms[id(c.ast)])
                if t == want:
                    conds.append((c, 'T'))
                elif t == ('not', want):
                    conds.append((c, 'F'))
            ctx.check(len(conds) >= 1, 'G1', '%s compares the received %s.%s with the configured peer identity' % (
                fi.name, idtype, attr), key=('G1', q, 'id-compare-missing', attr), site=ctx.site(fi, fi.node))
            for c, passing in conds:
                failing = 'T' if passing == 'F' else 'F'
                fn = [m for lab, m in c.succ if lab == failing]
                ctx.check(bool(fn) and all(isinstance(m.ast, ast.Raise) and 'AuthenticationFailed' in src(m.ast) for m in fn),
                          'G1', 'an identity mismatch (%s) raises AuthenticationFailed' % attr,
                          key=('G1', q, 'id-mismatch-raise', attr), site=ctx.site(fi, c.ast))
                for n, what in E:
                    ctx.check(common.dominated_by_edge(g, n, c, passing) and
                              (n.id not in g.reach([g.entry], blocked_nodes=[c])), 'G1',
                              '%s: %s is reached only after the %s comparison passed' % (fi.name, what, attr),
                              key=('G1', q, 'id-not-dominating', attr, what), site=ctx.site(fi, n.ast))
        # AUTH verification
        ver = common.nodes_calling(ctx, fi, g, lambda c, r: any(t.name == '_verify_auth_payload' for t in r.targets))
        ctx.check(len(ver) >= 1, 'G1', '%s verifies the AUTH payload' % fi.name, key=('G1', q, 'verify-missing'),
                  site=ctx.site(fi, fi.node))
        for n, what in E:
            ok = bool(ver) and n.id not in g.reach([g.entry], blocked_nodes=[v for v, _ in ver])
            ctx.check(ok, 'G1', '%s: %s is reached only after _verify_auth_payload returned' % (fi.name, what),
                      key=('G1', q, 'verify-not-dominating', what), site=ctx.site(fi, n.ast))
        # G3 for the verify site
        for c in SV.calls_to(qual='ikesa.IkeSa._verify_auth_payload'):
            signer = 'initiator' if role == 'responder' else 'responder'
            check_site(ctx, fi, c, signer, verify=True, msgp=msgp, idtype=idtype)

    # the primitives the AUTH computation rests on: prf is HMAC (key pad, AUTH value, identity hash), SK_pi / SK_pr are the prf-sized
    # tail of the key material (shared with C04 K1 / K3)
    from .c04 import prf_is_hmac, ike_keyring_split
    prf_is_hmac(ctx, 'G3')
    ike_keyring_split(ctx, 'G3')
    # ... and the credentials the verification compares against are the configured ones, as configured (shared with C19 B2)
    from .c19 import auth_level
    auth_level(ctx, 'G2')
    # ---------------------------------------------------------------- G3 generate sites
    gen_req = ctx.func('ikesa.IkeSa.generate_ike_auth_request')
    sites = [(gen_req, 'initiator', 'PayloadIDi'), (ctx.func(AUTH_REQ), 'responder', 'PayloadIDr')]
    for fi, signer, idcls in sites:
        calls = ctx.sval(fi).calls_to(qual='ikesa.IkeSa._generate_auth_payload')
        ctx.check(len(calls) == 1, 'G3', '%s generates exactly one AUTH payload' % fi.name, key=('G3', fi.qual, 'gen-count'),
                  site=ctx.site(fi, fi.node))
        for x in calls:
            check_site(ctx, fi, x, signer, verify=False, idcls=idcls)
    check_helpers(ctx)

    # ---------------------------------------------------------------- G2
    check_verify(ctx, esc)

    # ---------------------------------------------------------------- G4
    check_retention(ctx, esc)

    # ---------------------------------------------------------------- G5
    # the subset test is only as good as the routines it is made of: transform identity includes the key length, intersection and
    # is_subset compare whole transforms
    from .c11 import check_routines
    check_routines(ctx, 'G5')
    fi = ctx.func('ikesa.IkeSa.process_ike_sa_negotiation_response')
    N = ctx.sval(fi)
    ps = fi.call_params()
    site = ctx.site(fi, fi.node)
    tested = N.expr('%s.get_payload(Payload.Type.SA, %s).proposals[0]' % (ps[0], ps[2] if len(ps) > 2 else 'False'))
    alt = N.expr('%s.get_payload(Payload.Type.SA, _).proposals[0]' % ps[0])
    offer = ('attr', ('param', 'self'), 'chosen_proposal')
    gate = ('call', 'message.Proposal.is_subset', strip_ids(tested), (('other', offer),))
    subs = [c for c in N.calls if c.name == 'is_subset' and tq.match(alt, c.recv or ('undef',)) is not None
            and list(c.args.values()) == [offer]]
    ctx.check(len(subs) == 1, 'G5', 'the initiator tests the first proposal of the response\'s SA payload with is_subset(own offer)',
              key=('G5', 'no-subset-test'), site=site)
    for c in subs:
        gate = c.term
        refuse = [(pc, t) for pc, t, _ in N.raises if (gate, False) in [(a[0], a[1]) for a in pc]]
        ctx.check(bool(refuse) and all(tq.is_call(t, 'new message.NoProposalChosen') for _, t in refuse), 'G5',
                  'a response proposal outside the offer raises NoProposalChosen', key=('G5', 'raise'), site=ctx.site(fi, c.node))
        for t, v, pc, st, _ in N.stores:
            if t == offer:
                ctx.check(tq.entails(pc, gate) is True, 'G5', 'chosen_proposal is replaced only after the test passed',
                          key=('G5', 'assign-dominated'), site=ctx.site(fi, st))
                ctx.check(v == c.recv, 'G5', 'the adopted proposal is the tested one', key=('G5', 'adopted-is-tested'), site=ctx.site(fi, st),
                          detail={'adopted': tq.text(v, 200)})
        for k in N.calls_to(qual='ikesa.IkeSa.generate_ike_sa_key_material'):
            ctx.check(tq.entails(k.pc, gate) is True, 'G5', 'keys are derived only after the test passed',
                      key=('G5', 'keys-dominated'), site=ctx.site(fi, k.node))

    # ---------------------------------------------------------------- G6
    ts = common.typestate(ctx, esc)
    S = ts.S
    est = set(S.members) - common.pre_auth_states(ctx, S) - {'DELETED'}

    def assigned_states(e):
        if isinstance(e, ast.IfExp):
            return assigned_states(e.body) | assigned_states(e.orelse)
        return {common.state_name(e)}

    nsites = 0
    for fi in prog.cls('ikesa.IkeSa').methods.values():
        g = esc.add_exception_edges(fi)
        for n in g.nodes:
            if n.kind == 'stmt' and isinstance(n.ast, ast.Assign) and any(
                    isinstance(t, ast.Attribute) and t.attr == 'state' for t in n.ast.targets) \
                    and 'ESTABLISHED' in assigned_states(n.ast.value):
                nsites += 1
                arriving = ts.states_at(fi, n)
                if fi.qual in (AUTH_REQ, AUTH_RES) and src(n.ast.targets[0]) == 'self.state':
                    ctx.ok('G6', '%s establishes the IKE_SA (gated by G1)' % fi.name, ctx.site(fi, n.ast))
                    continue
                ctx.check(bool(arriving) and arriving <= est, 'G6',
                          '`%s` in %s happens only on an already authenticated IKE_SA (arriving states %s)' % (
                              src(n.ast)[:50], fi.name, sorted(arriving)),
                          key=('G6', fi.qual, src(n.ast.targets[0]), ','.join(sorted(arriving - est))),
                          site=ctx.site(fi, n.ast))
    ctx.floor('G6 assignments of ESTABLISHED', nsites, 7)
    # CHILD_SA negotiation (which installs kernel SAs) outside the IKE_AUTH handlers runs only on an authenticated IKE_SA
    nproc = 0
    for fi in prog.cls('ikesa.IkeSa').methods.values():
        if fi.qual in (AUTH_REQ, AUTH_RES):
            continue
        g = esc.add_exception_edges(fi)
        for n, x in common.nodes_calling(ctx, fi, g, lambda c, r: any(
                t.name in ('_process_create_child_sa_negotiation_req', '_process_create_child_sa_negotiation_res',
                           '_process_ike_sa_negotiation_request') and callee_name(c) != '_process_ike_sa_negotiation_request'
                or (t.name == '_process_ike_sa_negotiation_request' and src(c.func.value) == 'self.new_ike_sa')
                for t in r.targets)):
            nproc += 1
            arriving = ts.states_at(fi, n)
            ctx.check(bool(arriving) and arriving <= est, 'G6', '`%s` in %s (installs or hands over kernel SAs) runs only on an '
                      'authenticated IKE_SA (arriving states %s)' % (callee_name(x), fi.name, sorted(arriving)),
                      key=('G6', fi.qual, 'unauthenticated-child-processing', callee_name(x), ','.join(sorted(arriving - est))),
                      site=ctx.site(fi, x))
    ctx.floor('G6 CHILD_SA / rekey processing call sites outside IKE_AUTH', nproc, 3)
    ctx.note(ASSUMPTIONS[1])


def check_site(ctx, fi, call, signer, verify, msgp=None, idtype=None, idcls=None):
    """one generate/verify site (a sa.sval CallRec) against the RFC 7296 2.15 table"""
    S = ctx.sval(fi)
    b = call.args
    site = ctx.site(fi, call.node)
    what = '%s in %s (%s signs)' % ('verify' if verify else 'generate', fi.name, signer)
    want_msg = REQ_DATA if signer == 'initiator' else RES_DATA
    other = RES_DATA if signer == 'initiator' else REQ_DATA
    common.expect_term(ctx, 'G3', S, b.get('message_data'), want_msg, '%s: first octets are the retained IKE_SA_INIT %s' % (
        what, 'request' if signer == 'initiator' else 'response'), ('G3', fi.qual, verify, 'message'), site)
    common.expect_term(ctx, 'G3', S, b.get('nonce'), 'Message.parse(%s).get_payload(Payload.Type.NONCE).nonce' % other,
                       '%s: nonce is the other side\'s (from the retained %s)' % (what, 'response' if signer == 'initiator' else 'request'),
                       ('G3', fi.qual, verify, 'nonce'), site)
    want_key = 'self.peer_crypto.sk_p' if verify else 'self.my_crypto.sk_p'
    common.expect_term(ctx, 'G3', S, b.get('sk_p'), want_key, '%s: keyed with %s' % (what, want_key), ('G3', fi.qual, verify, 'sk_p'), site)
    pid = b.get('payload_id')
    if verify:
        common.expect_term(ctx, 'G3', S, pid, '%s.get_payload(Payload.Type.%s, True)' % (msgp, idtype),
                           '%s: the ID payload is the %s received in this (protected) message' % (what, idtype),
                           ('G3', fi.qual, verify, 'id'), site)
        common.expect_term(ctx, 'G3', S, b.get('payload_auth'), '%s.get_payload(Payload.Type.AUTH, True)' % msgp,
                           '%s: the AUTH payload is the one received in this (protected) message' % what,
                           ('G3', fi.qual, verify, 'auth'), site)
    else:
        common.expect_term(ctx, 'G3', S, pid, '%s(self.configuration.my_auth.id.id_type, self.configuration.my_auth.id.id_data)' % idcls,
                           '%s: the ID payload is the %s built from our configured identity' % (what, idcls),
                           ('G3', fi.qual, verify, 'id'), site)
        # the same objects are sent
        sent = [c for c in S.calls if c.name in ('generate_request', 'generate_response')]
        ok = False
        for c in sent:
            pl = c.args.get('payloads')
            if pl is not None and pid is not None:
                ok = ok or (tq.contains(pl, pid) and tq.contains(pl, call.term) and
                            any(x == pid for x in tq.find(pl, lambda t: t == pid)) and any(x == call.term for x in tq.find(pl, lambda t: t == call.term)))
        ctx.check(ok, 'G3', '%s: the signed ID payload and the AUTH payload are the ones put into the message' % what,
                  key=('G3', fi.qual, verify, 'sent'), site=site)


OCTETS = 'message_data + nonce + self.my_crypto.prf.prf(sk_p, payload_id.to_bytes())'


def check_helpers(ctx):
    gen = ctx.func('ikesa.IkeSa._generate_auth_payload')
    ctx.require(gen.call_params() == ['message_data', 'nonce', 'payload_id', 'sk_p'],
                'parameters of _generate_auth_payload changed: %s' % gen.call_params())
    G = ctx.sval(gen)
    site = ctx.site(gen, gen.node)
    data = strip_ids(G.expr(OCTETS))
    mine = 'self.configuration.my_auth'
    rets = [(pc, strip_ids(t)) for pc, t, _ in G.returns]
    rsa = [(pc, t) for pc, t in rets if tq.is_call(t, 'ikesa.IkeSa._generate_rsa_auth_payload')]
    psk = [(pc, t) for pc, t in rets if tq.is_call(t, 'ikesa.IkeSa._generate_psk_auth_payload')]
    ctx.check(len(rets) == len(rsa) + len(psk) and len(rsa) == 1 and len(psk) == 1, 'G3',
              'the AUTH payload is generated by the RSA or the PSK routine', key=('G3', 'gen-dispatch-shape'), site=site,
              detail={'returns': [tq.text(t, 200) for _, t in rets]})
    ok = bool(rsa) and bool(psk) and tq.entails(rsa[0][0], G.expr(mine + '.privkey')) is True \
        and tq.entails(psk[0][0], G.expr(mine + '.psk')) is True
    ctx.check(ok, 'G3', 'the AUTH payload is generated with our own credentials (private key, else PSK)', key=('G3', 'gen-dispatch'), site=site)
    ctx.check(bool(rsa) and bool(psk) and list(tq.args(rsa[0][1]).values()) == [data] and
              tq.args(psk[0][1]) == {'psk': strip_ids(G.expr(mine + '.psk')), 'data_to_be_signed': data}, 'G3',
              '_generate_auth_payload signs message | nonce | prf(SK_p, ID payload body), PSK generation with our own PSK',
              key=('G3', '_generate_auth_payload', 'octets'), site=site,
              detail={'found': [tq.text(t, 400) for _, t in rets]})
    ctx.check(all(tq.is_call(t, 'new message.AuthenticationFailed') for _, t, _ in G.raises) and len(G.raises) >= 1, 'G3',
              'without credentials no AUTH payload is produced (AuthenticationFailed)', key=('G3', 'gen-no-credentials'), site=site)
    fi = ctx.func('ikesa.IkeSa._generate_psk_auth_payload')
    ps = fi.call_params()
    F = ctx.sval(fi)
    common.expect_term(ctx, 'G3', F, F.ret(), 'PayloadAUTH(PayloadAUTH.Method.PSK, self.my_crypto.prf.prf(self.my_crypto.prf.prf(%s, '
                       'b"Key Pad for IKEv2"), %s))' % (ps[0], ps[1]),
                       'PSK AUTH = prf(prf(psk, "Key Pad for IKEv2"), octets) with method PSK', ('G3', 'psk-term'), ctx.site(fi, fi.node))
    fi = ctx.func('ikesa.IkeSa._generate_rsa_auth_payload')
    F = ctx.sval(fi)
    common.expect_term(ctx, 'G3', F, F.ret(), 'PayloadAUTH(PayloadAUTH.Method.RSA, self.configuration.my_auth.privkey.sign(%s))'
                       % fi.call_params()[0], 'RSA AUTH = sign(own private key, octets) with method RSA', ('G3', 'rsa-term'),
                       ctx.site(fi, fi.node))
    # ID payload body
    fi = ctx.func('message.PayloadID.to_bytes')
    F = ctx.sval(fi)
    r = strip_ids(F.ret())
    parts = list(r[1]) if r[0] == 'add' else []
    ok = len(parts) == 2 and parts[1] == ('attr', ('param', 'self'), 'id_data')
    if ok:
        head = parts[0]
        if tq.is_call(head, 'builtins.bytearray') or tq.is_call(head, 'builtins.bytes'):
            head = list(tq.args(head).values())[0]
        ok = tq.is_call(head, 'struct.pack')
        if ok:
            a = list(tq.args(head).values())
            ok = a[0][0] == 'const' and a[0][2] in ('>BBH', '>B3x', '>B3s', '!BBH', '!B3x') and a[1] == ('attr', ('param', 'self'), 'id_type') \
                and all(x[0] == 'const' and x[2] in (0, b'\0\0\0') for x in a[2:])
    ctx.check(ok, 'G3', 'ID payload body = type, three zero octets, identification data', key=('G3', 'id-body'), site=ctx.site(fi, fi.node),
              detail={'returned': tq.text(r)})
    eq = ctx.func('message.PayloadAUTH.__eq__')
    Q = ctx.sval(eq)
    o = eq.call_params()[0]
    vals = []
    for a, b, c, d in ((1, b'x', 1, b'x'), (1, b'x', 2, b'x'), (1, b'x', 1, b'y'), (2, b'y', 1, b'x')):
        v = common.term_table(ctx, Q.ret(), [{'self.method': a, 'self.auth_data': b, o + '.method': c, o + '.auth_data': d}], None)
        vals.append(bool(v[0]) if v else None)
    ctx.check(vals == [True, False, False, False], 'G2', 'PayloadAUTH equality covers method and authentication data', key=('G2', 'auth-eq'),
              site=ctx.site(eq, eq.node), detail={'returned': tq.text(Q.ret())})


def check_verify(ctx, esc):
    fi = ctx.func('ikesa.IkeSa._verify_auth_payload')
    ctx.require(fi.call_params() == ['payload_auth', 'message_data', 'nonce', 'payload_id', 'sk_p'],
                'parameters of _verify_auth_payload changed: %s' % fi.call_params())
    V = ctx.sval(fi)
    site = ctx.site(fi, fi.node)
    peer = 'self.configuration.peer_auth'
    psk_ok = ('payload_auth.method == PayloadAUTH.Method.PSK and %s.psk and '
              'self._generate_psk_auth_payload(%s.psk, %s) == payload_auth' % (peer, peer, OCTETS))
    # the same comparison written on the parts: PayloadAUTH equality is method and data (G2 auth-eq), the expected payload is
    # PayloadAUTH(PSK, prf(prf(psk, pad), octets)) (G3 psk-term), and the method is already known to be PSK
    mac = 'self.my_crypto.prf.prf(self.my_crypto.prf.prf(%s.psk, b"Key Pad for IKEv2"), %s)' % (peer, OCTETS)
    psk_ok = '(%s) or (%s) or (%s)' % (
        psk_ok,
        'payload_auth.method == PayloadAUTH.Method.PSK and %s.psk and %s == payload_auth.auth_data' % (peer, mac),
        'payload_auth.method == PayloadAUTH.Method.PSK and %s.psk and PayloadAUTH(PayloadAUTH.Method.PSK, %s) == payload_auth' % (peer, mac))
    rsa_ok = ('payload_auth.method == PayloadAUTH.Method.RSA and %s.pubkey and '
              'self._verify_rsa_auth_payload(payload_auth.auth_data, %s)' % (peer, OCTETS))
    goal = V.expr('(%s) or (%s)' % (psk_ok, rsa_ok))
    exits = [pc for pc, _ in V.exit_envs]
    ctx.check(len(exits) >= 1, 'G2', '_verify_auth_payload can return normally', key=('G2', 'comparisons'), site=site)
    for k, pc in enumerate(exits):
        ctx.check(tq.entails(pc, goal) is True, 'G2', 'every normal return of _verify_auth_payload passed the PSK comparison (expected '
                  'AUTH computed with the configured peer PSK over the signed octets, for method PSK) or the RSA verification (over the '
                  'signed octets, for method RSA with a configured peer key)', key=('G2', 'return-without-check', k), site=site,
                  detail={'path condition': [('' if p else 'not ') + tq.text(t, 200) for t, p in pc]})
    ctx.check(all(tq.is_call(t, 'new message.AuthenticationFailed') for _, t, _ in V.raises) and len(V.raises) >= 2, 'G2',
              'every other outcome raises AuthenticationFailed', key=('G2', 'fail-raise'), site=site)
    ctx.check(all(t == ('const', 'NoneType', None) for _, t, _ in V.returns), 'G2', 'the verdict is the absence of an exception '
              '(no value a caller could ignore)', key=('G2', 'no-verdict-value'), site=site)
    # RSA helper + key class
    rv = ctx.func('ikesa.IkeSa._verify_rsa_auth_payload')
    R = ctx.sval(rv)
    a, d = rv.call_params()[:2]
    want = strip_ids(R.expr('%s.pubkey.verify(%s, %s)' % (peer, a, d)))
    rets = [(pc, strip_ids(t)) for pc, t, _ in R.returns]
    ctx.check(bool(rets) and all(t == want or t == ('const', 'bool', False) for _, t in rets) and any(t == want for _, t in rets), 'G2',
              'the RSA signature is verified with the configured peer public key', key=('G2', 'rsa-helper'), site=ctx.site(rv, rv.node),
              detail={'returns': [tq.text(t) for _, t in rets]})
    kv = ctx.func('crypto.RsaPublicKey.verify')
    K = ctx.sval(kv)
    ps2 = kv.call_params()
    vcall = [c for c in K.calls if c.name == 'verify' and strip_ids(c.recv or ('undef',)) == ('attr', ('param', 'self'), 'key')]
    seq = {id(st): None for _, _, st in K.returns}
    true_rets = [(pc, st) for pc, t, st in K.returns if t == ('const', 'bool', True)]
    other = [(pc, t) for pc, t, st in K.returns if t != ('const', 'bool', True)]
    ok = len(vcall) == 1 and len(true_rets) >= 1 and all(not any(a_[0][0] == 'caught' for a_ in pc) for pc, _ in true_rets) \
        and all(t == ('const', 'bool', False) and any(a_[0][0] == 'caught' for a_ in pc) for pc, t in other) \
        and all(K.seq_of.get(id(st), 0) > vcall[0].seq for _, st in true_rets)
    ctx.check(ok, 'G2', 'RsaPublicKey.verify returns True only after key.verify() returned, False on InvalidSignature',
              key=('G2', 'rsa-key-verify'), site=ctx.site(kv, kv.node))
    if vcall:
        a_ = list(vcall[0].args.values())
        ctx.check(a_[:2] == [('param', ps2[0]), ('param', ps2[1])], 'G2', 'key.verify(signature, data) argument order',
                  key=('G2', 'rsa-key-args'), site=ctx.site(kv, vcall[0].node))


def check_retention(ctx, esc):
    res = ctx.res
    req_handlers = common.handler_table(ctx, '_process_request')
    rsp_handlers = common.handler_table(ctx, '_process_response')
    init_req_h = req_handlers.get('IKE_SA_INIT')
    init_rsp_h = rsp_handlers.get('IKE_SA_INIT')
    ctx.require(init_req_h is not None and init_rsp_h is not None, 'anchor vanished: IKE_SA_INIT handlers')
    gen_init = ctx.func('ikesa.IkeSa.generate_ike_sa_init_request')
    allowed_funcs = {init_req_h.qual, init_rsp_h.qual, gen_init.qual}
    n = 0
    for fi in ctx.prog.cls('ikesa.IkeSa').methods.values():
        g = None
        for st in walk_no_nested(fi.node):
            if not isinstance(st, ast.Assign):
                continue
            for which, attr in (('request', REQ_DATA), ('response', RES_DATA)):
                if not any(src(t) == attr for t in st.targets):
                    continue
                n += 1
                if fi.name == '__init__':
                    ctx.check(isinstance(st.value, ast.Constant) and st.value.value is None, 'G4',
                              '%s starts empty' % attr, key=('G4', 'init', attr), site=ctx.site(fi, st))
                    continue
                ctx.check(fi.qual in allowed_funcs, 'G4', '%s is assigned only while handling the IKE_SA_INIT exchange (%s)' % (
                    attr, fi.name), key=('G4', fi.qual, 'foreign-writer', attr), site=ctx.site(fi, st))
                v = st.value
                ok = isinstance(v, ast.Call) and callee_name(v) == 'to_bytes' and not v.args
                srcobj = src(v.func.value) if ok else None
                if which == 'request':
                    good = (fi.qual == init_req_h.qual and srcobj == fi.call_params()[0]) or \
                        (fi.qual in (gen_init.qual, init_rsp_h.qual) and srcobj == 'self.request')
                    ctx.check(ok and good, 'G4', '%s: the retained IKE_SA_INIT request is the serialisation of %s' % (
                        fi.name, 'the received request' if fi.qual == init_req_h.qual else 'the request being sent'),
                        key=('G4', fi.qual, 'req-source', src(v)), site=ctx.site(fi, st))
                else:
                    good = False
                    if fi.qual == init_rsp_h.qual:
                        good = srcobj == fi.call_params()[0]
                    elif fi.qual == init_req_h.qual and srcobj is not None:
                        d = single_def(res, fi, srcobj)
                        good = isinstance(d, ast.Call) and callee_name(d) == 'generate_response' and d.args \
                            and common.exchange_of(d.args[0]) == 'IKE_SA_INIT'
                        # and that very object is returned
                        rets = [r for r in walk_no_nested(fi.node) if isinstance(r, ast.Return)]
                        good = good and all(r.value is not None and src(r.value) == srcobj for r in rets)
                    ctx.check(ok and good, 'G4', '%s: the retained IKE_SA_INIT response is the serialisation of %s' % (
                        fi.name, 'the received response' if fi.qual == init_rsp_h.qual else 'the response being returned'),
                        key=('G4', fi.qual, 'res-source', src(v)), site=ctx.site(fi, st))
    ctx.floor('G4 assignments to the retained IKE_SA_INIT bytes', n, 7)
    # re-derivation after every mutation of the request on the retry paths
    for fi in (init_rsp_h, gen_init):
        g = esc.add_exception_edges(fi)
        muts = []
        for nd in g.nodes:
            if nd.kind != 'stmt':
                continue
            if isinstance(nd.ast, ast.Assign) and any(
                    src(t) == 'self.request' or (isinstance(t, ast.Tuple) and any(src(e) == 'self.request' for e in t.elts))
                    for t in nd.ast.targets):
                muts.append(nd)
            elif isinstance(nd.ast, ast.Expr) and isinstance(nd.ast.value, ast.Call) and callee_name(nd.ast.value) in (
                    'insert', 'append', 'remove', 'pop') and src(nd.ast.value.func.value).startswith('self.request.'):
                muts.append(nd)
        ders = [nd for nd in g.nodes if nd.kind == 'stmt' and isinstance(nd.ast, ast.Assign)
                and any(src(t) == REQ_DATA for t in nd.ast.targets)]
        ctx.check(bool(muts), 'G4', '%s changes the outstanding IKE_SA_INIT request' % fi.name, key=('G4', fi.qual, 'no-mutation'),
                  site=ctx.site(fi, fi.node))
        for m in muts:
            ok = bool(ders) and g.exit.id not in g.reach([m], blocked_nodes=ders, follow_exc=False)
            ctx.check(ok, 'G4', '%s: after `%s` the retained request bytes are derived again before returning' % (
                fi.name, m.text()[:60]), key=('G4', fi.qual, 'stale-retained', m.text()[:40]), site=ctx.site(fi, m.ast))


MANIFEST = {
    'level': 'All-paths static decision of the authentication gate: in both IKE_AUTH handlers the ID type/data comparisons '
             '(received ID payload vs configured peer identity) and the AUTH verification dominate establishment, CHILD_SA '
             'processing and the normal return; every normal return of _verify_auth_payload passed the PSK comparison or the '
             'RSA verification under the method/credential dispatch; the four generate/verify sites are matched against the '
             'RFC 7296 2.15 table (retained message, other side\'s nonce, presented ID, signer\'s SK_p), the helper terms and '
             'the PSK pad constant are extracted and compared; provenance of the retained IKE_SA_INIT bytes incl. '
             're-derivation on COOKIE / INVALID_KE retries; response-proposal subset gate; typestate origin of ESTABLISHED.',
    'note': 'Trusted: HMAC/RSA soundness, resolver typing, effect catalogue. Declined: man-in-the-middle histories as such; '
            'whether the retained re-serialisation equals the wire bytes for non-canonical datagrams (C05).',
    'technique': 'dominance + path enumeration + term extraction against an RFC table + provenance + typestate',
    'design_ref': 'DESIGN.md 3/C02',
}
MANIFEST['note'] += (' Also decided here (necessary conditions shared between properties or added after the independent '
                     'change rounds, DESIGN.md 8.7): proposal routines incl. key length in transform identity (from C11), pre-authentication states by name. Rounds 7-8: state predicates written as enumeration properties; prf is the library HMAC and SK_pi / SK_pr are the prf-sized tail of the key material (from C04).')
