"""C02 - No IKE_SA is established without a valid AUTH over the real exchange.

G1 (A4)  in both IKE_AUTH handlers the two identity comparisons (against the configured *peer*
         identity) and the AUTH verification dominate every path to establishment, CHILD_SA
         processing (which installs kernel SAs) and the normal return.
G2 (A4)  _verify_auth_payload: every normal-return path passed the non-raising edge of a
         comparison of the received AUTH with a value computed from the signed octets, under the
         method/credential dispatch, and the dispatch falls through to a raise.
G3 (A6+A5) the signed octets at the four generate/verify sites are RFC 7296 2.15's: the right
         retained message, the other side's nonce, the presented ID payload, the signer's SK_p;
         term of the helpers; PSK pad constant; ID payload body.
G4 (A5)  what is retained as IKE_SA_INIT request/response bytes derives from the message of that
         exchange only, and is re-derived after every mutation of the request (COOKIE, INVALID_KE).
G5 (A4)  the initiator refuses a response proposal not drawn from its offer before using it.
G6 (A3)  ESTABLISHED is assigned from a non-established state only in the two IKE_AUTH handlers.
"""
import ast

from ..model import AnalysisError, src, walk_no_nested
from ..terms import callee_name, calls_in, compare_parts, flatten_add, inline, kwargs_of, single_def
from . import common

EXPLANATION = ('static analysis: dominance of establishment/installation by the identity comparisons and the AUTH '
               'verification on every CFG path of both IKE_AUTH handlers; path enumeration of _verify_auth_payload; '
               'term extraction of the signed octets at the four generate/verify sites compared with the RFC 7296 2.15 '
               'table; provenance of the retained IKE_SA_INIT bytes; typestate origin of ESTABLISHED')
ASSUMPTIONS = [
    'HMAC / RSA PKCS#1 verification are sound (trusted); man-in-the-middle histories are not enumerated',
    'observation (not a violation): receivers retain request.to_bytes()/response.to_bytes(), i.e. the re-serialisation of '
    'the parsed IKE_SA_INIT message rather than the datagram; for non-canonical datagrams a conforming peer\'s AUTH then '
    'fails closed',
]

AUTH_REQ = 'ikesa.IkeSa.process_ike_auth_request'
AUTH_RES = 'ikesa.IkeSa.process_ike_auth_response'
REQ_DATA, RES_DATA = 'self.ike_sa_init_req_data', 'self.ike_sa_init_res_data'


def lookup_of(res, fi, name):
    """(message expr text, payload type member, encrypted const) when local `name` is defined by
    `<msg>.get_payload(Payload.Type.X, enc)`"""
    d = single_def(res, fi, name)
    if isinstance(d, ast.Call) and callee_name(d) == 'get_payload' and d.args:
        kw = kwargs_of(d, names=['type', 'encrypted'])
        enc = kw.get('encrypted')
        return (src(d.func.value), src(kw['type']).split('.')[-1],
                enc.value if isinstance(enc, ast.Constant) else None)
    return None


def nonce_source(res, fi, expr):
    """which retained message a nonce argument comes from: 'req' / 'res' / None"""
    e = inline(res, fi, expr, 4)
    t = src(e)
    if not (t.endswith('.nonce') and 'Payload.Type.NONCE' in t and 'Message.parse(' in t):
        return None
    if REQ_DATA in t and RES_DATA not in t:
        return 'req'
    if RES_DATA in t and REQ_DATA not in t:
        return 'res'
    return None


def run(ctx):
    prog, res = ctx.prog, ctx.res
    esc = ctx.escape('engine', kills=common.engine_kills(ctx))

    # ---------------------------------------------------------------- G1
    for q, idtype, role in ((AUTH_REQ, 'IDi', 'responder'), (AUTH_RES, 'IDr', 'initiator')):
        fi = ctx.func(q)
        g = esc.add_exception_edges(fi)
        msgp = fi.call_params()[0]
        # protected effects
        E = []
        for n in g.nodes:
            if n.kind == 'stmt' and isinstance(n.ast, ast.Assign) and any(src(t) == 'self.state' for t in n.ast.targets) \
                    and common.state_name(n.ast.value) == 'ESTABLISHED':
                E.append((n, 'self.state = ESTABLISHED'))
        for n, x in common.nodes_calling(ctx, fi, g, lambda c, r: any(
                t.name in ('_process_create_child_sa_negotiation_req', '_process_create_child_sa_negotiation_res')
                for t in r.targets)):
            E.append((n, 'CHILD_SA processing `%s`' % callee_name(x)))
        ctx.check(len(E) >= 2, 'G1', '%s establishes the IKE_SA and processes the piggy-backed CHILD_SA' % fi.name,
                  key=('G1', q, 'anchors'), site=ctx.site(fi, fi.node))
        rets = [n for n in g.nodes if n.kind == 'stmt' and isinstance(n.ast, ast.Return)]
        E += [(n, 'normal return') for n in rets]
        # identity comparisons
        for attr in ('id_type', 'id_data'):
            conds = []
            for c in g.nodes:
                if c.kind != 'cond':
                    continue
                cp = compare_parts(c.ast)
                if not cp or cp[1] not in (ast.NotEq, ast.Eq):
                    continue
                sides = [cp[0], cp[2]]
                conf = [s for s in sides if src(s) == 'self.configuration.peer_auth.id.' + attr]
                peer = [s for s in sides if isinstance(s, ast.Attribute) and s.attr == attr and isinstance(s.value, ast.Name)
                        and lookup_of(res, fi, s.value.id) == (msgp, idtype, True)]
                if len(conf) == 1 and len(peer) == 1:
                    conds.append((c, 'F' if cp[1] is ast.NotEq else 'T'))
            ctx.check(len(conds) >= 1, 'G1', '%s compares the received %s.%s with the configured peer identity' % (
                fi.name, idtype, attr), key=('G1', q, 'id-compare-missing', attr), site=ctx.site(fi, fi.node))
            for c, passing in conds:
                failing = 'T' if passing == 'F' else 'F'
                fn = [m for lab, m in c.succ if lab == failing]
                ctx.check(bool(fn) and all(isinstance(m.ast, ast.Raise) and 'AuthenticationFailed' in src(m.ast) for m in fn),
                          'G1', 'an identity mismatch (%s) raises AuthenticationFailed' % attr,
                          key=('G1', q, 'id-mismatch-raise', attr), site=ctx.site(fi, c.ast))
                for n, what in E:
                    ctx.check(common.dominated_by_edge(g, n, c, passing) and
                              (n.id not in g.reach([g.entry], blocked_nodes=[c])), 'G1',
                              '%s: %s is reached only after the %s comparison passed' % (fi.name, what, attr),
                              key=('G1', q, 'id-not-dominating', attr, what), site=ctx.site(fi, n.ast))
        # AUTH verification
        ver = common.nodes_calling(ctx, fi, g, lambda c, r: any(t.name == '_verify_auth_payload' for t in r.targets))
        ctx.check(len(ver) >= 1, 'G1', '%s verifies the AUTH payload' % fi.name, key=('G1', q, 'verify-missing'),
                  site=ctx.site(fi, fi.node))
        for n, what in E:
            ok = bool(ver) and n.id not in g.reach([g.entry], blocked_nodes=[v for v, _ in ver])
            ctx.check(ok, 'G1', '%s: %s is reached only after _verify_auth_payload returned' % (fi.name, what),
                      key=('G1', q, 'verify-not-dominating', what), site=ctx.site(fi, n.ast))
        # G3 for the verify site
        for v, x in ver:
            b = kwargs_of(x, target=ctx.func('ikesa.IkeSa._verify_auth_payload'))
            signer = 'initiator' if role == 'responder' else 'responder'
            check_site(ctx, fi, x, b, signer, verify=True, msgp=msgp, idtype=idtype)

    # ---------------------------------------------------------------- G3 generate sites
    gen_req = ctx.func('ikesa.IkeSa.generate_ike_auth_request')
    sites = [(gen_req, 'initiator', 'PayloadIDi'), (ctx.func(AUTH_REQ), 'responder', 'PayloadIDr')]
    for fi, signer, idcls in sites:
        calls = [c for c in calls_in(fi.node) if callee_name(c) == '_generate_auth_payload']
        ctx.check(len(calls) == 1, 'G3', '%s generates exactly one AUTH payload' % fi.name, key=('G3', fi.qual, 'gen-count'),
                  site=ctx.site(fi, fi.node))
        for x in calls:
            b = kwargs_of(x, target=ctx.func('ikesa.IkeSa._generate_auth_payload'))
            check_site(ctx, fi, x, b, signer, verify=False, idcls=idcls)
    check_helpers(ctx)

    # ---------------------------------------------------------------- G2
    check_verify(ctx, esc)

    # ---------------------------------------------------------------- G4
    check_retention(ctx, esc)

    # ---------------------------------------------------------------- G5
    fi = ctx.func('ikesa.IkeSa.process_ike_sa_negotiation_response')
    g = esc.add_exception_edges(fi)
    subs = [c for c in g.nodes if c.kind == 'cond' and isinstance(c.ast, ast.Call) and callee_name(c.ast) == 'is_subset'
            and c.ast.args and src(c.ast.args[0]) == 'self.chosen_proposal']
    ctx.check(len(subs) == 1, 'G5', 'the initiator tests the responder\'s proposal with is_subset(own offer)',
              key=('G5', 'no-subset-test'), site=ctx.site(fi, fi.node))
    for c in subs:
        fn = [m for lab, m in c.succ if lab == 'F']
        ctx.check(bool(fn) and all(isinstance(m.ast, ast.Raise) and 'NoProposalChosen' in src(m.ast) for m in fn), 'G5',
                  'a response proposal outside the offer raises NoProposalChosen', key=('G5', 'raise'), site=ctx.site(fi, c.ast))
        tested = inline(res, fi, c.ast.func.value, 3)
        ps = fi.call_params()
        ok = src(tested).startswith('%s.get_payload(Payload.Type.SA' % ps[0]) and src(tested).endswith('.proposals[0]')
        ctx.check(ok, 'G5', 'the tested proposal is the first proposal of the response\'s SA payload',
                  key=('G5', 'tested-proposal'), site=ctx.site(fi, c.ast))
        for n in g.nodes:
            if n.kind == 'stmt' and isinstance(n.ast, ast.Assign) and any(src(t) == 'self.chosen_proposal' for t in n.ast.targets):
                ctx.check(common.dominated_by_edge(g, n, c, 'T'), 'G5', 'chosen_proposal is replaced only after the test passed',
                          key=('G5', 'assign-dominated'), site=ctx.site(fi, n.ast))
                ctx.check(src(inline(res, fi, n.ast.value, 3)) == src(tested), 'G5',
                          'the adopted proposal is the tested one', key=('G5', 'adopted-is-tested'), site=ctx.site(fi, n.ast))
        for n, x in common.nodes_calling(ctx, fi, g, common.calls_named('generate_ike_sa_key_material')):
            ctx.check(common.dominated_by_edge(g, n, c, 'T'), 'G5', 'keys are derived only after the test passed',
                      key=('G5', 'keys-dominated'), site=ctx.site(fi, x))

    # ---------------------------------------------------------------- G6
    ts = common.typestate(ctx, esc)
    S = ts.S
    est = set(n for n, v in S.members.items() if v >= S.members['ESTABLISHED'] and n != 'DELETED')

    def assigned_states(e):
        if isinstance(e, ast.IfExp):
            return assigned_states(e.body) | assigned_states(e.orelse)
        return {common.state_name(e)}

    nsites = 0
    for fi in prog.cls('ikesa.IkeSa').methods.values():
        g = esc.add_exception_edges(fi)
        for n in g.nodes:
            if n.kind == 'stmt' and isinstance(n.ast, ast.Assign) and any(
                    isinstance(t, ast.Attribute) and t.attr == 'state' for t in n.ast.targets) \
                    and 'ESTABLISHED' in assigned_states(n.ast.value):
                nsites += 1
                arriving = ts.states_at(fi, n)
                if fi.qual in (AUTH_REQ, AUTH_RES) and src(n.ast.targets[0]) == 'self.state':
                    ctx.ok('G6', '%s establishes the IKE_SA (gated by G1)' % fi.name, ctx.site(fi, n.ast))
                    continue
                ctx.check(bool(arriving) and arriving <= est, 'G6',
                          '`%s` in %s happens only on an already authenticated IKE_SA (arriving states %s)' % (
                              src(n.ast)[:50], fi.name, sorted(arriving)),
                          key=('G6', fi.qual, src(n.ast.targets[0]), ','.join(sorted(arriving - est))),
                          site=ctx.site(fi, n.ast))
    ctx.floor('G6 assignments of ESTABLISHED', nsites, 7)
    # CHILD_SA negotiation (which installs kernel SAs) outside the IKE_AUTH handlers runs only on an authenticated IKE_SA
    nproc = 0
    for fi in prog.cls('ikesa.IkeSa').methods.values():
        if fi.qual in (AUTH_REQ, AUTH_RES):
            continue
        g = esc.add_exception_edges(fi)
        for n, x in common.nodes_calling(ctx, fi, g, lambda c, r: any(
                t.name in ('_process_create_child_sa_negotiation_req', '_process_create_child_sa_negotiation_res',
                           '_process_ike_sa_negotiation_request') and callee_name(c) != '_process_ike_sa_negotiation_request'
                or (t.name == '_process_ike_sa_negotiation_request' and src(c.func.value) == 'self.new_ike_sa')
                for t in r.targets)):
            nproc += 1
            arriving = ts.states_at(fi, n)
            ctx.check(bool(arriving) and arriving <= est, 'G6', '`%s` in %s (installs or hands over kernel SAs) runs only on an '
                      'authenticated IKE_SA (arriving states %s)' % (callee_name(x), fi.name, sorted(arriving)),
                      key=('G6', fi.qual, 'unauthenticated-child-processing', callee_name(x), ','.join(sorted(arriving - est))),
                      site=ctx.site(fi, x))
    ctx.floor('G6 CHILD_SA / rekey processing call sites outside IKE_AUTH', nproc, 3)
    ctx.note(ASSUMPTIONS[1])


def check_site(ctx, fi, call, b, signer, verify, msgp=None, idtype=None, idcls=None):
    """one generate/verify site against the RFC 7296 2.15 table"""
    res = ctx.res
    what = '%s in %s (%s signs)' % ('verify' if verify else 'generate', fi.name, signer)
    want_msg = REQ_DATA if signer == 'initiator' else RES_DATA
    want_nonce = 'res' if signer == 'initiator' else 'req'
    ctx.check(src(b.get('message_data')) == want_msg, 'G3', '%s: first octets are the retained IKE_SA_INIT %s' % (
        what, 'request' if signer == 'initiator' else 'response'), key=('G3', fi.qual, verify, 'message'),
        site=ctx.site(fi, call), detail={'found': src(b.get('message_data'))})
    ctx.check(nonce_source(res, fi, b.get('nonce')) == want_nonce, 'G3', '%s: nonce is the other side\'s (from the retained %s)'
              % (what, 'response' if want_nonce == 'res' else 'request'), key=('G3', fi.qual, verify, 'nonce'),
              site=ctx.site(fi, call), detail={'found': src(inline(res, fi, b.get('nonce'), 4)) if b.get('nonce') is not None else None})
    want_key = 'self.peer_crypto.sk_p' if verify else 'self.my_crypto.sk_p'
    ctx.check(src(b.get('sk_p')) == want_key, 'G3', '%s: keyed with %s' % (what, want_key),
              key=('G3', fi.qual, verify, 'sk_p'), site=ctx.site(fi, call), detail={'found': src(b.get('sk_p'))})
    pid = b.get('payload_id')
    if verify:
        ok = isinstance(pid, ast.Name) and lookup_of(res, fi, pid.id) == (msgp, idtype, True)
        ctx.check(ok, 'G3', '%s: the ID payload is the %s received in this (protected) message' % (what, idtype),
                  key=('G3', fi.qual, verify, 'id'), site=ctx.site(fi, call))
        pa = b.get('payload_auth')
        ok = isinstance(pa, ast.Name) and lookup_of(res, fi, pa.id) == (msgp, 'AUTH', True)
        ctx.check(ok, 'G3', '%s: the AUTH payload is the one received in this (protected) message' % what,
                  key=('G3', fi.qual, verify, 'auth'), site=ctx.site(fi, call))
    else:
        d = single_def(res, fi, pid.id) if isinstance(pid, ast.Name) else None
        ok = isinstance(d, ast.Call) and callee_name(d) == idcls and [src(a) for a in d.args] == [
            'self.configuration.my_auth.id.id_type', 'self.configuration.my_auth.id.id_data']
        ctx.check(ok, 'G3', '%s: the ID payload is the %s built from our configured identity' % (what, idcls),
                  key=('G3', fi.qual, verify, 'id'), site=ctx.site(fi, call))
        # the same objects are sent
        sent = [c for c in calls_in(fi.node) if callee_name(c) in ('generate_request', 'generate_response')]
        auth_name = None
        for n in walk_no_nested(fi.node):
            if isinstance(n, ast.Assign) and n.value is call and isinstance(n.targets[0], ast.Name):
                auth_name = n.targets[0].id
        ok = False
        for c in sent:
            if len(c.args) >= 2:
                t = src(inline(res, fi, c.args[1], 2, stop=frozenset([pid.id if isinstance(pid, ast.Name) else '', auth_name or ''])))
                # `response_payloads += [idr, auth]` style: look at augmented assignments too
                extra = ' '.join(src(n.value) for n in walk_no_nested(fi.node) if isinstance(n, ast.AugAssign))
                ok = ok or (isinstance(pid, ast.Name) and auth_name is not None
                            and pid.id in t + extra and auth_name in t + extra)
        ctx.check(ok, 'G3', '%s: the signed ID payload and the AUTH payload are the ones put into the message' % what,
                  key=('G3', fi.qual, verify, 'sent'), site=ctx.site(fi, call))


def check_helpers(ctx):
    res = ctx.res
    for name in ('_generate_auth_payload', '_verify_auth_payload'):
        fi = ctx.func('ikesa.IkeSa.' + name)
        d = single_def(res, fi, 'data_to_be_signed')
        ok = isinstance(d, ast.AST)
        if ok:
            ops = flatten_add(d)
            ok = len(ops) == 3 and src(ops[0]) == 'message_data' and src(ops[1]) == 'nonce' and isinstance(ops[2], ast.Call) \
                and callee_name(ops[2]) == 'prf' and src(ops[2].func.value) == 'self.my_crypto.prf' \
                and [src(a) for a in ops[2].args] == ['sk_p', 'payload_id.to_bytes()']
        ctx.check(ok, 'G3', '%s signs message | nonce | prf(SK_p, ID payload body)' % name, key=('G3', name, 'octets'),
                  site=ctx.site(fi, fi.node), detail={'found': src(d) if isinstance(d, ast.AST) else None})
    fi = ctx.func('ikesa.IkeSa._generate_psk_auth_payload')
    ps = fi.call_params()
    rets = [n for n in walk_no_nested(fi.node) if isinstance(n, ast.Return)]
    ok = len(rets) == 1
    if ok:
        e = inline(res, fi, rets[0].value, 3)
        ok = isinstance(e, ast.Call) and callee_name(e) == 'PayloadAUTH' and len(e.args) == 2 \
            and src(e.args[0]).endswith('Method.PSK') and isinstance(e.args[1], ast.Call) and callee_name(e.args[1]) == 'prf'
        if ok:
            outer = e.args[1]
            inner = outer.args[0] if outer.args else None
            ok = len(outer.args) == 2 and src(outer.args[1]) == ps[1] and isinstance(inner, ast.Call) \
                and callee_name(inner) == 'prf' and len(inner.args) == 2 and src(inner.args[0]) == ps[0] \
                and isinstance(inner.args[1], ast.Constant) and inner.args[1].value == b'Key Pad for IKEv2'
    ctx.check(ok, 'G3', 'PSK AUTH = prf(prf(psk, "Key Pad for IKEv2"), octets) with method PSK', key=('G3', 'psk-term'),
              site=ctx.site(fi, fi.node))
    fi = ctx.func('ikesa.IkeSa._generate_rsa_auth_payload')
    rets = [n for n in walk_no_nested(fi.node) if isinstance(n, ast.Return)]
    ok = len(rets) == 1 and isinstance(rets[0].value, ast.Call) and callee_name(rets[0].value) == 'PayloadAUTH' \
        and src(rets[0].value.args[0]).endswith('Method.RSA') \
        and src(rets[0].value.args[1]) == 'self.configuration.my_auth.privkey.sign(%s)' % fi.call_params()[0]
    ctx.check(ok, 'G3', 'RSA AUTH = sign(own private key, octets) with method RSA', key=('G3', 'rsa-term'),
              site=ctx.site(fi, fi.node))
    # dispatch of the generator uses our own credentials
    fi = ctx.func('ikesa.IkeSa._generate_auth_payload')
    t = [src(n.test) for n in walk_no_nested(fi.node) if isinstance(n, ast.If)]
    ctx.check(t == ['self.configuration.my_auth.privkey', 'self.configuration.my_auth.psk'] or
              t == ['self.configuration.my_auth.psk', 'self.configuration.my_auth.privkey'], 'G3',
              'the AUTH payload is generated with our own credentials', key=('G3', 'gen-dispatch'), site=ctx.site(fi, fi.node))
    pk = [c for c in calls_in(fi.node) if callee_name(c) == '_generate_psk_auth_payload']
    ctx.check(len(pk) == 1 and [src(a) for a in pk[0].args] == ['self.configuration.my_auth.psk', 'data_to_be_signed'], 'G3',
              'PSK generation uses our own PSK over the signed octets', key=('G3', 'gen-psk-args'), site=ctx.site(fi, fi.node))
    # ID payload body
    fi = ctx.func('message.PayloadID.to_bytes')
    packs = [c for c in calls_in(fi.node) if callee_name(c) == 'pack']
    ok = len(packs) == 1 and isinstance(packs[0].args[0], ast.Constant) and packs[0].args[0].value in ('>BBH', '>B3x', '>B3s') \
        and src(packs[0].args[1]) == 'self.id_type' and all(isinstance(a, ast.Constant) and a.value in (0, b'\0\0\0')
                                                            for a in packs[0].args[2:])
    adds = [n for n in walk_no_nested(fi.node) if isinstance(n, ast.AugAssign) and src(n.value) == 'self.id_data']
    ctx.check(ok and len(adds) == 1, 'G3', 'ID payload body = type, three zero octets, identification data',
              key=('G3', 'id-body'), site=ctx.site(fi, fi.node))
    eq = ctx.func('message.PayloadAUTH.__eq__')
    t = src(eq.node.body[-1])
    ctx.check('self.method' in t and 'self.auth_data' in t and 'other.method' in t and 'other.auth_data' in t and '==' in t,
              'G2', 'PayloadAUTH equality covers method and authentication data', key=('G2', 'auth-eq'), site=ctx.site(eq, eq.node))


def check_verify(ctx, esc):
    res = ctx.res
    fi = ctx.func('ikesa.IkeSa._verify_auth_payload')
    g = esc.add_exception_edges(fi)
    ps = fi.call_params()
    pa = ps[0]
    psk_c, rsa_c = [], []
    for c in g.nodes:
        if c.kind != 'cond':
            continue
        cp = compare_parts(c.ast)
        if cp and cp[1] in (ast.NotEq, ast.Eq):
            sides = [cp[0], cp[2]]
            calls = [s for s in sides if isinstance(s, ast.Call) and callee_name(s) == '_generate_psk_auth_payload']
            recv = [s for s in sides if src(s) == pa]
            if len(calls) == 1 and len(recv) == 1:
                ok = [src(a) for a in calls[0].args] == ['self.configuration.peer_auth.psk', 'data_to_be_signed']
                ctx.check(ok, 'G2', 'the expected PSK AUTH is computed with the configured peer PSK over the signed octets',
                          key=('G2', 'psk-args'), site=ctx.site(fi, c.ast))
                psk_c.append((c, 'F' if cp[1] is ast.NotEq else 'T'))
        if isinstance(c.ast, ast.Call) and callee_name(c.ast) == '_verify_rsa_auth_payload':
            ok = [src(a) for a in c.ast.args] == [pa + '.auth_data', 'data_to_be_signed']
            ctx.check(ok, 'G2', 'the RSA signature is checked over the signed octets', key=('G2', 'rsa-args'),
                      site=ctx.site(fi, c.ast))
            rsa_c.append((c, 'T'))
    ctx.check(len(psk_c) == 1 and len(rsa_c) == 1, 'G2', '_verify_auth_payload has one PSK comparison and one RSA verification',
              key=('G2', 'comparisons'), site=ctx.site(fi, fi.node))
    checks = psk_c + rsa_c
    for c, passing in checks:
        failing = 'T' if passing == 'F' else 'F'
        fn = [m for lab, m in c.succ if lab == failing]
        ctx.check(bool(fn) and all(isinstance(m.ast, ast.Raise) and 'AuthenticationFailed' in src(m.ast) for m in fn), 'G2',
                  'a failed `%s` raises AuthenticationFailed' % src(c.ast)[:50], key=('G2', 'fail-raise', src(c.ast)[:40]),
                  site=ctx.site(fi, c.ast))
    # every normal-return path passes one of the two
    blocked = [(c.id, p, m.id) for c, p in checks for lab, m in c.succ if lab == p]
    ctx.check(bool(checks) and g.exit.id not in g.reach([g.entry], blocked_edges=blocked, follow_exc=False), 'G2',
              'every normal return of _verify_auth_payload passed the PSK comparison or the RSA verification',
              key=('G2', 'return-without-check'), site=ctx.site(fi, fi.node))
    # method dispatch
    for (c, p), meth, cred in [(x, 'PSK', 'psk') for x in psk_c] + [(x, 'RSA', 'pubkey') for x in rsa_c]:
        mconds = [m for m in g.nodes if m.kind == 'cond' and compare_parts(m.ast) and compare_parts(m.ast)[1] is ast.Eq
                  and src(compare_parts(m.ast)[0]) == pa + '.method' and src(compare_parts(m.ast)[2]).endswith('Method.' + meth)]
        cconds = [m for m in g.nodes if m.kind == 'cond' and src(m.ast) == 'self.configuration.peer_auth.' + cred]
        ctx.check(any(common.dominated_by_edge(g, c, m, 'T') for m in mconds) and
                  any(common.dominated_by_edge(g, c, m, 'T') for m in cconds), 'G2',
                  'the %s check runs for method %s with the configured peer %s' % (meth, meth, cred),
                  key=('G2', 'dispatch', meth), site=ctx.site(fi, c.ast))
    # RSA helper + key class
    rv = ctx.func('ikesa.IkeSa._verify_rsa_auth_payload')
    t = src(rv.node)
    ctx.check('return self.configuration.peer_auth.pubkey.verify(%s, %s)' % tuple(rv.call_params()[:2]) in t and
              'return False' in t and 'my_auth' not in t, 'G2', 'the RSA signature is verified with the configured peer public key',
              key=('G2', 'rsa-helper'), site=ctx.site(rv, rv.node))
    kv = ctx.func('crypto.RsaPublicKey.verify')
    gk = esc.add_exception_edges(kv)
    rets = [n for n in gk.nodes if n.kind == 'stmt' and isinstance(n.ast, ast.Return)]
    true_rets = [n for n in rets if isinstance(n.ast.value, ast.Constant) and n.ast.value.value is True]
    vcall = [n for n, x in common.nodes_calling(ctx, kv, gk, lambda c, r: callee_name(c) == 'verify'
                                               and src(c.func.value) == 'self.key')]
    ok = len(true_rets) >= 1 and len(vcall) == 1 and all(
        n.id not in gk.reach([gk.entry], blocked_nodes=[vcall[0]]) and not any(p == 'handler' for (_, p, _) in n.try_ctx)
        for n in true_rets) and all(
        isinstance(n.ast.value, ast.Constant) and n.ast.value.value in (True, False) for n in rets) and all(
        n.ast.value.value is False for n in rets if any(p == 'handler' for (_, p, _) in n.try_ctx))
    ctx.check(ok, 'G2', 'RsaPublicKey.verify returns True only after key.verify() returned, False on InvalidSignature',
              key=('G2', 'rsa-key-verify'), site=ctx.site(kv, kv.node))
    if vcall:
        x = [c for c in calls_in(kv.node) if callee_name(c) == 'verify'][0]
        ps2 = kv.call_params()
        ctx.check([src(a) for a in x.args[:2]] == ps2[:2], 'G2', 'key.verify(signature, data) argument order',
                  key=('G2', 'rsa-key-args'), site=ctx.site(kv, x))


def check_retention(ctx, esc):
    res = ctx.res
    req_handlers = common.handler_table(ctx, '_process_request')
    rsp_handlers = common.handler_table(ctx, '_process_response')
    init_req_h = req_handlers.get('IKE_SA_INIT')
    init_rsp_h = rsp_handlers.get('IKE_SA_INIT')
    ctx.require(init_req_h is not None and init_rsp_h is not None, 'anchor vanished: IKE_SA_INIT handlers')
    gen_init = ctx.func('ikesa.IkeSa.generate_ike_sa_init_request')
    allowed_funcs = {init_req_h.qual, init_rsp_h.qual, gen_init.qual}
    n = 0
    for fi in ctx.prog.cls('ikesa.IkeSa').methods.values():
        g = None
        for st in walk_no_nested(fi.node):
            if not isinstance(st, ast.Assign):
                continue
            for which, attr in (('request', REQ_DATA), ('response', RES_DATA)):
                if not any(src(t) == attr for t in st.targets):
                    continue
                n += 1
                if fi.name == '__init__':
                    ctx.check(isinstance(st.value, ast.Constant) and st.value.value is None, 'G4',
                              '%s starts empty' % attr, key=('G4', 'init', attr), site=ctx.site(fi, st))
                    continue
                ctx.check(fi.qual in allowed_funcs, 'G4', '%s is assigned only while handling the IKE_SA_INIT exchange (%s)' % (
                    attr, fi.name), key=('G4', fi.qual, 'foreign-writer', attr), site=ctx.site(fi, st))
                v = st.value
                ok = isinstance(v, ast.Call) and callee_name(v) == 'to_bytes' and not v.args
                srcobj = src(v.func.value) if ok else None
                if which == 'request':
                    good = (fi.qual == init_req_h.qual and srcobj == fi.call_params()[0]) or \
                        (fi.qual in (gen_init.qual, init_rsp_h.qual) and srcobj == 'self.request')
                    ctx.check(ok and good, 'G4', '%s: the retained IKE_SA_INIT request is the serialisation of %s' % (
                        fi.name, 'the received request' if fi.qual == init_req_h.qual else 'the request being sent'),
                        key=('G4', fi.qual, 'req-source', src(v)), site=ctx.site(fi, st))
                else:
                    good = False
                    if fi.qual == init_rsp_h.qual:
                        good = srcobj == fi.call_params()[0]
                    elif fi.qual == init_req_h.qual and srcobj is not None:
                        d = single_def(res, fi, srcobj)
                        good = isinstance(d, ast.Call) and callee_name(d) == 'generate_response' and d.args \
                            and common.exchange_of(d.args[0]) == 'IKE_SA_INIT'
                        # and that very object is returned
                        rets = [r for r in walk_no_nested(fi.node) if isinstance(r, ast.Return)]
                        good = good and all(r.value is not None and src(r.value) == srcobj for r in rets)
                    ctx.check(ok and good, 'G4', '%s: the retained IKE_SA_INIT response is the serialisation of %s' % (
                        fi.name, 'the received response' if fi.qual == init_rsp_h.qual else 'the response being returned'),
                        key=('G4', fi.qual, 'res-source', src(v)), site=ctx.site(fi, st))
    ctx.floor('G4 assignments to the retained IKE_SA_INIT bytes', n, 7)
    # re-derivation after every mutation of the request on the retry paths
    for fi in (init_rsp_h, gen_init):
        g = esc.add_exception_edges(fi)
        muts = []
        for nd in g.nodes:
            if nd.kind != 'stmt':
                continue
            if isinstance(nd.ast, ast.Assign) and any(
                    src(t) == 'self.request' or (isinstance(t, ast.Tuple) and any(src(e) == 'self.request' for e in t.elts))
                    for t in nd.ast.targets):
                muts.append(nd)
            elif isinstance(nd.ast, ast.Expr) and isinstance(nd.ast.value, ast.Call) and callee_name(nd.ast.value) in (
                    'insert', 'append', 'remove', 'pop') and src(nd.ast.value.func.value).startswith('self.request.'):
                muts.append(nd)
        ders = [nd for nd in g.nodes if nd.kind == 'stmt' and isinstance(nd.ast, ast.Assign)
                and any(src(t) == REQ_DATA for t in nd.ast.targets)]
        ctx.check(bool(muts), 'G4', '%s changes the outstanding IKE_SA_INIT request' % fi.name, key=('G4', fi.qual, 'no-mutation'),
                  site=ctx.site(fi, fi.node))
        for m in muts:
            ok = bool(ders) and g.exit.id not in g.reach([m], blocked_nodes=ders, follow_exc=False)
            ctx.check(ok, 'G4', '%s: after `%s` the retained request bytes are derived again before returning' % (
                fi.name, m.text()[:60]), key=('G4', fi.qual, 'stale-retained', m.text()[:40]), site=ctx.site(fi, m.ast))


MANIFEST = {
    'level': 'All-paths static decision of the authentication gate: in both IKE_AUTH handlers the ID type/data comparisons '
             '(received ID payload vs configured peer identity) and the AUTH verification dominate establishment, CHILD_SA '
             'processing and the normal return; every normal return of _verify_auth_payload passed the PSK comparison or the '
             'RSA verification under the method/credential dispatch; the four generate/verify sites are matched against the '
             'RFC 7296 2.15 table (retained message, other side\'s nonce, presented ID, signer\'s SK_p), the helper terms and '
             'the PSK pad constant are extracted and compared; provenance of the retained IKE_SA_INIT bytes incl. '
             're-derivation on COOKIE / INVALID_KE retries; response-proposal subset gate; typestate origin of ESTABLISHED.',
    'note': 'Trusted: HMAC/RSA soundness, resolver typing, effect catalogue. Declined: man-in-the-middle histories as such; '
            'whether the retained re-serialisation equals the wire bytes for non-canonical datagrams (C05).',
    'technique': 'dominance + path enumeration + term extraction against an RFC table + provenance + typestate',
    'design_ref': 'DESIGN.md 3/C02',
}
