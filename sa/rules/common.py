"""Helpers shared by the per-property rule modules."""
import ast
import os

from ..model import AnalysisError, attr_chain, src, walk_no_nested


def payload_registry(ctx):
    """Message.type_2_payload: {enum member name: ClassInfo} (literal dict, resolved exactly)."""
    prog = ctx.prog
    msg = prog.cls('message.Message')
    d = msg.lookup_attr('type_2_payload')
    ctx.require(isinstance(d, ast.Dict), 'anchor vanished: Message.type_2_payload literal dict')
    out = {}
    for k, v in zip(d.keys, d.values):
        c = prog.resolve_class_expr(v, msg.module, msg)
        ctx.require(c is not None, 'type_2_payload value %s is not a repository class' % src(v))
        out[src(k).split('.')[-1]] = c
    return out


def crypto_ctor_sites(ctx):
    """all construction sites of crypto.Crypto in the analysed modules"""
    out = []
    for fi in ctx.prog.all_functions():
        for n in walk_no_nested(fi.node):
            if isinstance(n, ast.Call):
                r = ctx.res.resolve_call(n, fi, count=False)
                if r.kind == 'ctor' and r.cls is not None and r.cls.qual == 'crypto.Crypto':
                    out.append((fi, n))
    return out


def crypto_kills(ctx, also=None):
    """Frozen assumption, backed by a who-constructs rule that is re-checked on every run:
    Crypto objects are constructed only in IkeSa.generate_ike_sa_key_material, where the
    cipher keys are split from the key material with that same cipher's key_size.  Hence
    `len(key) != self.key_size` (EncrError) and an AES key-size ValueError cannot happen."""
    sites = crypto_ctor_sites(ctx)
    ctx.floor('Crypto(...) construction sites', len(sites), 2)
    good = all(fi.qual == 'ikesa.IkeSa.generate_ike_sa_key_material' for fi, _ in sites)
    if good:
        good = _cipher_key_cut_to_size(ctx)
    ctx.stats['who-constructs Crypto'] = [fi.qual for fi, _ in sites]

    def kills(fi, node, exc, text, call=None):
        if also is not None:
            w = also(fi, node, exc, text, call)
            if w:
                return w
        w = literal_arg_kill(fi, exc, text, call)
        if w:
            return w
        if not good:
            return None
        if exc == 'EncrError' and call is None and fi.cls is not None and fi.cls.qual == 'crypto.Cipher' \
                and text.startswith('raise EncrError') and _guarded_by_key_size(ctx, fi, node):
            # only the raise under the key-length test is discharged; any other EncrError (IV size, ...) is kept
            return 'key length equals cipher.key_size by construction (who-constructs Crypto)'
        if exc == 'ValueError' and fi.cls is not None and fi.cls.qual == 'crypto.Cipher' and text.startswith('self._algorithm('):
            return 'AES key size valid by construction (who-constructs Crypto)'
        if exc == 'ValueError' and fi.qual == 'crypto.Cipher.encrypt':
            return ('encrypt side: IV is os.urandom(block_size) drawn in Message.__init__ or an IV that already '
                    'decrypted; plaintext is padded to a block multiple by PayloadSK.generate (C07/E3)')
        return None
    return kills


def _cipher_key_cut_to_size(ctx):
    """every Crypto(cipher, sk_e, ..) built in generate_ike_sa_key_material gets as sk_e a piece of the key material whose width
    is the key_size of that very cipher object (value terms: the pieces of the split, however it is written)"""
    from ..sval import strip_ids
    from .c04 import Split, RFC_ORDER, key_total
    from .. import tq
    gen = ctx.prog.func('ikesa.IkeSa.generate_ike_sa_key_material')
    V = ctx.sval(gen)
    kr = V.ret()
    if not tq.is_call(kr, 'namedtuple.Keyring'):
        return False
    a = tq.args(kr)
    sp = Split(V, [a.get(n) for n in RFC_ORDER])
    env = {'prf': 5, 'integ': 7, 'encr': 11}
    sizes = sp.sizes(ctx, gen, env) if sp.kind is not None else None
    ctors = V.calls_to(callee='new crypto.Crypto')
    if sizes is None or not ctors:
        return False
    if sp.kind == 'slice':
        # slices are as wide as asked only inside the string: the cut string is prf+ output of exactly the summed width
        km = sp.src
        if not tq.is_call(km, 'crypto.Prf.prfplus'):
            return False
        if key_total(tq.args(km).get('size', ('const', 'NoneType', None)), env) != sum(sizes):
            return False
    ciphers = {strip_ids(x) for x in tq.find(strip_ids(sp.holder), lambda y: tq.is_call(y, 'new crypto.Cipher'))}
    for c in ctors:
        ke, ci = c.args.get('sk_e'), c.args.get('cipher')
        at = [i for i, t in enumerate(sp.terms) if t == ke]
        if len(at) != 1 or sizes[at[0]] != env['encr'] or ci is None or ciphers != {strip_ids(ci)}:
            return False
    return True


def _guarded_by_key_size(ctx, fi, node):
    """the raise is reached exactly when `len(<key>) != self.key_size` (value-term path condition: a guard clause, an
    inverted if/else or a conjunction give the same single atom)"""
    from ..sval import norm_pc, strip_ids
    sv = ctx.sval(fi)
    st = node.ast if hasattr(node, 'ast') else node
    pc = sv.conds.get(id(st))
    if pc is None:
        return False
    key = [p for p in fi.call_params() if p == 'key']
    if not key:
        return False
    want = norm_pc(((sv.expr('len(key) != self.key_size'), True),))
    return strip_ids(norm_pc(pc)) == strip_ids(want)


def find_calls(ctx, fi, qual=None, name=None, lib=None):
    """calls inside fi that resolve to a repo function `qual`, a method named `name`, or a library callable"""
    out = []
    for n in walk_no_nested(fi.node):
        if isinstance(n, ast.Call):
            r = ctx.res.resolve_call(n, fi, count=False)
            if qual is not None and any(t.qual == qual for t in r.targets):
                out.append(n)
            elif name is not None and any(t.name == name for t in r.targets):
                out.append(n)
            elif lib is not None and r.kind == 'lib' and r.lib == lib:
                out.append(n)
    return out


def node_of(g, astnode):
    """CFG node(s) whose expressions contain astnode"""
    out = []
    for n in g.nodes:
        for e in n.exprs():
            if e is None:
                continue
            if e is astnode or any(x is astnode for x in ast.walk(e)):
                out.append(n)
                break
    return out


def is_self_attr(expr, fi, attr):
    return (isinstance(expr, ast.Attribute) and expr.attr == attr and isinstance(expr.value, ast.Name)
            and expr.value.id == fi.self_name)


def assigns_attr(node, fi, attr):
    """statement node assigns self.<attr>; returns value expr or None"""
    st = node.ast if hasattr(node, 'ast') else node
    if isinstance(st, ast.Assign):
        for t in st.targets:
            if is_self_attr(t, fi, attr):
                return st.value
            if isinstance(t, ast.Tuple):
                for i, e in enumerate(t.elts):
                    if is_self_attr(e, fi, attr):
                        return ('unpack', st.value, i)
    if isinstance(st, ast.AugAssign) and is_self_attr(st.target, fi, attr):
        return st
    return None


def state_name(expr):
    """'ESTABLISHED' for IkeSa.State.ESTABLISHED / State.ESTABLISHED"""
    ch = attr_chain(expr)
    if ch and '.State.' in '.' + ch:
        return ch.split('.')[-1]
    return None


# ---------------------------------------------------------------------------------------
# context-sensitive refinements at call edges: a constructor's "empty input" guard cannot
# fire when the caller passes a non-empty literal (derived fact, recomputed on every run)
def literal_arg_kill(fi, exc, text, call):
    if call is None or exc != 'InvalidSyntax' or not text.startswith('call message.'):
        return None
    callee = text[5:]
    if callee == 'message.PayloadSA.__init__' and call.args and isinstance(call.args[0], ast.List) \
            and call.args[0].elts:
        return 'PayloadSA built from a non-empty list display'
    if callee == 'message.PayloadVENDOR.__init__' and call.args and isinstance(call.args[0], ast.Constant) \
            and isinstance(call.args[0].value, bytes) and call.args[0].value:
        return 'PayloadVENDOR built from a non-empty bytes literal'
    if callee == 'message.PayloadNONCE.__init__' and not call.args and not call.keywords:
        return 'PayloadNONCE() draws a fresh 16..255 octet nonce (length test only applies to a given nonce)'
    return None


# Frozen configuration invariants (one reason each): exceptions that can only be raised when a
# loaded configuration violates what configuration.py guarantees (checked by C19/B2).
CONFIG_INVARIANTS = [
    # (caller qual prefix, callee qual, exception, reason)
    ('ikesa.IkeSa.', 'message.Proposal.copy_without_dh_transforms', 'InvalidSyntax',
     'configured proposals always carry INTEG (and ESN/ENCR) transforms, so the copy is never empty'),
    ('ikesa.IkeSa.', 'crypto.DiffieHellman.from_group', 'KeyError',
     'locally chosen DH groups come from configuration._dh_name_to_transform = the groups crypto.py supports'),
    ('ikesa.IkeSa.', 'crypto.DiffieHellman.from_group', 'IndexError',
     'locally chosen DH groups come from configuration._dh_name_to_transform = the groups crypto.py supports'),
    ('ikesa.IkeSa.', 'crypto.DiffieHellman.from_group', 'ValueError',
     'key generation for a supported group does not fail'),
    ('ikesa.IkeSa._generate_ike_sa_negotiation_request', 'message.Proposal.get_transform', 'StopIteration',
     'an IKE proposal built by the loader contains a DH transform (default [14])'),
]


def config_invariant_kill(fi, node, exc, text, call=None):
    if not text.startswith('call '):
        return None
    callee = text[5:]
    for pre, cq, e, why in CONFIG_INVARIANTS:
        if fi.qual.startswith(pre) and callee == cq and exc == e:
            return 'configuration invariant: ' + why
    return None


# ---------------------------------------------------------------------------------------
def table_insert_undo(ctx, esc, rule):
    """D2/V4: every IKE_SA registered in IkeSaController.ike_sas by an event whose later
    processing can raise is unregistered on that exceptional path, or is necessarily in
    state DELETED there (the timer sweep removes DELETED entries)."""
    from ..cfg import build_cfg, path_facts, fmt_path
    from ..typestate import States
    states = States(ctx.prog)
    ctrl = ctx.prog.cls('ikesacontroller.IkeSaController')
    nsites = 0
    for fi in ctrl.methods.values():
        g = esc.add_exception_edges(fi)
        for a in g.nodes:
            if a.kind != 'stmt':
                continue
            call = None
            for e in a.exprs():
                for x in walk_no_nested(e):
                    if (isinstance(x, ast.Call) and isinstance(x.func, ast.Attribute) and x.func.attr == 'append'
                            and src(x.func.value).endswith('ike_sas') and x.args):
                        call = x
            if call is None:
                continue
            nsites += 1
            elem = src(call.args[0])
            ctx.functions.add(fi.qual)
            bad = None
            npaths = 0
            for path in g.paths():
                if path[-1][0].kind != 'xexit':
                    continue
                idx = next((i for i, (n, lab) in enumerate(path) if n is a), None)
                if idx is None or isinstance(path[idx][1], tuple):
                    continue
                facts = path_facts(path, states, mutates_state=lambda c: state_mutating_call(ctx, fi, c))
                if facts is None:
                    continue
                npaths += 1
                removed = False
                for n, lab in path[idx + 1:]:
                    for e in n.exprs():
                        if e is None:
                            continue
                        for x in walk_no_nested(e):
                            if (isinstance(x, ast.Call) and isinstance(x.func, ast.Attribute)
                                    and x.func.attr == 'remove' and src(x.func.value).endswith('ike_sas')
                                    and x.args and src(x.args[0]) == elem):
                                removed = True
                if removed:
                    continue
                sts = facts['state'].get(elem + '.state')
                if sts is not None and sts <= {'DELETED'}:
                    continue
                bad = path
                break
            what = 'entry `%s` appended to ike_sas in %s is unregistered (or DELETED) on every exceptional exit (%d paths)' % (
                elem, fi.qual, npaths)
            if bad is None:
                ctx.ok(rule, what, ctx.site(fi, call))
            else:
                raiser = [n for n, lab in bad if isinstance(lab, tuple)]
                last = raiser[-1] if raiser else a
                ctx.bad(rule, (rule, fi.qual, 'append ' + elem, last.text()[:80]),
                        'an event that fails after `%s.append(%s)` leaves the entry registered: %s can raise at `%s`'
                        % (src(call.func.value), elem, fi.qual, last.text()[:80]),
                        ctx.site(fi, call), {'path': fmt_path(bad), 'raises': sorted((last.raises or {}).keys())})
    ctx.floor('%s ike_sas.append sites' % rule, nsites, 3)


def bytes_fields(cls):
    """attributes a class writes raw into its serialisation (`data += self.x`, `return self.x`)"""
    out = set()
    tb = cls.methods.get('to_bytes')
    if tb is None:
        return out
    for n in walk_no_nested(tb.node):
        v = None
        if isinstance(n, ast.AugAssign):
            v = n.value
        elif isinstance(n, ast.Return):
            v = n.value
        if isinstance(v, ast.Attribute) and isinstance(v.value, ast.Name) and v.value.id == 'self':
            out.add(v.attr)
    return out


def to_dict_value_kinds(ctx, rule):
    """no to_dict in message.py hands a raw byte-string field to json.dumps"""
    n = 0
    for c in ctx.prog.module('message').classes.values():
        td = c.methods.get('to_dict')
        if td is None:
            continue
        raw = set()
        for k in c.mro():
            raw |= bytes_fields(k)
        for x in walk_no_nested(td.node):
            vals = []
            if isinstance(x, ast.Assign) and isinstance(x.targets[0], ast.Subscript):
                vals = [x.value]
            elif isinstance(x, ast.Tuple) and len(x.elts) == 2 and isinstance(x.elts[0], ast.Constant):
                vals = [x.elts[1]]
            for v in vals:
                n += 1
                bad = isinstance(v, ast.Attribute) and isinstance(v.value, ast.Name) and v.value.id == 'self' \
                    and v.attr in raw
                ctx.check(not bad, rule, '%s emits `%s` in a JSON-serialisable form' % (td.qual, src(v)[:50]),
                          key=(rule, td.qual, 'raw-bytes', src(v)), site=ctx.site(td, x))
    ctx.floor('%s to_dict entries' % rule, n, 30)


_STATE_WRITERS = {}


def state_writers(ctx):
    """functions that (transitively) assign `<self>.state`"""
    key = id(ctx.prog)
    if key in _STATE_WRITERS:
        return _STATE_WRITERS[key]
    direct = set()
    for fi in ctx.prog.all_functions():
        for n in walk_no_nested(fi.node):
            if isinstance(n, ast.Assign) and any(isinstance(t, ast.Attribute) and t.attr == 'state'
                                                 for t in n.targets):
                direct.add(fi.qual)
    graph = ctx.res.call_graph()
    out = set(direct)
    changed = True
    while changed:
        changed = False
        for q, callees in graph.items():
            if q not in out and callees & out:
                out.add(q)
                changed = True
    _STATE_WRITERS[key] = out
    return out


def state_mutating_call(ctx, fi, call):
    r = ctx.res.resolve_call(call, fi, count=False)
    if not r.targets:
        return False
    w = state_writers(ctx)
    return any(t.qual in w for t in r.targets)


def state_assert_kill(fi, node, exc, text, call=None):
    """`assert self.state ...` is decided by the typestate analysis (typestate_asserts_hold),
    not by the flow-insensitive escape analysis."""
    if exc == 'AssertionError' and text.startswith('assert ') and '.state' in text:
        return 'state assertion: decided by typestate (S1)'
    return None


def chain_kills(*fs):
    def k(fi, node, exc, text, call=None):
        for f in fs:
            w = f(fi, node, exc, text, call)
            if w:
                return w
        return None
    return k


def engine_kills(ctx):
    """the standard refinement set used by every rule that needs "cannot raise" facts"""
    return crypto_kills(ctx, also=chain_kills(config_invariant_kill, state_assert_kill))


ENTRY_POINTS = ['process_message', 'process_acquire', 'process_expire', 'check_retransmission_timer',
                'check_dead_peer_detection_timer', 'check_rekey_ike_sa_timer']


# the states of an IKE_SA whose peer has not been authenticated yet (RFC 7296 1.2: before the IKE_AUTH exchange completed), by name:
# the oracle must not be derived from the numbers the code gives its states
PRE_AUTH_STATES = frozenset(('INITIAL', 'INIT_RES_SENT', 'INIT_REQ_SENT', 'AUTH_REQ_SENT'))


def pre_auth_states(ctx, S):
    for n in PRE_AUTH_STATES:
        ctx.require(n in S.members, 'anchor vanished: IkeSa.State.%s' % n)
    return set(PRE_AUTH_STATES)


def typestate(ctx, esc):
    """run the typestate analysis from every entry point of IkeSa in every state (cached per ctx)"""
    ts = getattr(ctx, '_typestate', None)
    if ts is None or ts.esc is not esc:
        from ..typestate import Typestate
        ts = Typestate(ctx.prog, ctx.res, esc)
        ts.entry_outcomes = {}
        for name in ENTRY_POINTS:
            fi = ctx.prog.func('ikesa.IkeSa.' + name)
            ts.entry_outcomes[name] = ts.run_entry(fi)
        ctx._typestate = ts
        # two members with one value are one state (an enum alias): every `in (...)`, `==` and range() test on either of them
        # then also admits the other, whatever the names in the source say
        byval = {}
        for n, v in ts.S.members.items():
            byval.setdefault(v, []).append(n)
        dups = sorted(sorted(ns) for ns in byval.values() if len(ns) > 1)
        st = ctx.prog.classes.get('ikesa.IkeSa.State')
        ctx.check(not dups, 'TS', 'the members of IkeSa.State have pairwise distinct values', key=('TS', 'state-values-distinct'),
                  site=ctx.site(ctx.prog.func('ikesa.IkeSa.__init__'), st.node) if st is not None else None,
                  detail={'members sharing a value': dups})
    return ts


def typestate_asserts_hold(ctx, esc, rule):
    ts = typestate(ctx, esc)
    nass = sum(1 for k in ts.checks if k[1] == 'assert') + sum(1 for k in ts.failures if k[1] == 'assert'
                                                                 and k not in ts.checks)
    asserts = sorted(set(k for k in list(ts.checks) + list(ts.failures) if k[1] == 'assert'))
    # every state assert in IkeSa must have been reached by the analysis
    total = 0
    for fi in ctx.prog.cls('ikesa.IkeSa').methods.values():
        for n in walk_no_nested(fi.node):
            if isinstance(n, ast.Assert) and '.state' in src(n.test):
                total += 1
                k = (fi.qual, 'assert', src(n.test))
                f = ts.failures.get(k)
                if f is None:
                    ctx.ok(rule, 'state precondition `assert %s` of %s holds at every call site in every reachable '
                           'state' % (src(n.test), fi.qual), ctx.site(fi, n))
                else:
                    ctx.bad(rule, (rule, fi.qual, 'assert ' + src(n.test), ','.join(sorted(f['states']))),
                            'state precondition `assert %s` of %s fails in state(s) %s via %s' % (
                                src(n.test), fi.qual, sorted(f['states']), f['chains'][0][1]),
                            ctx.site(fi, n), {'chains': f['chains']})
    ctx.floor('%s state assertions in IkeSa' % rule, total, 7)
    return ts


# ---------------------------------------------------------------------------------------
def handler_table(ctx, fname):
    """{exchange member name: FuncInfo} of the literal `_handler_dict` in IkeSa.<fname>"""
    fi = ctx.prog.func('ikesa.IkeSa.' + fname)
    for n in walk_no_nested(fi.node):
        if isinstance(n, ast.Assign) and isinstance(n.value, ast.Dict) and len(n.value.keys) >= 3 \
                and all(isinstance(v, ast.Attribute) and isinstance(v.value, ast.Name) and v.value.id == 'self'
                        for v in n.value.values):
            out = {}
            for k, v in zip(n.value.keys, n.value.values):
                m = fi.cls.lookup(v.attr)
                ctx.require(m is not None, 'handler %s of %s is not a method' % (v.attr, fname))
                out[src(k).split('.')[-1]] = m
            return out
    # the same dispatch written as a chain of tests on the exchange type: `if <x>.exchange_type == Message.Exchange.K: h = self.m`
    out = {}
    for n in walk_no_nested(fi.node):
        if isinstance(n, ast.If) and isinstance(n.test, ast.Compare) and len(n.test.ops) == 1 and isinstance(n.test.ops[0], ast.Eq):
            sides = [n.test.left, n.test.comparators[0]]
            ks = [x for x in sides if '.Exchange.' in src(x)]
            subj = [x for x in sides if isinstance(x, ast.Attribute) and x.attr == 'exchange_type']
            if len(ks) == 1 and len(subj) == 1:
                for st in n.body:
                    v = None
                    if isinstance(st, ast.Assign) and isinstance(st.value, ast.Attribute):
                        v = st.value
                    elif isinstance(st, (ast.Assign, ast.Expr, ast.Return)) and isinstance(getattr(st, 'value', None), ast.Call) \
                            and isinstance(st.value.func, ast.Attribute):
                        v = st.value.func
                    if v is not None and isinstance(v.value, ast.Name) and v.value.id == fi.self_name and fi.cls.lookup(v.attr) is not None:
                        out[src(ks[0]).split('.')[-1]] = fi.cls.lookup(v.attr)
                        break
    if len(out) >= 3:
        return out
    raise AnalysisError('anchor vanished: handler dispatch (dict literal or chain of exchange-type tests) in IkeSa.%s' % fname)


def exception_passes(ctx, rule, caller, callee, exc_name, what, key):
    """every call of `callee` in `caller` lets an exception of class `exc_name` out unchanged: no enclosing handler of the caller catches
    it, unless that handler re-raises the very exception"""
    fi = ctx.func(caller)
    S = ctx.sval(fi)
    hier = ctx.escape('engine', kills=engine_kills(ctx)).hier
    calls = S.calls_to(qual=callee)
    ctx.floor('%s %s call in %s' % (rule, callee.split('.')[-1], fi.name), len(calls), 1, rule=rule)
    tries = {}
    for n in ast.walk(fi.node):
        if isinstance(n, ast.Try):
            for b in n.body:
                for x in ast.walk(b):
                    tries.setdefault(id(x), []).append(n)
    for c in calls:
        swallowed = []
        for tr in tries.get(id(c.node), []):
            for h in tr.handlers:
                names = ['BaseException'] if h.type is None else [hier.name_of(e, fi.module, fi.cls) for e in (
                    h.type.elts if isinstance(h.type, ast.Tuple) else [h.type])]
                if any(nm and hier.is_sub(exc_name, nm) for nm in names):
                    reraises = any(isinstance(x, ast.Raise) and (x.exc is None or (isinstance(x.exc, ast.Name) and x.exc.id == h.name))
                                   for x in ast.walk(h))
                    if not reraises:
                        swallowed.append(src(h.type) if h.type is not None else 'bare except')
        ctx.check(not swallowed, rule, what, key=(rule, key), site=ctx.site(fi, c.node), detail={'handlers': swallowed})


def parse_errors_propagate(ctx, rule):
    """IkeSa.process_message lets what Message.parse raises escape to its caller: the controller undoes the registration of a fresh
    responder IKE_SA (and half-open bookkeeping) in its `except` clause, so a parse error swallowed one level below leaves the entry in
    the table for good (state INITIAL has no timer)"""
    exception_passes(ctx, rule, 'ikesa.IkeSa.process_message', 'message.Message.parse', 'InvalidSyntax',
                     'a datagram that Message.parse refuses leaves process_message as that exception (no handler on the way swallows it)',
                     'parse-error-swallowed')


MUTATORS = ('sort', 'append', 'remove', 'insert', 'extend', 'pop', 'clear', 'reverse', 'update', 'add', 'discard', 'setdefault', 'popitem')


CLOCKS = ('time.time', 'time.monotonic', 'time.perf_counter', 'time.time_ns', 'time.monotonic_ns', 'time.perf_counter_ns', 'time.process_time',
          'time.clock_gettime', 'datetime.datetime.now', 'datetime.datetime.utcnow', 'datetime.now', 'datetime.utcnow')


def one_clock(ctx, rule):
    """the timers of the daemon (retransmission, dead peer detection, rekey, the windows of the main loop) store deadlines and compare them
    with `now`: all readings come from ONE clock.  A deadline taken from another clock (seconds since boot against seconds since 1970)
    is always in the past or never reached - every pass of the timer sweep then retransmits, or none ever does."""
    seen = {}
    for fi in ctx.prog.all_functions():
        if fi.module.name not in ('ikesa', 'ikesacontroller') or not isinstance(fi.node, ast.FunctionDef):
            continue
        for n in walk_no_nested(fi.node):
            if isinstance(n, ast.Call):
                r = ctx.res.resolve_call(n, fi, count=False)
                if r.kind == 'lib' and r.lib in CLOCKS:
                    seen.setdefault(r.lib, []).append((fi, n))
    ctx.floor('%s clock readings in ikesa / ikesacontroller' % rule, sum(len(v) for v in seen.values()), 8, rule=rule)
    if len(seen) > 1:
        major = max(seen, key=lambda k: len(seen[k]))
        for lib, sites in sorted(seen.items()):
            if lib == major:
                continue
            for fi, n in sites:
                ctx.bad(rule, (rule, 'mixed-clocks', fi.qual, lib), '%s reads %s while the other %d timer readings use %s: deadlines and '
                        'comparisons on different clocks' % (fi.qual, lib, len(seen[major]), major), ctx.site(fi, n))
    else:
        ctx.ok(rule, 'every timer reading (%d sites) uses the one clock %s' % (sum(len(v) for v in seen.values()), ', '.join(seen)))


def loaders_read_only(ctx, rule):
    """the configuration loaders read the mapping they are given and never write to it: the mapping (and every nested mapping / list
    reached from it - a `protect` entry, an auth section) belongs to the caller, and one object may appear under several connections
    (a YAML alias, a dict the caller reuses); a default written back into it by one connection is read by the next."""
    conf = ctx.prog.module('configuration')
    n = 0
    for fi in ctx.prog.all_functions():
        if fi.module is not conf or not isinstance(fi.node, ast.FunctionDef):
            continue
        params = {a.arg for a in ast.walk(fi.node.args) if isinstance(a, ast.arg)} - {fi.self_name or ''}
        if not params:
            continue
        # names that hold the input or something reached from it
        tainted = set(params)
        for _ in range(4):
            for x in walk_no_nested(fi.node):
                src_e, tgts = None, []
                if isinstance(x, ast.Assign):
                    src_e, tgts = x.value, x.targets
                elif isinstance(x, (ast.For, ast.comprehension)):
                    src_e, tgts = x.iter, [x.target]
                if src_e is None:
                    continue
                base = src_e
                while True:
                    if isinstance(base, ast.Subscript):
                        base = base.value
                    elif isinstance(base, ast.Call) and isinstance(base.func, ast.Attribute) and base.func.attr in ('get', 'items', 'values', 'keys'):
                        base = base.func.value
                    elif isinstance(base, ast.Call) and isinstance(base.func, ast.Name) and base.func.id in ('enumerate', 'sorted', 'reversed', 'iter') \
                            and base.args:
                        base = base.args[0]            # (sorted() copies the list but not the mappings in it)
                    else:
                        break
                if isinstance(base, ast.Name) and base.id in tainted:
                    for t in tgts:
                        for y in ast.walk(t):
                            if isinstance(y, ast.Name):
                                tainted.add(y.id)
        n += 1

        def root(e):
            while isinstance(e, (ast.Subscript, ast.Attribute)):
                e = e.value
            if isinstance(e, ast.Call) and isinstance(e.func, ast.Attribute) and e.func.attr == 'get':
                return root(e.func.value)
            return e.id if isinstance(e, ast.Name) else None
        bad = []
        for x in walk_no_nested(fi.node):
            if isinstance(x, ast.Call) and isinstance(x.func, ast.Attribute) and x.func.attr in (
                    'setdefault', 'update', 'pop', 'popitem', 'clear', 'append', 'extend', 'insert', 'remove', 'sort', 'reverse', '__setitem__',
                    '__delitem__') and root(x.func.value) in tainted and not (
                        isinstance(x.func.value, ast.Attribute) and isinstance(x.func.value.value, ast.Name)
                        and x.func.value.value.id == (fi.self_name or '')):
                bad.append(x)
            elif isinstance(x, ast.Subscript) and isinstance(x.ctx, (ast.Store, ast.Del)) and root(x.value) in tainted:
                bad.append(x)
        for x in bad:
            ctx.bad(rule, (rule, 'loader-writes-input', fi.qual, src(x)[:50]),
                    '%s writes to the configuration mapping it was given (`%s`): the mapping is the caller\'s and may be shared by other '
                    'connections' % (fi.qual, src(x)[:80]), ctx.site(fi, x))
        if not bad:
            ctx.ok(rule, '%s only reads the mapping it is given' % fi.qual, ctx.site(fi, fi.node))
    ctx.floor('%s configuration loaders taking a mapping' % rule, n, 5, rule=rule)


def config_not_mutated(ctx, rule):
    """the loaded configuration is shared by every IKE_SA of a connection and by every negotiation on it: nothing rearranges it in
    place.  (1) the value classes of message.py (Proposal, Transform, TrafficSelector) have no method that changes the receiver - also
    not through a shallow copy, which shares its lists; (2) IkeSa never calls a mutator on an object that it reached from
    self.configuration, from the policy lookup, or that was handed in as an argument."""
    from ..sval import strip_ids, NONE
    from .. import tq
    prog = ctx.prog
    me = ('param', 'self')

    def shares_self(t):
        # self, or a shallow copy of self
        return t == me or (tq.is_call(t) and isinstance(t[1], str) and t[1] in ('copy.copy', 'builtins.copy') and
                           list(tq.args(t).values())[:1] == [me])
    n = 0
    for cname in ('Proposal', 'Transform', 'TrafficSelector'):
        cls = prog.cls('message.' + cname)
        for fi in cls.methods.values():
            if fi.name == '__init__' or not isinstance(fi.node, ast.FunctionDef):
                continue
            n += 1
            S = ctx.sval(fi)
            bad = []
            for c in S.calls:
                r = strip_ids(c.recv) if c.recv is not None else NONE
                if c.name in MUTATORS and r[0] == 'attr' and shares_self(r[1]):
                    bad.append('%s.%s(...)' % (tq.text(r, 60), c.name))
            for t, v, pc, st, _ in S.stores:
                t = strip_ids(t)
                if t[0] in ('attr', 'index') and (t[1] == me or (t[1][0] == 'attr' and shares_self(t[1][1]))):
                    bad.append('%s = ...' % tq.text(t, 60))
            ctx.check(not bad, rule, '%s.%s does not change the object it is called on' % (cname, fi.name),
                      key=(rule, 'value-class-mutated', cname, fi.name), site=ctx.site(fi, fi.node), detail={'mutations': bad})
    ikesa = prog.cls('ikesa.IkeSa')
    for fi in ikesa.methods.values():
        if not isinstance(fi.node, ast.FunctionDef):
            continue
        S = ctx.sval(fi)
        params = {('param', p) for p in fi.call_params()}

        def from_config(t):
            # reached from the configuration, from the policy lookup, handed in by the caller - or the inside of a Proposal / SA
            # payload, wherever it was found: requests are built around the configured Proposal objects themselves
            return any(x == ('attr', me, 'configuration') or x in params or
                       (tq.is_call(x) and isinstance(x[1], str) and x[1].endswith('._get_ipsec_configuration')) or
                       (x[0] == 'attr' and x[2] in ('transforms', 'proposals', 'protect'))
                       for x in tq.subterms(t) if isinstance(x, tuple) and x)
        for c in S.calls:
            r = strip_ids(c.recv) if c.recv is not None else NONE
            if c.name in MUTATORS and r[0] in ('attr', 'index', 'param') and from_config(r):
                n += 1
                ctx.bad(rule, (rule, 'config-mutated', fi.qual, c.name), '%s: `%s.%s(...)` changes an object reached from the configuration or '
                        'handed in by the caller' % (fi.name, tq.text(r, 80), c.name), ctx.site(fi, c.node), {})
    ctx.floor('%s methods examined for in-place changes' % rule, n, 10, rule=rule)


def from_exception_total(ctx, esc, rule):
    """PayloadNOTIFY.from_exception answers for *any* exception object: the generic `except Exception` arm of the request processing hands
    it whatever was raised, and runs it before the response is stored, the Message ID counted and the IKE_SA marked DELETED - if it
    raised, all three would be skipped"""
    fe = ctx.func('message.PayloadNOTIFY.from_exception')
    out = esc.escapes(fe)
    ctx.check(not out, rule, 'PayloadNOTIFY.from_exception cannot raise, whatever exception it is given', key=(rule, 'from-exception-total'),
              site=ctx.site(fe, fe.node), detail={'can raise': {k: sorted(v)[:3] for k, v in out.items()}})


def own_notify_for(ctx, fi, exc_name):
    """True when `fi` answers an exception of class message.<exc_name> raised inside its try block with exactly the one notification
    built from that exception (`[PayloadNOTIFY.from_exception(ex)]`): decided on the returns whose path condition is "an exception of
    a class that covers exc_name was caught", with every isinstance(ex, ...) test on the caught exception evaluated by the class
    hierarchy - so a tuple of classes in the except clause and a test inside a broader handler are the same thing"""
    from ..sval import strip_ids
    from .. import tq
    S = ctx.sval(fi)
    hier = ctx.escape('engine', kills=engine_kills(ctx)).hier

    def classes(t):
        t = strip_ids(t)
        if t[0] == 'tuple':
            return [x[1].split('.')[-1] for x in t[1] if x[0] == 'global']
        return [t[1].split('.')[-1]] if t[0] == 'global' else []
    hits = []
    for pc, t, node in S.returns:
        took, ok = False, True
        for a, val in pc:
            a = strip_ids(a)
            if a[0] == 'caught':
                covers = any(hier.is_sub(exc_name, c) for c in classes(a[1]))
                if covers != val:
                    ok = False
                took = took or (covers and val)
            elif tq.is_call(a, 'builtins.isinstance'):
                av = list(tq.args(a).values())
                if len(av) == 2 and av[0][0] == 'exc':
                    if any(hier.is_sub(exc_name, c) for c in classes(av[1])) != val:
                        ok = False
        if took and ok:
            hits.append((getattr(node, 'lineno', 0), strip_ids(t)))
    if not hits:
        return False
    st = sorted(hits)[0][1]         # the first handler, in source order, that takes it
    return st[0] == 'list' and len(st[1]) == 1 and tq.is_call(st[1][0], 'message.PayloadNOTIFY.from_exception') \
        and list(tq.args(st[1][0]).values())[0][0] == 'exc'


def miss_path(pc, exc='StopIteration'):
    """this path is taken when - and only when - the lookup's exception was caught: directly under the handler, or under a test of the
    value the handler leaves behind (`x = None` in the handler, then `if x is None`)"""
    from ..sval import is_const, cval
    from .. import tq

    def is_caught(t):
        return t[0] == 'caught' and exc in tq.text(t)

    def under(v):
        return lambda t: v if is_caught(t) else None
    rel = [a for a in pc if is_caught(a[0]) or tq.find(a[0], is_caught)]
    if not rel:
        return False
    hit = [tq.restrict(a[0], under(True)) if not is_caught(a[0]) else ('const', 'bool', True) for a in rel]
    oth = [tq.restrict(a[0], under(False)) if not is_caught(a[0]) else ('const', 'bool', False) for a in rel]
    holds = all(is_const(h) and bool(cval(h)) == a[1] for h, a in zip(hit, rel))
    fails = any(is_const(o) and bool(cval(o)) != a[1] for o, a in zip(oth, rel)) or any(not is_const(o) for o in oth)
    return holds and fails


def identity_with_raw_int(ctx, rule, quals):
    """`x is Enum.MEMBER` is never true for an x that is a plain int (an octet out of struct.unpack, a literal, arithmetic): where such a
    value can reach the comparison, the branch is silently dead for it although the numbers are equal.  Reports every identity
    comparison with an enumeration member in the given functions whose other operand has a raw-integer origin."""
    n = 0
    for q in sorted(quals):
        fi = ctx.prog.functions.get(q)
        if fi is None:
            continue
        for x in walk_no_nested(fi.node):
            if not (isinstance(x, ast.Compare) and len(x.ops) == 1 and isinstance(x.ops[0], (ast.Is, ast.IsNot))):
                continue
            sides = [x.left, x.comparators[0]]
            members = [s for s in sides if attr_chain(s) and _enum_member(ctx, s, fi)]
            if len(members) != 1:
                continue
            other = sides[1] if members[0] is sides[0] else sides[0]
            n += 1
            t = ctx.res.expr_type(other, fi)
            raw = any(isinstance(y, tuple) and y[0] == 'libobj' and str(y[1]).startswith('struct.') for y in t) \
                or isinstance(other, (ast.Constant, ast.BinOp))
            ctx.check(not raw, rule, '%s: identity comparison `%s` with an enumeration member of a value that can be a plain integer '
                      '(unpacked from the wire): never true for it' % (fi.qual, src(x)), key=(rule, 'identity-raw-int', fi.qual, src(members[0])),
                      site=ctx.site(fi, x))
        # the same confusion the other way round: `.name` / `.value` of something that can be a plain integer is an AttributeError
        for x in ast.walk(fi.node):
            if isinstance(x, ast.Attribute) and x.attr in ('name', 'value') and isinstance(x.ctx, ast.Load) and isinstance(x.value, ast.Name):
                t = ctx.res.expr_type(x.value, fi)
                if any(isinstance(y, tuple) and y[0] == 'libobj' and str(y[1]).startswith('struct.') for y in t):
                    n += 1
                    ctx.bad(rule, (rule, 'member-attr-of-raw-int', fi.qual, src(x)), '%s: `%s` reads an enumeration attribute of a value that can be '
                            'a plain integer unpacked from the wire (AttributeError)' % (fi.qual, src(x)), ctx.site(fi, x))
    return n


def member_attr_of_library_int(ctx, rule, quals):
    """`p.name` / `p.value` where the parameter p is, at every call site of the program, one of the library's integer constants
    (`socket.IPPROTO_ESP`, `socket.AF_INET6` are plain ints or IntEnum members depending on the constant - the IPPROTO_* ones are ints) or
    a literal: an AttributeError waiting in whatever path reads it (typically an error report)"""
    from ..sval import strip_ids
    from .. import tq
    n = 0
    for q in quals:
        fi = ctx.prog.functions.get(q)
        if fi is None or not isinstance(fi.node, ast.FunctionDef):
            continue
        params = fi.call_params()
        uses = [x for x in ast.walk(fi.node) if isinstance(x, ast.Attribute) and x.attr in ('name', 'value') and isinstance(x.ctx, ast.Load)
                and isinstance(x.value, ast.Name) and x.value.id in params]
        for x in uses:
            n += 1
            p = x.value.id
            leaves = []
            for g in ctx.prog.all_functions():
                if not isinstance(g.node, ast.FunctionDef):
                    continue
                for c in ctx.sval(g).calls_to(qual=q):
                    t = c.args.get(p)
                    if t is None:
                        continue

                    def lv(t):
                        return lv(t[2]) + lv(t[3]) if t[0] == 'cond' else [strip_ids(t)]
                    leaves += lv(t)
            plain = bool(leaves) and all((l[0] == 'global' and l[1].startswith('socket.IPPROTO_')) or
                                         (l[0] == 'const' and isinstance(l[2], int)) for l in leaves)
            ctx.check(not plain, rule, '%s: `%s` reads an enumeration attribute of a parameter that every caller fills with a plain integer '
                      'constant (AttributeError)' % (fi.qual, src(x)), key=(rule, 'member-attr-of-int', fi.qual, src(x)), site=ctx.site(fi, x),
                      detail={'values passed': [tq.text(l, 60) for l in leaves[:6]]})
    return n


def _enum_member(ctx, e, fi):
    ch = attr_chain(e)
    if not ch or '.' not in ch:
        return False
    c = ctx.prog.resolve_class_expr(e.value, fi.module, fi.cls) if isinstance(e, ast.Attribute) else None
    return c is not None and ctx.prog.is_enum(c) and e.attr in c.attrs


def lookup_protocol(ctx, qual):
    """how a table lookup helper reports a miss: 'raises' (`next(<generator>)`: StopIteration) or 'none' (`next(<generator>, None)`, or a
    search loop falling through to `return None`); None when it is neither"""
    from ..sval import NONE
    from .. import tq
    S = ctx.sval(ctx.func(qual))
    rets = [t for _, t, _ in S.returns]
    if len(rets) == 1 and tq.is_call(rets[0], 'builtins.next'):
        a = [v for _, v in rets[0][3]]
        if len(a) == 1:
            return 'raises'
        if len(a) == 2 and a[1] == NONE:
            return 'none'
        return None
    if rets and any(t == NONE for t in rets):
        return 'none'
    return None


def lookup_missed(pc, protocol, result, exc='StopIteration'):
    """this path is taken when - and only when - the lookup whose value term is `result` found nothing: its exception was caught
    (protocol 'raises', see miss_path) or its result is None (protocol 'none': `if x is None`, `if not x`, the else of `if x`)"""
    from ..sval import strip_ids, NONE
    if protocol == 'raises':
        return miss_path(pc, exc)
    if protocol != 'none':
        return False
    L = strip_ids(result)

    def val(t, none):
        # the value of test t when the lookup result is None (none=True) / an object (none=False); None when t says nothing
        if t == L:
            return not none
        if t[0] == 'cmp' and t[1] in ('is', '==') and {t[2], t[3]} == {L, NONE}:
            return none
        if t[0] == 'not':
            v = val(t[1], none)
            return None if v is None else not v
        if t[0] in ('and', 'or'):
            vs = [val(x, none) for x in t[1]]
            if t[0] == 'and' and any(v is False for v in vs):
                return False
            if t[0] == 'or' and any(v is True for v in vs):
                return True
            if all(v is not None for v in vs):
                return all(vs) if t[0] == 'and' else any(vs)
        return None
    from .. import tq
    rel = [(strip_ids(a[0]), a[1]) for a in pc if tq.contains(strip_ids(a[0]), L)]
    if not rel:
        return False
    holds = all(val(t, True) == v for t, v in rel)
    fails = any(val(t, False) != v for t, v in rel)
    return holds and fails


def lookup_side(pc, key):
    """which side of a table lookup by `key` a path condition is on: 'miss' when the KeyError of the lookup was caught or the membership
    test `key in <table>` failed, 'hit' when nothing else constrains the path (at most the membership test held), else None.
    The two ways of writing "look it up, fall back when it is not there" - try/except KeyError and `if key in table` - give the same answer."""
    from ..sval import strip_ids
    key = strip_ids(key)
    side = 'hit'
    for a, val in strip_ids(tuple(pc)):
        if a[0] == 'caught' and a[1] == ('global', 'builtins.KeyError'):
            if val:
                side = 'miss'            # (not caught: the lookup went through - the hit side)
        elif a[0] == 'cmp' and a[1] == 'in' and a[2] == key:
            if not val:
                side = 'miss'
        else:
            return None
    return side


def notify_field_of(ctx, exc_name, field):
    """value term of argument `field` of the PayloadNOTIFY that from_exception builds for an exception whose class is exactly
    message.<exc_name>: every test `type(ex) == <class>` / isinstance(ex, <class>) is decided - whether the mapping is written as a table
    looked up by class, a chain of tests, or a mix.  (FE, term) or (FE, None)"""
    from ..sval import NONE, strip_ids
    from .. import tq
    fe = ctx.func('message.PayloadNOTIFY.from_exception')
    FE = ctx.sval(fe)
    note = FE.ret()
    if not tq.is_call(note, 'new message.PayloadNOTIFY'):
        return FE, None
    nt = tq.args(note).get(field, NONE)
    tex = strip_ids(FE.expr('type(%s)' % fe.call_params()[0]))

    def decide(test):
        test = strip_ids(test)
        if test[0] == 'cmp' and test[1] in ('==', 'is') and tex in test[2:]:
            other = test[3] if test[2] == tex else test[2]
            if other[0] == 'global':
                return other[1].split('.')[-1] == exc_name
        if tq.is_call(test, 'builtins.isinstance'):
            a = list(tq.args(test).values())
            if len(a) == 2 and a[0] == ('param', fe.call_params()[0]) and a[1][0] == 'global':
                return ctx.escape('engine', kills=engine_kills(ctx)).hier.is_sub(exc_name, a[1][1].split('.')[-1])
        return None
    return FE, tq.restrict(nt, decide)


def notify_type_of(ctx, exc_name):
    """member name of the notification type for exactly that exception class, or None"""
    _, r = notify_field_of(ctx, exc_name, 'notification_type')
    return r[1].split('.')[-1] if r is not None and r[0] == 'global' else None


def exchange_of(expr):
    ch = attr_chain(expr)
    if ch and '.Exchange.' in ch:
        return ch.split('.')[-1]
    return None


def request_generators(ctx):
    """functions of IkeSa that store generate_request(Exchange.T, ...) into self.request:
    [{fi, exchange, node (the storing statement), states (set of state names the function can store into self.state)}]
    (read from value terms: locals, helpers and conditional expressions in between do not matter)"""
    from .. import tq
    out = []
    cls = ctx.prog.cls('ikesa.IkeSa')
    for fi in cls.methods.values():
        if not isinstance(fi.node, ast.FunctionDef):
            continue
        sv = ctx.sval(fi)
        me = ('param', fi.self_name)
        for t, v, pc, st, _ in sv.stores:
            if t != ('attr', me, 'request') or not tq.is_call(v, 'ikesa.IkeSa.generate_request'):
                continue
            ex = tq.args(v).get('exchange_type', ('undef',))
            ex = ex[1].split('.')[-1] if ex[0] == 'global' and '.Exchange.' in ex[1] else None
            states = set()
            for t2, v2, _, _, _ in sv.stores:
                if t2 == ('attr', me, 'state'):
                    for x in tq.find(v2, lambda y: y[0] == 'global' and y[1].startswith('ikesa.IkeSa.State.')):
                        states.add(x[1].split('.')[-1])
            out.append({'fi': fi, 'exchange': ex, 'node': st, 'states': states})
    return out


def dominated_by_edge(g, target, cond, label):
    """every path from entry to `target` takes the `label` edge of `cond`"""
    blocked = [(cond.id, lab, m.id) for lab, m in cond.succ if lab == label]
    return target.id not in g.reach([g.entry], blocked_edges=blocked)


def nodes_calling(ctx, fi, g, pred):
    """CFG nodes of fi containing a call for which pred(call, Res) holds: [(node, call)]"""
    out = []
    for n in g.nodes:
        for e in n.exprs():
            if e is None:
                continue
            for x in walk_no_nested(e):
                if isinstance(x, ast.Call) and pred(x, ctx.res.resolve_call(x, fi, count=False)):
                    out.append((n, x))
    return out


def calls_named(name):
    return lambda call, r: (isinstance(call.func, ast.Attribute) and call.func.attr == name) or \
        (isinstance(call.func, ast.Name) and call.func.id == name)


def deleted_observed(ctx, esc, rule):
    """P4/D3: both places where the controller can observe an IKE_SA in DELETED tear it down:
    `x.delete_child_sas()` and `ike_sas.remove(x)` under `x.state == DELETED`."""
    from ..typestate import States
    S = States(ctx.prog)
    sites = 0
    ctrl_cls = ctx.prog.cls('ikesacontroller.IkeSaController')
    for q in ('ikesacontroller.IkeSaController.dispatch_message', 'ikesacontroller.IkeSaController.main_loop'):
        root = ctx.func(q)
        # the teardown may live in the entry point itself or in a private helper of the controller it calls
        helpers = [ctx.prog.functions[x] for x in sorted(esc.reach([root])) if x in ctx.prog.functions
                   and ctx.prog.functions[x].cls is ctrl_cls and x != q
                   and x not in ('ikesacontroller.IkeSaController.dispatch_message', 'ikesacontroller.IkeSaController.main_loop')]
        found = False
        for fi in [root] + helpers:
          g = esc.add_exception_edges(fi)
          for c in g.nodes:
              if c.kind != 'cond':
                  continue
              ev = S.eval_cond(c.ast)
              if ev is None or ev[1] != frozenset(['DELETED']):
                  continue
              subj = ev[0].rsplit('.', 1)[0]
              tnodes = g.reach([m for lab, m in c.succ if lab == 'T'], blocked_nodes=[c], follow_exc=False)
              dele = [n for n, x in nodes_calling(ctx, fi, g, calls_named('delete_child_sas'))
                      if n.id in tnodes and src(x.func.value) == subj and dominated_by_edge(g, n, c, 'T')]
              rem = [n for n, x in nodes_calling(ctx, fi, g, calls_named('remove'))
                     if n.id in tnodes and src(x.func.value).endswith('ike_sas') and x.args and src(x.args[0]) == subj
                     and dominated_by_edge(g, n, c, 'T')]
              if dele and rem:
                  found = True
                  sites += 1
                  # delete before remove
                  order_ok = all(r.id in g.reach([d]) for d in dele for r in rem)
                  ctx.check(order_ok, rule, '%s: DELETED `%s` is torn down (delete_child_sas then removal from ike_sas)'
                            % (q.split('.')[-1], subj), key=(rule, q, 'teardown-order'), site=ctx.site(fi, c.ast))
        ctx.check(found, rule, '%s tears down an IKE_SA observed in state DELETED' % q.split('.')[-1],
                  key=(rule, q, 'no-teardown'), site=ctx.site(root, root.node))
    # every removal from ike_sas is paired with delete_child_sas on the same object
    ctrl = ctx.prog.cls('ikesacontroller.IkeSaController')
    for fi in ctrl.methods.values():
        g = esc.add_exception_edges(fi)
        for n, x in nodes_calling(ctx, fi, g, calls_named('remove')):
            if not src(x.func.value).endswith('ike_sas') or not x.args:
                continue
            subj = src(x.args[0])
            # inside an exception handler that undoes a registration made by the same event: no kernel SAs yet
            if any(part == 'handler' for (_, part, _) in n.try_ctx):
                # accepted only as the undo of a registration made by this very event: every feasible path from the entry to
                # the removal has appended that element to the table before
                from ..cfg import path_facts, fmt_path
                badp = None
                npaths = 0
                for path in g.paths(stop=lambda m, n=n: m is n):
                    if path[-1][0] is not n:
                        continue
                    if path_facts(path) is None:
                        continue
                    npaths += 1
                    appended = any(isinstance(y, ast.Call) and isinstance(y.func, ast.Attribute) and y.func.attr == 'append'
                                   and src(y.func.value).endswith('ike_sas') and y.args and src(y.args[0]) == subj
                                   for m, lab in path[:-1] for e in m.exprs() if e is not None for y in walk_no_nested(e))
                    if not appended:
                        badp = path
                        break
                ctx.check(badp is None and npaths > 0, rule, 'removal of `%s` in an exception handler only undoes a registration made by '
                          'the same event (%d paths)' % (subj, npaths), key=(rule, fi.qual, 'handler-removes-foreign-entry', subj),
                          site=ctx.site(fi, x), detail={'path': fmt_path(badp) if badp else None})
                continue
            dele = [d for d, y in nodes_calling(ctx, fi, g, calls_named('delete_child_sas'))
                    if src(y.func.value) == subj]
            ok = any(n.id not in g.reach([g.entry], blocked_nodes=[d]) for d in dele)
            ctx.check(ok, rule, 'every path to `ike_sas.remove(%s)` in %s passes `%s.delete_child_sas()`' % (
                subj, fi.qual, subj), key=(rule, fi.qual, 'remove-without-delete', subj), site=ctx.site(fi, x))
    return sites


# ---------------------------------------------------------------------------------------
def mac_check(ctx, esc):
    """the integrity comparison of Message.parse: (fi, cfg, cond node, label of the passing edge,
    computed-side value term, received-side value term).  The comparison is recognised by its value term: an (in)equality
    one side of which is a call of Integrity.compute."""
    from .. import tq
    fi = ctx.func('message.Message.parse')
    g = esc.add_exception_edges(fi)
    sv = ctx.sval(fi)
    found = []
    for c in g.nodes:
        if c.kind != 'cond' or id(c.ast) not in sv.terms:
            continue
        t = sv.terms[id(c.ast)]
        passing = 'T'
        if t[0] == 'not':
            t, passing = t[1], 'F'
        if t[0] != 'cmp' or t[1] != '==':
            continue
        sides = [t[2], t[3]]
        comp = [i for i, e in enumerate(sides) if tq.find_calls(e, 'crypto.Integrity.compute')]
        if len(comp) == 1:
            found.append((fi, g, c, passing, sides[comp[0]], sides[1 - comp[0]]))
    return found


# ---------------------------------------------------------------------------------------
# value-term helpers (sa.sval / sa.tq)
def expect_term(ctx, rule, sv, got, pattern, what, key, site=None):
    """obligation: the value term `got` matches the pattern (a Python expression over the function's parameters, `_` = any)"""
    from .. import tq
    pats = pattern if isinstance(pattern, (list, tuple)) else [pattern]
    ok = got is not None and any(tq.match(sv.expr(p), got) is not None for p in pats)
    ctx.check(ok, rule, what, key=key, site=site, detail={'found': tq.text(got, 300) if got is not None else None, 'expected': pats[0]})
    return ok


def term_table(ctx, term, cases, leaf_names):
    """evaluates a term for each case (dict name -> value of the parameters / attribute chains listed in leaf_names);
    returns the list of values or None when it cannot be evaluated"""
    from .. import tq
    from ..sval import show

    out = []
    for case in cases:
        def leaf(t, case=case):
            if t[0] in ('param', 'attr', 'global', 'index'):
                k = show(t)
                if k in case:
                    return case[k]
            raise tq.NoValue()
        try:
            out.append(tq.teval(term, leaf))
        except (tq.NoValue, Exception):
            return None
    return out


AF = {'socket.AF_INET': 'AF_INET', 'socket.AF_INET6': 'AF_INET6'}


def family_ok(ctx, term, version_of):
    """the term is AF_INET when <version_of>.version is 4 and AF_INET6 when it is 6"""
    vals = term_table(ctx, term, [dict(AF, **{version_of + '.version': 4}), dict(AF, **{version_of + '.version': 6})], None)
    return vals == ['AF_INET', 'AF_INET6']


def selector_orientation(ctx, rule, fi, sel, who):
    """XfrmSelector(...) fields (a value term) are fed from the like-oriented parameters of fi"""
    from .. import tq
    sv = ctx.sval(fi)
    site = ctx.site(fi, fi.node)
    ok = tq.is_call(sel, 'new xfrm.XfrmSelector')
    ctx.check(ok, rule, '%s: with a selector' % who, key=(rule, who, 'sel'), site=site)
    if not ok:
        return
    kw = tq.args(sel)
    want = {'daddr': 'XfrmAddress.from_ipaddr(dst_selector[0])', 'saddr': 'XfrmAddress.from_ipaddr(src_selector[0])',
            'dport': 'dst_port', 'sport': 'src_port', 'prefixlen_d': 'dst_selector.prefixlen',
            'prefixlen_s': 'src_selector.prefixlen', 'proto': 'ip_proto'}
    for k, v in want.items():
        expect_term(ctx, rule, sv, kw.get(k), v, '%s: selector %s = %s' % (who, k, v), (rule, who, 'sel', k), site)
    fam = kw.get('family')
    ctx.check(fam is not None and (family_ok(ctx, fam, 'src_selector[0]') or family_ok(ctx, fam, 'dst_selector[0]')), rule,
              '%s: selector family follows the IP version of the selector' % who, key=(rule, who, 'sel', 'family'), site=site,
              detail={'found': tq.text(fam) if fam is not None else None})
    for m, p in (('dport_mask', 'dst_port'), ('sport_mask', 'src_port')):
        t = kw.get(m)
        vals = term_table(ctx, t, [{p: 0}, {p: 1}, {p: 500}, {p: 65535}], None) if t is not None else None
        ctx.check(vals == [0, 65535, 65535, 65535], rule, '%s: %s is 0 for port 0 and 0xFFFF otherwise, tied to %s' % (who, m, p),
                  key=(rule, who, 'sel', m), site=site, detail={'found': tq.text(t) if t is not None else None})
    extra = set(kw) - set(want) - {'family', 'dport_mask', 'sport_mask'}
    ctx.check(not extra, rule, '%s: no other selector field is set' % who, key=(rule, who, 'sel', 'extra', ','.join(sorted(extra))),
              site=site)


def one_send(ctx, rule, fi, msg, who):
    """the single unconditional send_recv(<msg>, NLM_F_REQUEST | NLM_F_ACK, payload, attributes) of a request builder"""
    sv = ctx.sval(fi)
    sr = sv.calls_to(qual='netlink.NetlinkProtocol.send_recv')
    pats = ['XFRM_MSG_%s' % msg, 'xfrm.XFRM_MSG_%s' % msg]
    from .. import tq
    ok = len(sr) == 1 and any(tq.match(sv.expr(p), sr[0].args.get('payload_type', ('undef',))) is not None for p in pats) \
        and any(tq.match(sv.expr(p), sr[0].args.get('flags', ('undef',))) is not None for p in ('NLM_F_REQUEST | NLM_F_ACK',))
    ctx.check(ok, rule, '%s sends one XFRM_MSG_%s with REQUEST|ACK' % (who, msg), key=(rule, who, 'send'), site=ctx.site(fi, fi.node),
              detail={'found': [(tq.text(c.args.get('payload_type', ('undef',))), tq.text(c.args.get('flags', ('undef',)))) for c in sr]})
    return sr[0] if len(sr) == 1 else None


def create_sa_orientation(ctx, rule):
    """Xfrm.create_sa puts each parameter into the like-oriented field of the NEWSA request"""
    from .. import tq
    from ..sval import NONE
    fi = ctx.func('xfrm.Xfrm.create_sa')
    sv = ctx.sval(fi)
    site = ctx.site(fi, fi.node)
    sr = one_send(ctx, rule, fi, 'NEWSA', 'create_sa')
    if sr is None:
        return
    ctx.check(not [a for a in sr.pc if a[0][0] != 'caught'], rule, 'create_sa sends the request unconditionally', key=(rule, 'send-always'), site=site)
    us = sr.args.get('payload', NONE)
    ok = tq.is_call(us, 'new xfrm.XfrmUserSaInfo')
    ctx.check(ok, rule, 'create_sa builds one xfrm_usersa_info and sends it', key=(rule, 'usersa'), site=site)
    if not ok:
        return
    kw = tq.args(us)
    selector_orientation(ctx, rule, fi, kw.get('sel', NONE), 'create_sa')
    expect_term(ctx, rule, sv, kw.get('id'), 'XfrmId(daddr=XfrmAddress.from_ipaddr(dst), proto=ipsec_proto, spi=create_byte_array(spi))',
                'create_sa: the SA is identified by (destination address, IPsec protocol, SPI)', (rule, 'id'), site)
    ctx.check(kw.get('id') is not None and tq.is_call(kw['id']) and set(tq.args(kw['id'])) == {'daddr', 'proto', 'spi'}, rule,
              'create_sa: no other id field is set', key=(rule, 'id-extra'), site=site)
    expect_term(ctx, rule, sv, kw.get('saddr'), 'XfrmAddress.from_ipaddr(src)', 'create_sa: source address = src', (rule, 'saddr'), site)
    ctx.check(kw.get('family') is not None and family_ok(ctx, kw['family'], 'src'), rule,
              'create_sa: family follows the tunnel endpoint\'s IP version', key=(rule, 'family'), site=site)
    expect_term(ctx, rule, sv, kw.get('mode'), 'mode', 'create_sa: mode = mode', (rule, 'mode'), site)
    # attributes
    at = sr.args.get('attributes', NONE)
    ents = {}
    if at[0] == 'dict':
        for e in at[1]:
            if len(e) == 2:
                ents[tq.text(e[0]).split('.')[-1]] = ((), e[1])
            elif e[0] == 'when':
                ents[tq.text(e[2]).split('.')[-1]] = (e[1], e[3])
    ok = set(ents) == {'XFRMA_ALG_CRYPT', 'XFRMA_ALG_AUTH'} \
        and tq.match(sv.expr('XfrmAlgo.build(alg_name=enc_algorithm, key=sk_e)'), ents['XFRMA_ALG_CRYPT'][1]) is not None \
        and tq.match(sv.expr('XfrmAlgo.build(alg_name=auth_algorithm, key=sk_a)'), ents['XFRMA_ALG_AUTH'][1]) is not None
    ctx.check(ok, rule, 'create_sa: XFRMA_ALG_CRYPT carries (enc_algorithm, sk_e) and XFRMA_ALG_AUTH carries (auth_algorithm, sk_a)',
              key=(rule, 'algs'), site=site, detail={'attributes': tq.text(at, 500)})
    if ok:
        from ..sval import norm_pc
        esp = norm_pc(((sv.expr('ipsec_proto == socket.IPPROTO_ESP'), True),))
        ctx.check(tuple(ents['XFRMA_ALG_CRYPT'][0]) == esp, rule, 'create_sa: the encryption algorithm is attached exactly for ESP',
                  key=(rule, 'crypt-esp'), site=site, detail={'condition': [tq.text(a[0]) + ('' if a[1] else ' is false') for a in ents['XFRMA_ALG_CRYPT'][0]]})
        ctx.check(not ents['XFRMA_ALG_AUTH'][0], rule, 'create_sa: the integrity algorithm is always attached', key=(rule, 'auth-always'),
                  site=site)


DIGEST_SIZES = {'sha1': 20, 'sha256': 32, 'sha512': 64, 'md5': 16, 'sha384': 48}


def digest_size_table(ctx, fi):
    """{hash name: value} of a size property of a class that keeps its hash constructor in `self.hasher`, evaluated for each of the
    three digests the code base supports: `self.hasher().digest_size`, a literal table of sizes read with `self.hasher`, another size
    property of the same object - whatever form, the result per digest is what is compared.  None for a digest the term does not decide."""
    from ..sval import strip_ids
    from .. import tq
    me = ('param', fi.self_name or 'self')

    def value(f, h, depth=0):
        sv = ctx.sval(f)
        t = sv.ret()

        def leaf(x):
            x = strip_ids(x)
            if x == ('attr', me, 'hasher'):
                return ('H', h)
            if x[0] == 'global' and x[1].startswith('hashlib.') and x[1].split('.')[-1] in DIGEST_SIZES:
                return ('H', x[1].split('.')[-1])
            if x[0] == 'attr' and x[2] == 'digest_size' and tq.is_call(x[1]):
                callee = x[1][1]
                if isinstance(callee, tuple) and callee[0] == 'dyn':
                    hv = tq.teval(callee[1], leaf)
                elif isinstance(callee, str) and callee.startswith('attrcall.') and callee.endswith('.hasher') and x[1][2] == me:
                    hv = ('H', h)               # self.hasher(): the constructor kept in the attribute is called
                elif isinstance(callee, str) and callee.startswith('hashlib.'):
                    hv = ('H', callee.split('.')[-1])
                else:
                    raise tq.NoValue()
                if isinstance(hv, tuple) and hv[0] == 'H' and hv[1] in DIGEST_SIZES and not x[1][3]:
                    return DIGEST_SIZES[hv[1]]
                raise tq.NoValue()
            if x[0] == 'attr' and x[1] == me and depth < 3 and fi.cls is not None:
                m = fi.cls.lookup(x[2])
                if m is not None and getattr(m, 'is_property', False):
                    return value(m, h, depth + 1)
            raise tq.NoValue()
        try:
            return tq.teval(t, leaf)
        except (tq.NoValue, Exception):
            return None
    return {h: value(fi, h) for h in ('sha1', 'sha256', 'sha512')}


# ----------------------------------------------------------------------------------------------- per-object state is per object
_MUTATORS_SS = {'append', 'extend', 'insert', 'remove', 'pop', 'clear', 'update', 'add', 'discard', 'setdefault', 'popitem', 'sort',
                'reverse', '__setitem__', '__delitem__', 'move_to_end', 'appendleft', 'popleft'}
_CONTAINER_CTORS = {'dict', 'list', 'set', 'defaultdict', 'OrderedDict', 'WeakValueDictionary', 'WeakKeyDictionary', 'deque', 'Counter',
                    'bytearray'}


def _is_container(e):
    if isinstance(e, (ast.Dict, ast.List, ast.Set, ast.DictComp, ast.ListComp, ast.SetComp)):
        return True
    return isinstance(e, ast.Call) and isinstance(e.func, (ast.Name, ast.Attribute)) and src(e.func).split('.')[-1] in _CONTAINER_CTORS


def _immutable_result(e, local_classes=()):
    if isinstance(e, ast.Name):
        return e.id in local_classes or e.id in ('None', 'True', 'False')
    if isinstance(e, ast.Constant):
        return True
    if isinstance(e, ast.Tuple):
        return all(_immutable_result(x, local_classes) for x in e.elts)
    if isinstance(e, (ast.BinOp, ast.UnaryOp, ast.Compare, ast.BoolOp, ast.JoinedStr)):
        return not any(isinstance(x, (ast.List, ast.Dict, ast.Set, ast.ListComp, ast.DictComp, ast.SetComp)) for x in ast.walk(e))
    if isinstance(e, ast.Call) and isinstance(e.func, (ast.Name, ast.Attribute)):
        return src(e.func).split('.')[-1] in ('len', 'int', 'bytes', 'str', 'tuple', 'frozenset', 'Struct', 'ip_address', 'ip_network', 'format',
                                              'DHParameterNumbers', 'DHPublicNumbers', 'EllipticCurvePublicNumbers', 'calcsize', 'sizeof',
                                              'hex', 'bool', 'float', 'min', 'max', 'sum', 'abs', 'round', 'join')
    return False


def shared_state_findings(ctx):
    """Every place where state that should belong to one object (one IKE_SA, one message, one cipher context, one configuration record)
    is kept where all objects of the program see it - and is written at run time:
      * a class-level or module-level container written inside a function (`Class._table[k] = v`, `cls._cache.setdefault(..)`,
        `_seen.append(x)`), including through `self.<name>` when no constructor gives the instance a container of its own;
      * an attribute assigned on a class object inside a function (`cls.x = v`, `payload_class.flag = v`);
      * a mutable default argument, or a mutable default of a record field, that is written or handed out;
      * a memoising decorator on a function whose result is a mutable object.
    The code base's own class-level tables are only read.  [(owner qualname, site text, FuncInfo of the writer or None, description)]"""
    cached = getattr(ctx, '_shared_state', None)
    if cached is not None:
        return cached
    prog, res = ctx.prog, ctx.res
    out = []
    class_containers = {}        # (class qual, attr) -> ClassInfo
    for c in prog.classes.values():
        for st in c.node.body:
            if isinstance(st, ast.Assign) and len(st.targets) == 1 and isinstance(st.targets[0], ast.Name) and _is_container(st.value):
                class_containers[(c.qual, st.targets[0].id)] = c
            if isinstance(st, ast.AnnAssign) and isinstance(st.target, ast.Name) and st.value is not None and _is_container(st.value):
                class_containers[(c.qual, st.target.id)] = c
    module_containers = {}
    for m in prog.modules.values():
        for st in m.tree.body:
            if isinstance(st, ast.Assign) and len(st.targets) == 1 and isinstance(st.targets[0], ast.Name) and _is_container(st.value):
                module_containers[(m.name, st.targets[0].id)] = m

    def instance_owned(c, attr):
        """some constructor of the class (or of a base) gives the instance its own value for the attribute"""
        for k in c.mro():
            init = k.methods.get('__init__')
            if init is not None and isinstance(init.node, ast.FunctionDef):
                for x in ast.walk(init.node):
                    if isinstance(x, ast.Attribute) and x.attr == attr and isinstance(x.ctx, ast.Store) and isinstance(x.value, ast.Name) \
                            and x.value.id == init.self_name:
                        return True
        return False

    def owner_of(base, fi):
        """('class', qual, attr) / ('module', name, attr) when the expression names a shared container, else None"""
        if isinstance(base, ast.Attribute):
            v = base.value
            cands = []
            if isinstance(v, ast.Name) and fi is not None and fi.cls is not None and v.id in (fi.self_name, 'cls', fi.cls.name):
                cands = [fi.cls]
            elif isinstance(v, ast.Name) and v.id in {c.name for c in prog.classes.values()}:
                cands = [c for c in prog.classes.values() if c.name == v.id]
            elif isinstance(v, ast.Call) and isinstance(v.func, ast.Name) and v.func.id == 'type' and fi is not None and fi.cls is not None:
                cands = [fi.cls]
            for c in cands:
                for k in c.mro():
                    if (k.qual, base.attr) in class_containers:
                        via_self = isinstance(v, ast.Name) and fi is not None and v.id == fi.self_name and not (fi.is_classmethod if hasattr(fi, 'is_classmethod') else False)
                        if via_self and instance_owned(c, base.attr):
                            return None
                        return ('class', k.qual, base.attr)
        if isinstance(base, ast.Name) and fi is not None:
            locs = {x.id for x in ast.walk(fi.node) if isinstance(x, ast.Name) and isinstance(x.ctx, ast.Store)} | set(fi.params) | set(fi.kwonly)
            glob = {n for x in ast.walk(fi.node) if isinstance(x, ast.Global) for n in x.names}
            if (base.id not in locs or base.id in glob) and (fi.module.name, base.id) in module_containers:
                return ('module', fi.module.name, base.id)
        return None

    def memo_idiom(fi, owner):
        """the function is a hand-written memo of a pure computation: the table is keyed by (all of) its parameters and what is stored is an
        immutable value computed from them"""
        ps = [p for p in fi.params if p not in (fi.self_name,)] + list(fi.kwonly)
        if not ps:
            return False
        stores = [x for x in ast.walk(fi.node) if isinstance(x, ast.Subscript) and isinstance(x.ctx, ast.Store) and owner_of(x.value, fi) == owner]
        if not stores:
            return False
        for s_ in stores:
            key_names = {y.id for y in ast.walk(s_.slice) if isinstance(y, ast.Name)}
            if key_names != set(ps):
                return False
        for st in ast.walk(fi.node):
            if isinstance(st, ast.Assign) and any(t in stores for t in st.targets):
                if not _immutable_result(st.value):
                    return False
                if {y.id for y in ast.walk(st.value) if isinstance(y, ast.Name) and isinstance(y.ctx, ast.Load)} - set(ps) - {
                        n for (mn, n) in module_containers} - {c.name for c in prog.classes.values()} - set(dir(__builtins__) if not isinstance(__builtins__, dict) else __builtins__):
                    return False
        return not any(isinstance(x, ast.Call) and isinstance(x.func, ast.Attribute) and x.func.attr in _MUTATORS_SS
                       and owner_of(x.func.value, fi) == owner for x in ast.walk(fi.node))
    from ..model import FuncInfo

    def all_defs():
        """every function definition of the program - also the second definition under one name (a property setter) that the program
        model keeps only one of"""
        by_node = {id(f.node): f for f in prog.all_functions()}
        cls_of = {id(c.node): c for c in prog.classes.values()}
        for m in prog.modules.values():
            stack = [(m.tree, None)]
            while stack:
                node, cls = stack.pop()
                for ch in ast.iter_child_nodes(node):
                    if isinstance(ch, ast.ClassDef):
                        stack.append((ch, cls_of.get(id(ch))))
                    elif isinstance(ch, (ast.FunctionDef, ast.AsyncFunctionDef)):
                        if id(ch) in by_node:
                            yield by_node[id(ch)]
                        else:
                            try:
                                yield FuncInfo(m, cls, ch, '%s.%s' % (cls.qual if cls is not None else m.name, ch.name))
                            except Exception:
                                continue
                    else:
                        stack.append((ch, cls))
    for fi in all_defs():
        if not isinstance(fi.node, (ast.FunctionDef, ast.AsyncFunctionDef)):
            continue
        for x in ast.walk(fi.node):
            own = what = None
            if isinstance(x, ast.Subscript) and isinstance(x.ctx, (ast.Store, ast.Del)):
                own, what = owner_of(x.value, fi), 'entry written'
            elif isinstance(x, ast.Call) and isinstance(x.func, ast.Attribute) and x.func.attr in _MUTATORS_SS:
                own, what = owner_of(x.func.value, fi), '.%s()' % x.func.attr
            elif isinstance(x, ast.AugAssign) and owner_of(x.target, fi) is not None:
                own, what = owner_of(x.target, fi), 'updated in place'
            if own is not None and not memo_idiom(fi, own):
                # objects put into the table are shared objects: the classes they are instances of
                vals = []
                if isinstance(x, ast.Call):
                    vals = list(x.args)
                elif isinstance(x, ast.Subscript):
                    for st_ in ast.walk(fi.node):
                        if isinstance(st_, ast.Assign) and any(t_ is x for t_ in st_.targets):
                            vals = [st_.value]
                cnames = {c.name: c.qual for c in prog.classes.values()}
                held = set()
                for v_ in vals:
                    for y in ast.walk(v_):
                        if isinstance(y, ast.Call) and isinstance(y.func, ast.Name):
                            if y.func.id in cnames:
                                held.add(cnames[y.func.id])
                            elif y.func.id == 'cls' and fi.cls is not None:
                                held.add(fi.cls.qual)
                        if isinstance(y, ast.Call) and isinstance(y.func, ast.Attribute) and y.func.attr == '__new__' and fi.cls is not None:
                            held.add(fi.cls.qual)
                out.append((('%s.%s' % (own[1], own[2])), ctx.site(fi, x), fi,
                            '%s-level container `%s.%s` (shared by every object) is written at run time in %s: %s' % (
                                own[0], own[1].split('.')[-1], own[2], fi.qual, what), held))
            # an attribute assigned on a class object
            if isinstance(x, ast.Attribute) and isinstance(x.ctx, ast.Store) and fi.name not in ('__init_subclass__', '__set_name__'):
                v = x.value
                is_cls = isinstance(v, ast.Name) and (v.id == 'cls' and fi.cls is not None and getattr(fi, 'is_classmethod', False)
                                                    or v.id in {c.name for c in prog.classes.values()})
                if not is_cls and isinstance(v, ast.Name) and v.id not in (fi.self_name,):
                    try:
                        ty = res.expr_type(v, fi)
                    except Exception:
                        ty = set()
                    ty = {t for t in ty if t != 'none'}        # (`TABLE.get(k)` may be None; the store is reached with a class)
                    is_cls = bool(ty) and all(isinstance(t, tuple) and t and t[0] == 'cls' for t in ty)
                if is_cls:
                    out.append((src(v) + '.' + x.attr, ctx.site(fi, x), fi,
                                'attribute `%s` is assigned on a class object in %s: every instance of that class sees the value' % (
                                    src(x), fi.qual)))
        # mutable defaults
        a = fi.node.args
        pos = a.posonlyargs + a.args
        for p_, d_ in list(zip(pos[len(pos) - len(a.defaults):], a.defaults)) + [(k, d) for k, d in zip(a.kwonlyargs, a.kw_defaults) if d is not None]:
            if _is_container(d_):
                used = [y for y in ast.walk(fi.node) if isinstance(y, ast.Name) and y.id == p_.arg and isinstance(y.ctx, ast.Load)]
                written = any(isinstance(y, ast.Subscript) and isinstance(y.ctx, (ast.Store, ast.Del)) and isinstance(y.value, ast.Name) and y.value.id == p_.arg
                              for y in ast.walk(fi.node)) or any(
                    isinstance(y, ast.Call) and isinstance(y.func, ast.Attribute) and y.func.attr in _MUTATORS_SS and isinstance(y.func.value, ast.Name)
                    and y.func.value.id == p_.arg for y in ast.walk(fi.node))
                kept = any(isinstance(y, ast.Assign) and isinstance(y.value, ast.Name) and y.value.id == p_.arg and any(
                    isinstance(t, ast.Attribute) for t in y.targets) for y in ast.walk(fi.node))
                if used and (written or kept):
                    out.append((fi.qual + '(' + p_.arg + ')', ctx.site(fi, d_), fi,
                                'mutable default argument `%s` of %s is %s: one object for every call' % (p_.arg, fi.qual, 'written' if written else 'stored on the object')))
        # memoising decorators on functions that return mutable objects
        decos = [src(d.func if isinstance(d, ast.Call) else d).split('.')[-1] for d in fi.node.decorator_list]
        if any(d in ('lru_cache', 'cache', 'cached_property') for d in decos):
            local_classes = {y.name for y in ast.walk(fi.node) if isinstance(y, ast.ClassDef)}
            rets = [y for y in ast.walk(fi.node) if isinstance(y, ast.Return) and y.value is not None]
            if not rets or not all(_immutable_result(r.value, local_classes) for r in rets):
                out.append((fi.qual, ctx.site(fi, fi.node), fi,
                            '%s is memoised (%s) but returns a mutable object: every caller gets the same object' % (
                                fi.qual, ', '.join(d for d in decos if d in ('lru_cache', 'cache', 'cached_property')))))
    # a module-level container handed out by a function: `return TABLE` gives every caller the one object, and the first caller that
    # appends to what it got (`payloads += [..]`) changes what every later caller gets
    for fi in all_defs():
        if not isinstance(fi.node, (ast.FunctionDef, ast.AsyncFunctionDef)):
            continue
        local = {x.id for x in ast.walk(fi.node) if isinstance(x, ast.Name) and isinstance(x.ctx, (ast.Store, ast.Del))} | {
            a.arg for a in ast.walk(fi.node.args) if isinstance(a, ast.arg)}
        for x in ast.walk(fi.node):
            if isinstance(x, ast.Return) and isinstance(x.value, ast.Name) and x.value.id not in local \
                    and (fi.module.name, x.value.id) in module_containers:
                out.append(('%s.%s' % (fi.module.name, x.value.id), ctx.site(fi, x), fi,
                            'module-level container `%s` is returned by %s: every caller receives the same object' % (x.value.id, fi.qual)))
    # mutable defaults of record fields
    for m in prog.modules.values():
        for x in ast.walk(m.tree):
            if isinstance(x, ast.Call) and isinstance(x.func, (ast.Name, ast.Attribute)) and src(x.func).split('.')[-1] == 'namedtuple':
                for kw in x.keywords:
                    if kw.arg == 'defaults' and isinstance(kw.value, (ast.List, ast.Tuple)) and any(_is_container(e) for e in kw.value.elts):
                        out.append((m.name + '.namedtuple-defaults', '%s:%s' % (os.path.basename(m.path), x.lineno), None,
                                    'a record type in %s has a mutable default field value: every record built without that field shares it' % m.name))
    ctx._shared_state = out
    return out


def no_shared_mutable_state(ctx, rule='SS'):
    """obligation of every property that speaks about "each IKE_SA / message / SA / connection": see shared_state_findings.  A finding counts
    for this property when one of the functions its rules analysed (ctx.functions) reads or writes the shared state itself, or uses it
    through its accessor (names the property, the method, or - for state kept by a constructor - the class that does): what those
    functions compute then depends on state that has become shared."""
    fs = shared_state_findings(ctx)
    prog = ctx.prog
    n = 0
    names_of = {}
    if fs:
        for f in prog.all_functions():
            if isinstance(f.node, (ast.FunctionDef, ast.AsyncFunctionDef)):
                names_of.setdefault(f.qual, set()).update({x.attr for x in ast.walk(f.node) if isinstance(x, ast.Attribute)} |
                                                         {x.id for x in ast.walk(f.node) if isinstance(x, ast.Name)})
        # second definitions under one name (property setters) belong to the same qualified name
        for m in prog.modules.values():
            for c in ast.walk(m.tree):
                if isinstance(c, ast.ClassDef):
                    for b in c.body:
                        if isinstance(b, ast.FunctionDef):
                            q = next((k.qual for k in prog.classes.values() if k.node is c), m.name + '.' + c.name) + '.' + b.name
                            names_of.setdefault(q, set()).update({x.attr for x in ast.walk(b) if isinstance(x, ast.Attribute)} |
                                                                 {x.id for x in ast.walk(b) if isinstance(x, ast.Name)})
    for rec in fs:
        owner, site, fi, msg = rec[:4]
        held = rec[4] if len(rec) > 4 else set()
        short = owner.rsplit('.', 1)[-1].split('(')[0]
        level0 = {q for q, names in names_of.items() if short in names}
        if fi is not None:
            level0.add(fi.qual)
        access = set()
        for q in level0:
            nm = q.rsplit('.', 1)[-1]
            access.add(q.rsplit('.', 2)[-2] if nm in ('__new__', '__init__') and q.count('.') >= 2 else nm)
        level1 = {q for q, names in names_of.items() if names & access}
        # state kept by a constructor or handed out by a factory of the class (a flyweight table) is the state of every instance: all
        # methods of that class and of its subclasses work on objects that may be shared
        for q in list(level0):
            f0 = prog.functions.get(q)
            if f0 is None or f0.cls is None:
                continue
            hands_out = f0.name in ('__new__', '__init__') or any(
                isinstance(r, ast.Return) and r.value is not None and any(
                    (isinstance(y, ast.Attribute) and y.attr == short) or (isinstance(y, ast.Name) and y.id == short) for y in ast.walk(r.value))
                for r in ast.walk(f0.node))
            if not hands_out:
                # ... or stores what it looked up / created in the table and returns that local
                hands_out = bool(getattr(f0, 'is_classmethod', False) or f0.is_staticmethod) and any(isinstance(r, ast.Return) for r in ast.walk(f0.node))
            if hands_out:
                for k in prog.classes.values():
                    if f0.cls in k.mro():
                        level1 |= {m_.qual for m_ in k.methods.values()}
        # ... and the methods of the classes whose instances are kept in the table
        for k in prog.classes.values():
            if any(h in [b.qual for b in k.mro()] for h in held):
                level1 |= {m_.qual for m_ in k.methods.values()}
        hit = (level0 | level1) & set(ctx.functions)
        if hit:
            n += 1
            ctx.bad(rule, (rule, 'shared-state', owner), msg, site, {'used by analysed functions': sorted(hit)[:6]})
    if not n:
        ctx.ok(rule, 'no class-level / module-level container, class attribute, mutable default or memoised mutable result is written at run time '
               'by, or behind an accessor used by, the %d functions this property analyses (%d such site(s) in the whole program)' % (
                   len(ctx.functions), len(fs)))
