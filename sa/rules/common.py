"""Helpers shared by the per-property rule modules."""
import ast

from ..model import AnalysisError, attr_chain, src, walk_no_nested


def payload_registry(ctx):
    """Message.type_2_payload: {enum member name: ClassInfo} (literal dict, resolved exactly)."""
    prog = ctx.prog
    msg = prog.cls('message.Message')
    d = msg.lookup_attr('type_2_payload')
    ctx.require(isinstance(d, ast.Dict), 'anchor vanished: Message.type_2_payload literal dict')
    out = {}
    for k, v in zip(d.keys, d.values):
        c = prog.resolve_class_expr(v, msg.module, msg)
        ctx.require(c is not None, 'type_2_payload value %s is not a repository class' % src(v))
        out[src(k).split('.')[-1]] = c
    return out


def crypto_ctor_sites(ctx):
    """all construction sites of crypto.Crypto in the analysed modules"""
    out = []
    for fi in ctx.prog.all_functions():
        for n in walk_no_nested(fi.node):
            if isinstance(n, ast.Call):
                r = ctx.res.resolve_call(n, fi, count=False)
                if r.kind == 'ctor' and r.cls is not None and r.cls.qual == 'crypto.Crypto':
                    out.append((fi, n))
    return out


def crypto_kills(ctx, also=None):
    """Frozen assumption, backed by a who-constructs rule that is re-checked on every run:
    Crypto objects are constructed only in IkeSa.generate_ike_sa_key_material, where the
    cipher keys are split from the key material with that same cipher's key_size.  Hence
    `len(key) != self.key_size` (EncrError) and an AES key-size ValueError cannot happen."""
    sites = crypto_ctor_sites(ctx)
    ctx.floor('Crypto(...) construction sites', len(sites), 2)
    good = all(fi.qual == 'ikesa.IkeSa.generate_ike_sa_key_material' for fi, _ in sites)
    if good:
        gen = ctx.prog.func('ikesa.IkeSa.generate_ike_sa_key_material')
        text = src(gen.node)
        good = 'cipher.key_size' in text and 'unpack(' in text
    ctx.stats['who-constructs Crypto'] = [fi.qual for fi, _ in sites]

    def kills(fi, node, exc, text):
        if also is not None:
            w = also(fi, node, exc, text)
            if w:
                return w
        if not good:
            return None
        if exc == 'EncrError' and fi.qual in ('crypto.Cipher.decrypt', 'crypto.Cipher.encrypt'):
            return 'key length equals cipher.key_size by construction (who-constructs Crypto)'
        if exc == 'ValueError' and fi.qual in ('crypto.Cipher.decrypt', 'crypto.Cipher.encrypt') \
                and text.startswith('self._algorithm('):
            return 'AES key size valid by construction (who-constructs Crypto)'
        if exc == 'ValueError' and fi.qual == 'crypto.Cipher.encrypt':
            return ('encrypt side: IV is os.urandom(block_size) drawn in Message.__init__ or an IV that already '
                    'decrypted; plaintext is padded to a block multiple by PayloadSK.generate (C07/E3)')
        return None
    return kills


def find_calls(ctx, fi, qual=None, name=None, lib=None):
    """calls inside fi that resolve to a repo function `qual`, a method named `name`, or a library callable"""
    out = []
    for n in walk_no_nested(fi.node):
        if isinstance(n, ast.Call):
            r = ctx.res.resolve_call(n, fi, count=False)
            if qual is not None and any(t.qual == qual for t in r.targets):
                out.append(n)
            elif name is not None and any(t.name == name for t in r.targets):
                out.append(n)
            elif lib is not None and r.kind == 'lib' and r.lib == lib:
                out.append(n)
    return out


def node_of(g, astnode):
    """CFG node(s) whose expressions contain astnode"""
    out = []
    for n in g.nodes:
        for e in n.exprs():
            if e is None:
                continue
            if e is astnode or any(x is astnode for x in ast.walk(e)):
                out.append(n)
                break
    return out


def is_self_attr(expr, fi, attr):
    return (isinstance(expr, ast.Attribute) and expr.attr == attr and isinstance(expr.value, ast.Name)
            and expr.value.id == fi.self_name)


def assigns_attr(node, fi, attr):
    """statement node assigns self.<attr>; returns value expr or None"""
    st = node.ast if hasattr(node, 'ast') else node
    if isinstance(st, ast.Assign):
        for t in st.targets:
            if is_self_attr(t, fi, attr):
                return st.value
            if isinstance(t, ast.Tuple):
                for i, e in enumerate(t.elts):
                    if is_self_attr(e, fi, attr):
                        return ('unpack', st.value, i)
    if isinstance(st, ast.AugAssign) and is_self_attr(st.target, fi, attr):
        return st
    return None


def state_name(expr):
    """'ESTABLISHED' for IkeSa.State.ESTABLISHED / State.ESTABLISHED"""
    ch = attr_chain(expr)
    if ch and '.State.' in '.' + ch:
        return ch.split('.')[-1]
    return None
