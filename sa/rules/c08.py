"""C08 - Message-ID window: a request runs at most once, replays come from cache.

M1 (A4+A11) _process_request: the window tests are interpreted over the finite abstraction
        delta = message_id - peer_msg_id; a handler runs only for delta = 0, delta = -1 returns
        the cached response and nothing else has any effect; single increment after the
        response is built; the stored and returned bytes are one value.
M2      _process_response: same for delta = message_id - my_msg_id; ID-0 retries reset my_msg_id.
M3 (A5) IDs, flags, version and SPIs stamped on generated messages; exchange type of a reply.
M4 (A3) one outstanding request: generators are state-guarded, triggers are no-ops while a
        request is outstanding (queued), only the retransmission timer re-emits.
M5 (A4) role-flag / SPI tests and the request/response split dominate dispatch.
"""
import ast

from ..loops import lin, lin_sub, lin_const
from ..model import src, walk_no_nested
from ..resolve import bind_args
from .. import tq
from . import common

EXPLANATION = ('static analysis: finite-abstraction interpretation of the Message-ID window tests over the CFG, '
               'dominance/post-dominance of the ID increments, keyword binding of the two message generators, and the '
               'typestate argument that no path issues a request while one is outstanding')
ASSUMPTIONS = [
    'declined: behaviour under concrete duplication/reordering schedules (exploration); the per-path facts decided '
    'here hold for every schedule because they hold on every path through the window code',
]


def delta_eval(cond, msg_attr, counter):
    """Evaluate `message.message_id <op> self.<counter> [+- c]` for a given delta; returns a
    function delta -> bool, or None when the atom is not a window test."""
    e = cond
    if not (isinstance(e, ast.Compare) and len(e.ops) == 1):
        return None
    l, r = e.left, e.comparators[0]
    op = e.ops[0]
    flip = False
    if src(r).endswith('.' + msg_attr):
        l, r = r, l
        flip = True
    if not src(l).endswith('.' + msg_attr):
        return None
    f = lin(r, {})
    if f is None:
        return None
    key = 'self.' + counter
    if f.get(key) != 1 or any(k not in (key, 1) for k in f):
        return None
    c = f.get(1, 0)
    table = {ast.Eq: lambda a, b: a == b, ast.NotEq: lambda a, b: a != b, ast.Lt: lambda a, b: a < b,
             ast.LtE: lambda a, b: a <= b, ast.Gt: lambda a, b: a > b, ast.GtE: lambda a, b: a >= b}
    fn = table.get(type(op))
    if fn is None:
        return None
    if flip:
        return lambda d: fn(c, d)
    return lambda d: fn(d, c)


def increment_by_one(ctx, fi, stmt, attr):
    """the statement stores  self.<attr> + 1  into self.<attr>  (`x = x + 1`, `x += 1`, via a local, ... alike)"""
    from ..bounds import linear
    sv = ctx.sval(fi)
    me = ('attr', ('param', fi.self_name), attr)
    vals = [v for t, v, _, st, _ in sv.stores if st is stmt and t == me]
    return len(vals) == 1 and linear(vals[0]) == ({me: 1}, 1)


def self_store(n, fi):
    """does the CFG node store to an attribute of self?"""
    if n.kind != 'stmt':
        return None
    st = n.ast
    targets = []
    if isinstance(st, ast.Assign):
        targets = st.targets
    elif isinstance(st, (ast.AugAssign, ast.AnnAssign)):
        targets = [st.target]
    for t in targets:
        for x in ast.walk(t):
            if isinstance(x, ast.Attribute) and isinstance(x.ctx, ast.Store) and isinstance(x.value, ast.Name) \
                    and x.value.id == fi.self_name:
                return x.attr
    return None


def window(ctx, rule, fi, counter, handler_pred, cached_attr=None):
    g = ctx.escape('engine', kills=common.engine_kills(ctx)).add_exception_edges(fi)
    conds = {}
    for n in g.nodes:
        if n.kind == 'cond':
            f = delta_eval(n.ast, 'message_id', counter)
            if f is not None:
                conds[n.id] = f
    ctx.floor('a Message-ID window test against %s in %s' % (counter, fi.name), len(conds), 1, rule=rule)
    hnodes = [n for n, x in common.nodes_calling(ctx, fi, g, handler_pred)]
    ctx.floor('%s handler dispatch in %s' % (rule, fi.name), len(hnodes), 1)
    for d in (-3, -2, -1, 0, 1, 2, 3, 100):
        def edge_ok(n, lab, m, d=d):
            if n.id in conds and lab in ('T', 'F'):
                return conds[n.id](d) == (lab == 'T')
            return True
        reach = g.reach_filtered([g.entry], edge_ok)
        hreach = [n for n in hnodes if n.id in reach]
        stores = sorted(set(self_store(n, fi) for n in g.nodes if n.id in reach and self_store(n, fi)))
        rets = sorted(set(src(n.ast.value) if n.ast.value is not None else 'None' for n in g.nodes
                          if n.id in reach and n.kind == 'stmt' and isinstance(n.ast, ast.Return)))
        effects = [n for n in g.nodes if n.id in reach and n.kind in ('stmt', 'cond') and any(
            isinstance(x, ast.Call) and isinstance(x.func, ast.Attribute) and isinstance(x.func.value, ast.Name)
            and x.func.value.id == fi.self_name and not x.func.attr.startswith('log_')
            for e in n.exprs() if e is not None for x in walk_no_nested(e))]
        if d == 0:
            ctx.check(bool(hreach), rule, '%s: a message with the expected ID reaches a handler' % fi.name,
                      key=(rule, fi.qual, 'expected-id-not-handled'), site=ctx.site(fi, fi.node))
        else:
            ctx.check(not hreach, rule, '%s: no handler runs for message_id - %s = %d' % (fi.name, counter, d),
                      key=(rule, fi.qual, 'handler-outside-window', d), site=ctx.site(fi, fi.node))
            ctx.check(not stores and not effects, rule,
                      '%s: message_id - %s = %d changes nothing (stores %s, calls %s)' % (
                          fi.name, counter, d, stores, [n.text()[:40] for n in effects]),
                      key=(rule, fi.qual, 'effect-outside-window', d), site=ctx.site(fi, fi.node))
            if d == -1 and cached_attr is not None:
                ctx.check(rets == ['self.' + cached_attr], rule,
                          '%s: a copy of the previous request is answered from the cache and only from it (returns %s)'
                          % (fi.name, rets), key=(rule, fi.qual, 'replay-not-from-cache'), site=ctx.site(fi, fi.node))
            else:
                ctx.check(rets == ['None'], rule, '%s: message_id - %s = %d is dropped (returns %s)' % (
                    fi.name, counter, d, rets), key=(rule, fi.qual, 'not-dropped', d), site=ctx.site(fi, fi.node))
    return g, hnodes


def run(ctx):
    prog, res = ctx.prog, ctx.res
    esc = ctx.escape('engine', kills=common.engine_kills(ctx))
    tables = [set(t.qual for t in common.handler_table(ctx, f).values()) for f in ('_process_request', '_process_response')]
    is_handler = lambda call, r: r.kind == 'dyn' and bool(r.targets) and any(   # noqa: E731
        set(t.qual for t in r.targets) <= tb for tb in tables)

    # the INITIATOR flag and the SPI order of every message on a rekeyed IKE_SA follow from the role its constructor is given
    from .c01 import successor_construction
    successor_construction(ctx, 'M3')

    # ---------------------------------------------------------------- M1
    common.from_exception_total(ctx, esc, 'M1')
    # the window is per IKE_SA: what is answered from `last_sent_response_data` is a copy of the request *this* IKE_SA answered.  An
    # IKE_SA_INIT request therefore always gets an IkeSa of its own (shared with C16 D1) - handed to one the controller already holds
    # it would be taken for a retransmission of that one's request and answered with a response made for somebody else
    from .c16 import init_request_gets_fresh_ike_sa
    init_request_gets_fresh_ike_sa(ctx, 'M1')
    preq = ctx.func('ikesa.IkeSa._process_request')
    g, hnodes = window(ctx, 'M1', preq, 'peer_msg_id', is_handler, 'last_sent_response_data')
    incs = [n for n in g.nodes if self_store(n, preq) == 'peer_msg_id']
    ctx.check(len(incs) == 1, 'M1', 'exactly one statement advances peer_msg_id (%d found)' % len(incs),
              key=('M1', 'increment-count', len(incs)), site=ctx.site(preq, preq.node))
    for inc in incs:
        ctx.check(increment_by_one(ctx, preq, inc.ast, 'peer_msg_id'), 'M1', 'peer_msg_id advances by exactly 1 (`%s`)' % src(inc.ast),
                  key=('M1', 'increment-value'), site=ctx.site(preq, inc.ast))
        for h in hnodes:
            ctx.check(inc.id not in g.reach([g.entry], blocked_nodes=[h]), 'M1',
                      'peer_msg_id advances only after a handler ran', key=('M1', 'increment-before-handler'),
                      site=ctx.site(preq, inc.ast))
            # every normal path from the handler call to the exit passes the increment
            ctx.check(g.exit.id not in g.reach([h], blocked_nodes=[inc]), 'M1',
                      'every executed request advances peer_msg_id (also on the error-reply paths)',
                      key=('M1', 'increment-skipped'), site=ctx.site(preq, inc.ast))
        gr = [n for n, x in common.nodes_calling(ctx, preq, g, common.calls_named('generate_response'))]
        ctx.check(all(n.id not in g.reach([inc]) or n is inc for n in gr), 'M1',
                  'responses are built before peer_msg_id advances (so they carry the request\'s ID)',
                  key=('M1', 'response-after-increment'), site=ctx.site(preq, inc.ast))
        # the increment must not be repeatable within one call
        ctx.check(inc.id not in g.reach([m for _, m in inc.succ]), 'M1', 'the increment is not inside a loop',
                  key=('M1', 'increment-in-loop'), site=ctx.site(preq, inc.ast))
    # stored == returned
    stores = [n for n in g.nodes if self_store(n, preq) == 'last_sent_response_data']
    ctx.floor('a store of the reply into last_sent_response_data', len(stores), 1, rule='M1')
    after = g.reach(hnodes)
    rets = [n for n in g.nodes if n.id in after and n.kind == 'stmt' and isinstance(n.ast, ast.Return)]
    ser = common.nodes_calling(ctx, preq, g, common.calls_named('to_bytes'))
    ctx.check(len(ser) == 1, 'M1', 'the response is serialised exactly once (%d sites)' % len(ser),
              key=('M1', 'serialised-times', len(ser)), site=ctx.site(preq, preq.node))
    for st in stores:
        v = src(st.ast.value)
        for r in rets:
            ctx.check(r.ast.value is not None and src(r.ast.value) == v, 'M1',
                      'the bytes returned after executing a request are the bytes stored for replays (`%s`)' % v,
                      key=('M1', 'returned-differs-from-cached'), site=ctx.site(preq, r.ast))
            ctx.check(r.id not in g.reach([g.entry], blocked_nodes=[st]), 'M1',
                      'the reply is cached on every path that returns it', key=('M1', 'reply-not-cached'),
                      site=ctx.site(preq, r.ast))
        if ser:
            sn, sx = ser[0]
            ok = isinstance(sn.ast, ast.Assign) and src(sn.ast.targets[0]) == v or src(sx) == v
            ctx.check(ok, 'M1', 'the cached value is the serialisation of the response just built',
                      key=('M1', 'cached-not-serialisation'), site=ctx.site(preq, st.ast))

    # ---------------------------------------------------------------- M2
    presp = ctx.func('ikesa.IkeSa._process_response')
    g2, hn2 = window(ctx, 'M2', presp, 'my_msg_id', is_handler, None)
    incs = [n for n in g2.nodes if self_store(n, presp) == 'my_msg_id']
    ctx.check(len(incs) == 1, 'M2', 'exactly one statement advances my_msg_id (%d found)' % len(incs),
              key=('M2', 'increment-count', len(incs)), site=ctx.site(presp, presp.node))
    first = [h for h in hn2 if not any(h.id in g2.reach([o]) and o is not h for o in hn2)]
    for inc in incs:
        ctx.check(increment_by_one(ctx, presp, inc.ast, 'my_msg_id'), 'M2', 'my_msg_id advances by exactly 1', key=('M2', 'increment-value'),
                  site=ctx.site(presp, inc.ast))
        for h in first:
            on_all = h.id not in g2.reach([g2.entry], blocked_nodes=[inc]) or \
                g2.exit.id not in g2.reach([h], blocked_nodes=[inc], follow_exc=False)
            ctx.check(on_all, 'M2', 'every accepted response advances my_msg_id exactly once',
                      key=('M2', 'increment-skipped'), site=ctx.site(presp, inc.ast))
        ctx.check(inc.id not in g2.reach([m for _, m in inc.succ]), 'M2', 'the increment is not inside a loop',
                  key=('M2', 'increment-in-loop'), site=ctx.site(presp, inc.ast))
    # ID-0 retries
    init = ctx.func('ikesa.IkeSa.process_ike_sa_init_response')
    g3 = esc.add_exception_edges(init)
    resets = [n for n in g3.nodes if self_store(n, init) == 'my_msg_id']
    ctx.floor('a reset of my_msg_id on the IKE_SA_INIT retry paths', len(resets), 1, rule='M2')
    for n in resets:
        ctx.check(isinstance(n.ast, ast.Assign) and isinstance(n.ast.value, ast.Constant) and n.ast.value.value == 0,
                  'M2', 'IKE_SA_INIT retries reuse Message ID 0 (`%s`)' % src(n.ast), key=('M2', 'reset-value'),
                  site=ctx.site(init, n.ast))
    for n, x in common.nodes_calling(ctx, init, g3, common.calls_named('handle_invalid_ke')):
        ctx.check(n.id not in g3.reach([g3.entry], blocked_nodes=resets), 'M2',
                  'my_msg_id is reset before the INVALID_KE_PAYLOAD retry is generated (it stamps my_msg_id)',
                  key=('M2', 'reset-after-generate'), site=ctx.site(init, x))
    retry_returns = [n for n in g3.nodes if n.kind == 'stmt' and isinstance(n.ast, ast.Return)
                     and n.ast.value is not None and src(n.ast.value) == 'self.request']
    ctx.floor('the two retry returns (`return self.request`) of process_ike_sa_init_response', len(retry_returns), 2, rule='M2')
    for r in retry_returns:
        ctx.check(r.id not in g3.reach([g3.entry], blocked_nodes=resets), 'M2',
                  'every IKE_SA_INIT retry path resets my_msg_id to 0 before returning the request',
                  key=('M2', 'retry-without-reset'), site=ctx.site(init, r.ast))

    # ---------------------------------------------------------------- M3
    ikesa = prog.cls('ikesa.IkeSa')
    msg_init = ctx.func('message.Message.__init__')
    expect = {'generate_request': {'message_id': 'self.my_msg_id', 'is_response': 'False'},
              'generate_response': {'message_id': 'self.peer_msg_id', 'is_response': 'True'}}
    common_kw = {'major': '2', 'minor': '0', 'spi_i': 'self.spi_i', 'spi_r': 'self.spi_r',
                 'is_initiator': 'self.is_initiator', 'exchange_type': 'exchange_type',
                 'can_use_higher_version': 'False'}
    from ..sval import strip_ids
    for name, kw in expect.items():
        fi = ctx.func('ikesa.IkeSa.' + name)
        F = ctx.sval(fi)
        rets = [t for _, t, _ in F.returns]
        ctx.require(len(rets) >= 1 and all(tq.is_call(t, 'new message.Message') for t in rets),
                    'anchor vanished: %s returns a Message(...) it constructs' % name)
        for t in rets:
            b = tq.args(t)
            for k, v in list(kw.items()) + list(common_kw.items()):
                ctx.check(k in b and strip_ids(b[k]) == strip_ids(F.expr(v)), 'M3', '%s stamps %s=%s' % (name, k, v),
                          key=('M3', name, k), site=ctx.site(fi, fi.node), detail={'found': tq.text(b[k], 200) if k in b else None})
    for prop, (a, b) in {'spi_i': ('my_spi', 'peer_spi'), 'spi_r': ('peer_spi', 'my_spi')}.items():
        fi = ctx.func('ikesa.IkeSa.' + prop)
        F = ctx.sval(fi)
        ok = strip_ids(F.ret()) == strip_ids(F.expr('self.%s if self.is_initiator else self.%s' % (a, b)))
        ctx.check(ok, 'M3', 'IkeSa.%s is %s for the initiator and %s for the responder' % (prop, a, b),
                  key=('M3', 'property', prop), site=ctx.site(fi, fi.node), detail={'returned': tq.text(F.ret(), 200)})
    reqt = common.handler_table(ctx, '_process_request')
    for ex, h in sorted(reqt.items()):
        calls = [x for x in walk_no_nested(h.node) if isinstance(x, ast.Call) and isinstance(x.func, ast.Attribute)
                 and x.func.attr == 'generate_response']
        ctx.floor('M3 generate_response calls in %s' % h.name, len(calls), 1)
        for x in calls:
            ctx.check(x.args and common.exchange_of(x.args[0]) == ex, 'M3',
                      '%s answers with exchange type %s' % (h.name, ex), key=('M3', 'reply-exchange', h.qual),
                      site=ctx.site(h, x))
    for x in [x for x in walk_no_nested(preq.node) if isinstance(x, ast.Call) and isinstance(x.func, ast.Attribute)
              and x.func.attr == 'generate_response']:
        ctx.check(x.args and src(x.args[0]).endswith('.exchange_type'), 'M3',
                  'error replies carry the exchange type of the request', key=('M3', 'error-reply-exchange'),
                  site=ctx.site(preq, x))

    # ---------------------------------------------------------------- M4
    ts = common.typestate_asserts_hold(ctx, esc, 'M4')
    S = ts.S
    RS = [s for s in S.names if s.endswith('_REQ_SENT')]
    # the timer re-emits the stored request only while it is outstanding: in an idle state (ESTABLISHED, REKEYED, ..) the stored
    # request has been answered, and sending it again puts an already used Message ID on the wire (shared with C09 S2 / C13 X4 / C16 D2)
    from .c09 import timer_coverage
    timer_coverage(ctx, ts, 'M4')
    gens = common.request_generators(ctx)
    ctx.floor('M4 request generators', len(gens), 7)
    gen_quals = set(g_['fi'].qual for g_ in gens)
    for g_ in gens:
        fi = g_['fi']
        gg = esc.add_exception_edges(fi)
        asserts = [n for n in gg.nodes if n.kind == 'cond' and isinstance(n.stmt, ast.Assert)
                   and S.eval_cond(n.ast) is not None]
        node = common.node_of(gg, g_['node'])[0]
        ok = any(common.dominated_by_edge(gg, node, a, 'T') for a in asserts)
        ctx.check(ok, 'M4', '%s builds its request only after asserting the state it may be sent from' % fi.name,
                  key=('M4', fi.qual, 'unguarded-generator'), site=ctx.site(fi, g_['node']))
        # normal exits leave a request-outstanding state
        for s in S.names:
            for (s2, k) in ts.summary(fi, s):
                if k in ('ret', 'retv'):
                    ctx.check(s2 in RS and k == 'retv', 'M4', '%s entered in %s returns the request and leaves %s'
                              % (fi.name, s, s2), key=('M4', fi.qual, 'exit-state', s2), site=ctx.site(fi, fi.node))
    callers = set()
    for fi in ikesa.methods.values():
        for x in walk_no_nested(fi.node):
            if isinstance(x, ast.Call) and isinstance(x.func, ast.Attribute) and x.func.attr == 'generate_request':
                callers.add(fi.qual)
    # the message of an exchange is stamped by the IKE_SA the exchange runs on: every generate_request / generate_response in the
    # IkeSa methods is called on `self` (the successor of a rekey, a half-built object with Message ID 0, other SPIs and no keys, never
    # stamps a message of this IKE_SA's window)
    nstamp = 0
    for fi in ikesa.methods.values():
        if not isinstance(fi.node, ast.FunctionDef) or not fi.self_name:
            continue
        for c in ctx.sval(fi).calls:
            if any(q in ('ikesa.IkeSa.generate_request', 'ikesa.IkeSa.generate_response') for q in c.quals):
                nstamp += 1
                ctx.check(c.recv == ('param', fi.self_name), 'M3', '%s: %s is called on the IKE_SA whose exchange it is (self)' % (
                    fi.name, c.name), key=('M3', fi.qual, 'stamp-receiver', c.name), site=ctx.site(fi, c.node),
                    detail={'receiver': tq.text(c.recv, 120) if c.recv else None})
    ctx.floor('M3 generate_request / generate_response calls in IkeSa', nstamp, 10, rule='M3')
    extra = callers - gen_quals - {'ikesa.IkeSa.handle_invalid_ke'}
    ctx.check(not extra, 'M4', 'generate_request is called only by the state-guarded generators and by the '
              'INVALID_KE retry (which replaces the outstanding request)', key=('M4', 'who-calls-generate_request',
                                                                                 ','.join(sorted(extra))))
    for name in ('process_acquire', 'process_expire', 'check_dead_peer_detection_timer', 'check_rekey_ike_sa_timer'):
        fi = ctx.func('ikesa.IkeSa.' + name)
        for s in RS:
            out = ts.entry_outcomes[name][s]
            ctx.check(out == {(s, 'ret')}, 'M4', '%s in %s emits nothing and changes no state' % (name, s),
                      key=('M4', name, 'emits-while-outstanding', s), site=ctx.site(fi, fi.node),
                      detail={'outcomes': sorted(out)})
    for name in ('process_acquire', 'process_expire'):
        fi = ctx.func('ikesa.IkeSa.' + name)
        gg = esc.add_exception_edges(fi)
        q = [n for n, x in common.nodes_calling(ctx, fi, gg, common.calls_named('append'))
             if 'pending_events' in src(x.func.value)]
        ctx.floor('queuing of the trigger (pending_events.append) in %s' % name, len(q), 1, rule='M4')
        arr = set()
        for n in q:
            arr |= ts.states_at(fi, n, None)
        ctx.check(set(RS) <= arr, 'M4', '%s queues the trigger in every request-outstanding state' % name,
                  key=('M4', name, 'not-queued', ','.join(sorted(set(RS) - arr))), site=ctx.site(fi, fi.node))
    # replay of queued triggers only when idle
    pe = [n for n in g2.nodes if n.kind == 'iter' and 'pending_events' in src(n.ast.iter)]
    ctx.floor('the replay loop over pending_events', len(pe), 1, rule='M4')
    est = frozenset(['ESTABLISHED'])
    conds = [(c, 'T' if S.eval_cond(c.ast)[1] == est else 'F') for c in g2.nodes if c.kind == 'cond' and S.eval_cond(c.ast) is not None
             and (S.eval_cond(c.ast)[1] == est or S.all - S.eval_cond(c.ast)[1] == est)]
    # (`if state == ESTABLISHED: replay` and `if state != ESTABLISHED: return` are the same guard)
    ctx.check(bool(pe) and all(any(common.dominated_by_edge(g2, n, c, e) for c, e in conds) for n in pe), 'M4',
              'queued triggers are replayed only when the IKE_SA is ESTABLISHED (idle)', key=('M4', 'replay-guard'),
              site=ctx.site(presp, presp.node))

    # what goes on the wire for an outstanding request is the retained request (so a retransmission carries the same Message ID as
    # the transmission it repeats, also after a COOKIE / INVALID_KE retry) - shared with C13/X1
    from .c13 import check_retained
    check_retained(ctx, 'M3')

    # ---------------------------------------------------------------- M5
    pm = ctx.func('ikesa.IkeSa.process_message')
    g5 = esc.add_exception_edges(pm)
    disp = [n for n, x in common.nodes_calling(ctx, pm, g5, lambda c, r: any(
        t.name in ('_process_request', '_process_response') for t in r.targets))]
    ctx.floor('M5 dispatch calls in process_message', len(disp), 2)
    PM = ctx.sval(pm)
    msg = pm.call_params()[0]
    ctx.require(msg == 'data', 'process_message(data) signature changed: %s' % pm.call_params())
    dcalls = [c for c in PM.calls if any(q in ('ikesa.IkeSa._process_request', 'ikesa.IkeSa._process_response') for q in c.quals)]
    ctx.floor('M5 dispatch calls in process_message (value terms)', len(dcalls), 2)
    for c in dcalls:
        m = list(c.args.values())[0] if c.args else None
        ok = m is not None
        E = lambda text: PM.expr(text, dict(PM.entry_env, M=m))    # noqa: E731
        site = ctx.site(pm, c.node)
        ctx.check(ok and tq.entails(c.pc, E('M.is_initiator != self.is_initiator')) is True, 'M5',
                  'dispatch requires the sender\'s INITIATOR flag to differ from our role', key=('M5', 'role-flag'), site=site)
        ctx.check(ok and tq.entails(c.pc, E('M.exchange_type == Message.Exchange.IKE_SA_INIT or '
                                            '(M.spi_i, M.spi_r) == (self.spi_i, self.spi_r)')) is True, 'M5',
                  'dispatch requires matching SPIs unless the exchange is IKE_SA_INIT', key=('M5', 'spi-test'), site=site)
        isreq_ = any(q.endswith('_process_request') for q in c.quals)
        goal = E('M.is_request') if isreq_ else E('not M.is_request')
        alt = E('not M.is_response') if isreq_ else E('M.is_response')
        ctx.check(ok and (tq.entails(c.pc, goal) is True or tq.entails(c.pc, alt) is True), 'M5',
                  '%s go to %s' % ('requests' if isreq_ else 'responses', '_process_request' if isreq_ else '_process_response'),
                  key=('M5', 'split-request' if isreq_ else 'split-response'), site=site)
    isreq = ctx.func('message.Message.is_request')
    IR = ctx.sval(isreq)
    ctx.check(IR.ret() == IR.expr('not self.is_response'), 'M5', 'Message.is_request is `not is_response`',
              key=('M5', 'is_request'), site=ctx.site(isreq, isreq.node))


MANIFEST = {
    'level': 'All-paths static decision of the window code: the Message-ID tests of _process_request/_process_response '
             'are interpreted over the finite abstraction delta = received ID - expected ID (exhaustive over the '
             'orderings the tests can distinguish), proving that a handler runs only for the expected ID, that the '
             'previous ID is answered from the cache and only from it, that other IDs have no effect, and that '
             'the counters advance exactly once per executed request / accepted response; keyword binding of the two '
             'generators decides ID/flag/version/SPI stamping; the typestate analysis decides that no path issues a '
             'request while one is outstanding. Schedules are not enumerated: the facts hold on every path.',
    'note': 'Trusted: resolver typing table, effect catalogue (exception edges). Declined: concrete duplication / '
            'reordering schedules and byte identity over time (the cached reply is one stored value).',
    'technique': 'finite-abstraction interpretation over the CFG + dominance + typestate',
    'design_ref': 'DESIGN.md 3/C08',
}
MANIFEST['note'] += (' Also decided here (necessary conditions shared between properties or added after the independent '
                     'change rounds, DESIGN.md 8.7): role of the successor IKE_SA (from C01), every sent request is the retained one (from C13), from_exception cannot raise. Rounds 7-8: every message is stamped by the IKE_SA it belongs to (generate_request / generate_response on self).')
MANIFEST['note'] += (' Round 10: the retransmission timer re-emits the stored request only in states where it is outstanding '
                     '(timer coverage per state, shared with C09 / C13 / C16).')
