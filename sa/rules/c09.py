"""C09 - Colliding exchanges leave both peers consistent: no crash, no deadlock.
Per-transition clauses only (DESIGN 3/C09):

S1 (A3)  every `assert self.state ...` holds at every call site in every reachable state.
S2 (A3)  every request-outstanding state is admitted by the response handler of the
         exchange that was sent in it, is covered by the retransmission timer (whose
         give-up edge leads to DELETED), and every response-handler path either leaves
         the request-outstanding states or returns a new request.
S3 (A4)  RFC 7296 2.25 collision answers are on the paths that need them.
S4 (A1+A3) no exception escapes a trigger entry point; only protocol errors of the parser
         escape process_message.
The drain/consistency clause over all interleavings is declined (model checking).
"""
import ast

from ..model import src, walk_no_nested
from . import common
from .. import tq

EXPLANATION = ('static analysis: typestate abstract interpretation of IkeSa (14 states, per-state summaries over the '
               'resolved call graph with exception edges), extraction of the admission relation per exchange, '
               'dominance checks of the collision guards, exception-escape analysis of the trigger entry points')
ASSUMPTIONS = [
    'declined: "after a lossless drain both endpoints hold the same IKE_SAs and CHILD_SAs, for all interleavings" '
    '(product state space of two daemons and a network: model checking, a different technique family)',
    'INIT_RES_SENT (half-open responder) and REKEYED (waiting for the peer\'s delete) have no local timer; the '
    'property\'s "waiting for a response" is read as the request-outstanding (*_REQ_SENT) states',
]

NOTIFY_TABLE = {   # exception class -> RFC 7296 3.10.1 notify (oracle transcribed from the RFC)
    'NoProposalChosen': 'NO_PROPOSAL_CHOSEN', 'UnsupportedCriticalPayload': 'UNSUPPORTED_CRITICAL_PAYLOAD',
    'InvalidSyntax': 'INVALID_SYNTAX', 'AuthenticationFailed': 'AUTHENTICATION_FAILED',
    'TsUnacceptable': 'TS_UNACCEPTABLE', 'InvalidKePayload': 'INVALID_KE_PAYLOAD',
    'ChildSaNotFound': 'CHILD_SA_NOT_FOUND', 'TemporaryFailure': 'TEMPORARY_FAILURE', 'CookieRequired': 'COOKIE',
}


def req_sent_states(S):
    return [n for n in S.names if n.endswith('_REQ_SENT')]


def from_exception_table(ctx):
    fi = ctx.func('message.PayloadNOTIFY.from_exception')
    for n in walk_no_nested(fi.node):
        if isinstance(n, ast.Assign) and isinstance(n.value, ast.Dict) and len(n.value.keys) >= 5:
            return fi, {src(k): src(v).split('.')[-1] for k, v in zip(n.value.keys, n.value.values)}
    ctx.require(False, 'anchor vanished: exception_2_notify table in PayloadNOTIFY.from_exception')


def timer_coverage(ctx, ts, rule):
    """every state in which a request of ours is outstanding is covered by the retransmission timer: it retransmits and stays, and
    its give-up edge reaches DELETED (only DELETED entries ever leave the controller's table); idle states are left alone"""
    S = ts.S
    RS = req_sent_states(S)
    rt = ctx.func('ikesa.IkeSa.check_retransmission_timer')
    for s in S.names:
        out = ts.summary(rt, s)
        if s in RS:
            ctx.check(('DELETED', 'ret') in out, rule, 'retransmission timer covers %s: give-up edge reaches DELETED' % s,
                      key=(rule, 'timer-misses', s), site=ctx.site(rt, rt.node), detail={'outcomes': sorted(out)})
            ctx.check((s, 'retv') in out, rule, 'retransmission timer covers %s: retransmits and stays in %s' % (s, s),
                      key=(rule, 'timer-no-retransmit', s), site=ctx.site(rt, rt.node), detail={'outcomes': sorted(out)})
        else:
            ctx.check(out == {(s, 'ret')}, rule, 'retransmission timer leaves %s alone (no request outstanding)' % s,
                      key=(rule, 'timer-touches-idle', s), site=ctx.site(rt, rt.node), detail={'outcomes': sorted(out)})


def run(ctx):
    prog, res = ctx.prog, ctx.res
    esc = ctx.escape('engine', kills=common.engine_kills(ctx))
    # ---------------------------------------------------------------- S1
    ts = common.typestate_asserts_hold(ctx, esc, 'S1')
    S = ts.S
    hier = esc.hier
    RS = req_sent_states(S)
    ctx.floor('S2 request-outstanding states', len(RS), 9)
    for k, sts in sorted(ts.checks.items()):
        if k[1] == 'check_in_states':
            ctx.stats.setdefault('admission lists', {})[k[0].split('.')[-1]] = k[2][:120]
    for q in sorted(set(k[0] for k in ts.memo)):
        ctx.functions.add(q)

    # ---------------------------------------------------------------- S2
    resp = common.handler_table(ctx, '_process_response')
    reqt = common.handler_table(ctx, '_process_request')
    ctx.floor('S2 response handlers', len(resp), 4)
    ctx.floor('S2 request handlers', len(reqt), 4)
    gens = common.request_generators(ctx)
    ctx.floor('S2 request generators (self.request = generate_request(...))', len(gens), 7)
    produced = {}
    for g in gens:
        fi = g['fi']
        ctx.require(g['exchange'] is not None, 'generator %s: exchange type is not a constant' % fi.qual)
        posts = set(s for s in g['states'] if s in RS)
        ctx.check(bool(posts), 'S2', 'generator %s leaves the IKE_SA in a request-outstanding state %s' % (
            fi.qual, sorted(posts)), key=('S2', fi.qual, 'no-req-sent-state'), site=ctx.site(fi, g['node']))
        for p in posts:
            produced.setdefault(p, set()).add(g['exchange'])
            h = resp.get(g['exchange'])
            ctx.require(h is not None, 'no response handler for exchange %s' % g['exchange'])
            out = ts.summary(h, p)
            refused = all(k == ts.check_exc for _, k in out) if out else True
            ctx.check(not refused, 'S2', 'state %s (entered by %s, %s) is admitted by the %s response handler %s'
                      % (p, fi.name, g['exchange'], g['exchange'], h.name),
                      key=('S2', 'not-admitted', p, g['exchange']), site=ctx.site(h, h.node),
                      detail={'outcomes': sorted(out)})
    # the INVALID_KE retry of IKE_SA_INIT rebinds self.request through handle_invalid_ke (same exchange type)
    for s in RS:
        ctx.check(s in produced, 'S2', 'request-outstanding state %s is entered by a request generator' % s,
                  key=('S2', 'state-never-entered', s))
    timer_coverage(ctx, ts, 'S2')
    for ex, h in sorted(resp.items()):
        for s in RS:
            out = ts.summary(h, s)
            for (s2, k) in sorted(out):
                if k == 'ret':
                    ctx.check(s2 not in RS, 'S2', 'response handler %s in %s returning no request leaves the '
                              'request-outstanding states (ends in %s)' % (h.name, s, s2),
                              key=('S2', 'stuck', h.qual, s, s2), site=ctx.site(h, h.node))
                elif k == 'retv':
                    ctx.check(s2 in RS, 'S2', 'response handler %s in %s returning a new request ends in a '
                              'request-outstanding state (%s)' % (h.name, s, s2),
                              key=('S2', 'request-from-idle', h.qual, s, s2), site=ctx.site(h, h.node))
    # the other direction of a collision: while our own request is outstanding (after authentication) the peer's request - which it sent
    # before it saw ours - is admitted by its handler, not refused as a state error (that would answer INVALID_SYNTAX and delete the IKE_SA)
    pre = common.pre_auth_states(ctx, S)
    crossing = [s for s in RS if s not in pre] + ['ESTABLISHED']
    for ex in ('CREATE_CHILD_SA', 'INFORMATIONAL'):
        h = reqt.get(ex)
        ctx.require(h is not None, 'anchor vanished: request handler for %s' % ex)
        for s in crossing:
            out = ts.summary(h, s)
            refused = all(k == ts.check_exc for _, k in out) if out else True
            ctx.check(not refused, 'S2', 'a %s request that crosses our own exchange (state %s) is admitted by %s' % (ex, s, h.name),
                      key=('S2', 'crossing-refused', ex, s), site=ctx.site(h, h.node), detail={'outcomes': sorted(out)})
    common.deleted_observed(ctx, esc, 'S2')
    # two exchanges that cross use two DH computations: the responder side of one must not touch `self.dh`, which holds the private
    # value of our own outstanding request (shared with C01 O3)
    from .c01 import dh_writers
    dh_writers(ctx, 'S3')

    # ---------------------------------------------------------------- S3 collision answers
    creq = ctx.func('ikesa.IkeSa._process_create_child_sa_negotiation_req')
    g = esc.add_exception_edges(creq)
    installs = common.nodes_calling(ctx, creq, g, calls_create_child_sa(ctx))
    ctx.floor('S3 create_child_sa call in the responder negotiation', len(installs), 1)
    # run the request handlers so that node_in is populated for this function
    for ex, h in reqt.items():
        ts.run_entry(h)
    for s in ('REK_IKE_SA_REQ_SENT', 'DEL_IKE_SA_REQ_SENT'):
        ctx.require(s in S.members, 'anchor vanished: state %s' % s)
        for n, call in installs:
            arriving = ts.states_at(creq, n)
            ctx.check(s not in arriving, 'S3', 'no CHILD_SA is installed for a request received in %s' % s,
                      key=('S3', 'install-in', s), site=ctx.site(creq, call))
        tf = [n for n in g.nodes if n.kind == 'stmt' and isinstance(n.ast, ast.Raise)
              and 'TemporaryFailure' in src(n.ast) and s in ts.states_at(creq, n)]
        ctx.check(bool(tf), 'S3', 'a CHILD_SA request received in %s is answered with TemporaryFailure' % s,
                  key=('S3', 'no-temporary-failure', s), site=ctx.site(creq, creq.node))
    # REKEY_SA for an unknown SPI -> ChildSaNotFound(spi, protocol of the notify)
    lookups = [(n, x) for n, x in common.nodes_calling(ctx, creq, g, common.calls_named('get_child_sa'))]
    ctx.floor('the lookup of the CHILD_SA named by REKEY_SA in the responder negotiation', len(lookups), 1, rule='S3')
    for n, x in lookups:
        ctx.require(isinstance(n.ast, ast.Assign) and isinstance(n.ast.targets[0], ast.Name),
                    'unrecognised shape: get_child_sa result not bound to a local')
        var = n.ast.targets[0].id
        spi_arg = src(x.args[0]) if x.args else ''
        conds = [c for c in g.nodes if c.kind == 'cond' and src(c.ast) in ('%s is None' % var, 'not %s' % var)]
        ok = False
        for c in conds:
            for lab, m in c.succ:
                if lab == 'T' and m.kind == 'stmt' and isinstance(m.ast, ast.Raise) \
                        and isinstance(m.ast.exc, ast.Call) and src(m.ast.exc.func) == 'ChildSaNotFound':
                    kw = {k.arg: src(k.value) for k in m.ast.exc.keywords}
                    if kw.get('spi') == spi_arg and kw.get('protocol', '').endswith('.protocol_id') \
                            and kw['protocol'].rsplit('.', 1)[0] == spi_arg.rsplit('.', 1)[0]:
                        # and every later use of var is dominated by the F edge
                        ok = True
                        for u in g.nodes:
                            if u is c or u.id == n.id:
                                continue
                            if any(isinstance(y, ast.Attribute) and isinstance(y.value, ast.Name)
                                   and y.value.id == var for e in u.exprs() if e is not None for y in ast.walk(e)):
                                if not common.dominated_by_edge(g, u, c, 'F'):
                                    ok = False
        ctx.check(ok, 'S3', 'REKEY_SA naming an unknown SPI raises ChildSaNotFound carrying that SPI and protocol '
                  'before the looked-up CHILD_SA is used', key=('S3', 'child-sa-not-found'), site=ctx.site(creq, x))
    # rekey of the SA being deleted / being rekeyed -> TemporaryFailure
    for st, attr in (('DEL_CHILD_REQ_SENT', 'deleting_child_sa'), ('REK_CHILD_REQ_SENT', 'rekeying_child_sa')):
        ok = False
        for c in g.nodes:
            if c.kind == 'cond' and isinstance(c.ast, ast.Compare) and isinstance(c.ast.ops[0], ast.Eq) \
                    and ('self.' + attr) in (src(c.ast.left), src(c.ast.comparators[0])):
                traise = [m for lab, m in c.succ if lab == 'T' and m.kind == 'stmt' and isinstance(m.ast, ast.Raise)
                          and 'TemporaryFailure' in src(m.ast)]
                if traise and ts.states_at(creq, traise[0]) == {st}:
                    ok = True
        ctx.check(ok, 'S3', 'rekey request for the CHILD_SA we are %s (state %s) is answered with TemporaryFailure'
                  % ('deleting' if 'DEL' in st else 'rekeying', st), key=('S3', 'collision', st),
                  site=ctx.site(creq, creq.node))
    # IKE_SA rekey request while not ESTABLISHED -> TEMPORARY_FAILURE, nothing handed over
    ccr = ctx.func('ikesa.IkeSa.process_create_child_sa_request')
    g2 = esc.add_exception_edges(ccr)
    rk = [n for n in g2.nodes if n.kind == 'stmt' and isinstance(n.ast, ast.Assign)
          and any(common.is_self_attr(t, ccr, 'state') for t in n.ast.targets)
          and common.state_name(n.ast.value) == 'REKEYED']
    ctx.floor('the transition to REKEYED in process_create_child_sa_request', len(rk), 1, rule='S3')
    for n in rk:
        arr = ts.states_at(ccr, n)
        ctx.check(arr <= {'ESTABLISHED'} and bool(arr), 'S3',
                  'an IKE_SA rekey request is accepted only in ESTABLISHED (arriving: %s)' % sorted(arr),
                  key=('S3', 'ike-rekey-accepted-in', ','.join(sorted(arr))), site=ctx.site(ccr, n.ast))
    tfn = [n for n in g2.nodes if n.kind == 'stmt' and 'from_exception(TemporaryFailure' in src(n.ast)]
    ctx.check(bool(tfn) and all(ts.states_at(ccr, n) and 'ESTABLISHED' not in ts.states_at(ccr, n) for n in tfn),
              'S3', 'an IKE_SA rekey request received while another exchange is outstanding is answered '
              'TEMPORARY_FAILURE', key=('S3', 'ike-rekey-temporary-failure'), site=ctx.site(ccr, ccr.node))
    # the caught tuple is covered by the notify table, and the table is the RFC's
    ffi = ctx.func('message.PayloadNOTIFY.from_exception')
    table = {k: common.notify_type_of(ctx, k) for k in NOTIFY_TABLE}
    for k, v in NOTIFY_TABLE.items():
        ctx.check(table.get(k) == v, 'S3', 'from_exception maps %s to %s' % (k, v),
                  key=('S3', 'notify-table', k), site=ctx.site(ffi, ffi.node))
    caught = []
    for n in g.nodes:
        if n.kind == 'handler' and n.ast.type is not None:
            caught.append([src(e) for e in (n.ast.type.elts if isinstance(n.ast.type, ast.Tuple) else [n.ast.type])])
    ctx.floor('the refusal handlers of the responder negotiation', len(caught), 2, rule='S3')
    need = {'TsUnacceptable', 'NoProposalChosen', 'ChildSaNotFound', 'TemporaryFailure', 'InvalidKePayload'}
    missing = {k for k in need if not common.own_notify_for(ctx, creq, k)}
    first = need - missing
    ctx.check(need <= first, 'S3', 'CHILD_SA refusals %s are converted to their own notify (not deleted, not '
              'generalised)' % sorted(need), key=('S3', 'caught-tuple', ','.join(sorted(need - first))),
              site=ctx.site(creq, creq.node))
    # initiator side
    ccresp = ctx.func('ikesa.IkeSa.process_create_child_sa_response')
    out = ts.summary(ccresp, 'REK_IKE_SA_REQ_SENT')
    ctx.check(('ESTABLISHED', 'ret') in out, 'S3', 'initiator: a pushed-back IKE_SA rekey returns to ESTABLISHED '
              'without a new request', key=('S3', 'pushback'), site=ctx.site(ccresp, ccresp.node))
    g3 = esc.add_exception_edges(ccresp)
    tfc = [c for c in g3.nodes if c.kind == 'cond' and 'TEMPORARY_FAILURE' in src(c.ast)]
    moved = False
    for c in tfc:
        tn = g3.reach([m for lab, m in c.succ if lab == 'T'], blocked_nodes=[c], follow_exc=False)
        for n in g3.nodes:
            if n.id in tn and n.kind == 'stmt' and isinstance(n.ast, ast.Assign) \
                    and any(common.is_self_attr(t, ccresp, 'rekey_ike_sa_at') for t in n.ast.targets) \
                    and 'time.time()' in src(n.ast.value) and common.dominated_by_edge(g3, n, c, 'T'):
                moved = True
    ctx.check(moved, 'S3', 'initiator: TEMPORARY_FAILURE on IKE_SA rekey moves the rekey deadline',
              key=('S3', 'pushback-timer'), site=ctx.site(ccresp, ccresp.node))
    for h in (ccresp, ctx.func('ikesa.IkeSa.process_ike_auth_response')):
        e = esc.escapes(h)
        ctx.check('ChildSaRejectedError' not in e, 'S3', 'a rejected CHILD_SA does not tear down the IKE_SA '
                  '(ChildSaRejectedError is contained in %s)' % h.name, key=('S3', 'rejected-escapes', h.qual),
                  site=ctx.site(h, h.node))
    # membership tests before follow-up delete / kernel delete (value terms: the call's path condition entails the membership,
    # however the test is written - `if x in l:`, `if x not in l: return`, in a helper)
    CR = ctx.sval(ccresp)
    old = CR.expr('self.rekeying_child_sa')
    nd = 0
    for c in CR.calls:
        if c.name == 'generate_delete_child_sa_request' and list(c.args.values())[:1] == [old]:
            nd += 1
            ctx.check(tq.entails(c.pc, CR.expr('self.rekeying_child_sa in self.child_sas')) is True, 'S3',
                      'the old CHILD_SA is deleted after a rekey only if it is still tracked',
                      key=('S3', 'rekeyed-still-tracked'), site=ctx.site(ccresp, c.node))
    ctx.floor('S3 follow-up delete of the rekeyed CHILD_SA', nd, 1, rule='S3')
    ir = ctx.func('ikesa.IkeSa.process_informational_response')
    IR = ctx.sval(ir)
    dch = IR.expr('self.deleting_child_sa')
    nd = 0
    for c in IR.calls:
        if c.name in ('delete_child_sa', 'remove') and c.args and list(c.args.values())[-1] == dch:
            nd += 1
            ctx.check(tq.entails(c.pc, IR.expr('self.deleting_child_sa in self.child_sas')) is True, 'S3',
                      '`%s(.. self.deleting_child_sa)` runs only if the CHILD_SA is still tracked' % c.name,
                      key=('S3', 'delete-still-tracked', c.name), site=ctx.site(ir, c.node))
    ctx.floor('S3 removal of the CHILD_SA whose deletion was answered', nd, 2, rule='S3')

    # "no deadlock": whatever crossed on the wire, a lost message is repaired by the ordinary machinery - the responder answers the
    # repetition of the request it answered last from its cache (also request 0 of a rekeyed IKE_SA), shared with C08 M1; and every
    # request - the follow-up of a collision included - starts with a retry budget of its own, whatever the exchange before it used up
    from .c08 import window
    tables = [set(t.qual for t in common.handler_table(ctx, f).values()) for f in ('_process_request', '_process_response')]
    is_handler = lambda call, r: r.kind == 'dyn' and bool(r.targets) and any(   # noqa: E731
        set(t.qual for t in r.targets) <= tb for tb in tables)
    window(ctx, 'S2', ctx.func('ikesa.IkeSa._process_request'), 'peer_msg_id', is_handler, 'last_sent_response_data')
    snd = ctx.func('ikesa.IkeSa._send_request')
    SN = ctx.sval(snd)
    cnt = SN.final('self.retransmissions')
    ctx.check(cnt is not None and cnt[0] == 'const' and isinstance(cnt[2], int), 'S2',
              'every request sent starts with the same retry counter, whatever the previous exchange left behind', key=('S2', 'fresh-budget'),
              site=ctx.site(snd, snd.node), detail={'retransmissions after _send_request': tq.text(cnt, 200) if cnt else None})
    # S3 (2.8 / 2.25.2): while an IKE_SA rekey is outstanding the old IKE_SA keeps serving CHILD_SA exchanges, so the
    # CHILD_SAs are inherited by the successor at the moment the rekey commits - not when it is requested - or the
    # exchanges that collide with the rekey leave the successor with a stale list
    from .c10 import handover_rule
    handover_rule(ctx, esc, 'S3')

    # ---------------------------------------------------------------- S4
    common.from_exception_total(ctx, esc, 'S4')
    # deleting a CHILD_SA the kernel has already expired (crossing deletes / expires) is not an error
    from .c10 import kernel_teardown
    kernel_teardown(ctx, esc, 'S4')
    # the entry points are only ever invoked on IKE_SAs that are in the controller's table: once an IKE_SA was deleted and removed
    # (e.g. by crossing DELETEs) a late or duplicated message for its SPI finds nothing and is dropped
    from .c16 import lookup_by_spi
    lookup_by_spi(ctx, 'S4')
    allowed_pm = {'InvalidSyntax', 'UnsupportedCriticalPayload'}
    for name in common.ENTRY_POINTS:
        fi = ctx.func('ikesa.IkeSa.' + name)
        bad = {}
        for s, outs in ts.entry_outcomes[name].items():
            for (s2, k) in outs:
                if k in ('ret', 'retv'):
                    continue
                if name == 'process_message' and k in allowed_pm:
                    continue
                bad.setdefault(k, set()).add(s)
        for k, sts in sorted(bad.items()):
            origins = esc.escapes(fi).get(k, {})
            ctx.bad('S4', ('S4', fi.qual, k, ';'.join(sorted(origins))[:300]),
                    '%s can escape IkeSa.%s (entry states %s): %s' % (k, name, sorted(sts)[:4], '; '.join(sorted(origins))[:300]),
                    ctx.site(fi, fi.node), {'witness': [c for ch in origins.values() for c in ch][:12]})
        if not bad:
            ctx.ok('S4', 'no exception escapes IkeSa.%s in any of the %d states%s' % (
                name, len(S.names), ' except parser protocol errors' if name == 'process_message' else ''),
                ctx.site(fi, fi.node))
    for name in ('_process_request', '_process_response'):
        fi = ctx.func('ikesa.IkeSa.' + name)
        e = esc.escapes(fi)
        for k, origins in e.items():
            for o, chain in origins.items():
                ctx.bad('S4', ('S4', fi.qual, k, o), '%s raised at %s escapes %s (outside its handlers)' % (k, o, name),
                        ctx.site(fi, fi.node), {'witness': chain})
        if not e:
            ctx.ok('S4', 'everything raised under %s is contained by its handlers or cannot raise' % name,
                   ctx.site(fi, fi.node))
    ctx.stats['typestate summaries computed'] = len(ts.memo)
    ctx.stats['transitions'] = sorted('%s: %s -> %s' % (q.split('.')[-1], a, ','.join(sorted(b)))
                                      for (q, a), b in ts.transitions.items())[:80]


def calls_create_child_sa(ctx):
    return lambda call, r: any(t.qual == 'xfrm.Xfrm.create_child_sa' for t in r.targets)


MANIFEST = {
    'level': 'Per-transition static decision (not the two-endpoint product): typestate abstract interpretation over '
             'the 14 IkeSa states proves every asserted precondition at every call site, the admission relation '
             'extracted from the code covers every request-outstanding state by its response handler and by the '
             'retransmission timer (give-up reaches DELETED), no response path strands the IKE_SA, the RFC 7296 2.25 '
             'collision answers dominate the paths that need them, and no exception escapes a trigger entry point. '
             'The interleaving/drain clause is declined as not decidable by static analysis.',
    'note': 'Trusted: effect catalogue, resolver typing, configuration invariants listed in rules/common.py. Declined: '
            'consistency of both endpoints after a drain over all interleavings.',
    'technique': 'typestate abstract interpretation + dominance checks + exception-escape analysis',
    'design_ref': 'DESIGN.md 3/C09',
}
MANIFEST['note'] += (' Also decided here (necessary conditions shared between properties or added after the independent '
                     'change rounds, DESIGN.md 8.7): hand-over at commit (from C10), lookup by SPI returns table entries (from C16), kernel teardown cannot fail or be cut short (from C10/C14), from_exception cannot raise. Rounds 7-8: request window incl. request 0 (from C08); a fresh retry budget per request; follow-up deletes by value terms.')
