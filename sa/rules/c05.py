"""C05 - Wire encoding matches RFC 7296 section 3 and round-trips.

Claimed clause: codec sibling agreement against a third, independent description (a table transcribed
from RFC 7296 3.1-3.14 held by this module), registry and dump exhaustiveness, chain-termination checks.

W1 (A7)  per structure: the struct format used by the decoder and by the encoder have the RFC's field
         offsets and widths; the value decoded at each position flows into the attribute whose value the
         encoder writes at that position; RESERVED ranges are ignored on decode and written as zero.
W2 (A11) bit-level and arithmetic details evaluated by the checker's interpreter: header flag bits and
         version nibbles (encode, decode, round trip, RFC values), the critical bit, "more" markers, the
         +4 length conventions, selector length and address width, the KEYLEN attribute, slice bounds.
W3       registry: type_2_payload[T].type == T; every enum member against the IANA number.
W4 (A4)  payload chain: next-payload wiring on both sides, SK's inner first type, the end-of-data check
         dominates every normal return, unknown payloads (skip / UnsupportedCriticalPayload).
W5       dump exhaustiveness: every to_dict reads every constructor-assigned attribute; both payload lists
         are dumped; every received and sent message is logged.
"""
import ast
import re
import struct

from ..finite import Interp
from ..model import AnalysisError, src, walk_no_nested
from ..sval import NONE, const, norm_pc, same, strip_ids, subterms
from ..terms import callee_name, calls_in, compare_parts, inline, kwargs_of, single_def
from .. import tq
from . import common

EXPLANATION = ('static analysis: field-by-field comparison of the decoder\'s and encoder\'s struct layouts with a table '
               'transcribed from RFC 7296 section 3, def-use flow of each decoded field into the attribute the encoder reads, '
               'finite evaluation of bit masks/shifts/markers/length arithmetic, registry and IANA constant tables, dominance of '
               'the end-of-data check, and attribute coverage of the structured dump')
ASSUMPTIONS = [
    'declined: round-trip equality and idempotence over all byte strings (runtime property); comparison with an independent '
    'encoder on concrete messages (differential testing). What is decided is necessary for both.',
    'oracle: RFC 7296 3.1-3.14 layouts and the IANA IKEv2 parameter registry, transcribed into this module',
]

RES = 'reserved'
M = 'message.'


def layout(fmt, A=None):
    """[(offset, width)] of the fields of a big-endian struct format; `{0}`/`{}` placeholders are replaced by A"""
    f = re.sub(r'\{[^}]*\}', str(A) if A is not None else '1', fmt)
    if not f.startswith('>') and not f.startswith('!'):
        raise AnalysisError('wire format %r is not big-endian' % fmt)
    out = []
    off = 0
    for cnt, ch in re.findall(r'(\d*)([xcbB?hHiIlLqQs])', f[1:]):
        w = struct.calcsize('>' + ch)
        if ch == 'x':
            off += int(cnt) if cnt else 1       # pad octets: skipped by unpack, written as zero by pack - no value on either side
            continue
        if ch == 's':
            out.append((off, int(cnt) if cnt else 1))
            off += int(cnt) if cnt else 1
        else:
            for _ in range(int(cnt) if cnt else 1):
                out.append((off, w))
                off += w
    return out, off


def fmt_of(t):
    """format text of the first argument of a struct call term: constant, or 'x'.format(...) with `{}` placeholders"""
    if t[0] == 'const' and isinstance(t[2], str):
        return t[2]
    if tq.is_call(t, 'method.format') and t[2][0] == 'const' and isinstance(t[2][2], str):
        return t[2][2]
    return None


def unpack_calls(sv):
    """CallRecs of struct.unpack_from / struct.unpack in evaluation order"""
    return [c for c in sv.calls if c.callee in ('struct.unpack_from', 'struct.unpack')]


def upos(c):
    """(format text, buffer term, offset term or None) of an unpack CallRec / call term"""
    a = list((c.args if hasattr(c, 'args') else tq.args(c)).values())
    return (fmt_of(a[0]) if a else None, a[1] if len(a) > 1 else None, a[2] if len(a) > 2 else None)


def indices_in(t, U):
    """set of constant indices i such that U[i] occurs in term t"""
    U = strip_ids(U)
    out = set()
    for x in subterms(strip_ids(t)):
        if isinstance(x, tuple) and len(x) == 3 and x[0] == 'index' and x[1] == U and x[2][0] == 'const':
            out.add(x[2][2])
    return out


def all_terms(sv):
    """every value term the function computes (returns, raises, call arguments, stored values, conditions)"""
    out = [t for _, t, _ in sv.returns] + [t for _, t, _ in sv.raises] + [c.term for c in sv.calls] + [v for _, v, _, _, _ in sv.stores]
    for pc, _, _ in sv.returns + sv.raises:
        out.extend(a[0] for a in pc)
    for c in sv.calls:
        out.extend(a[0] for a in c.pc)
    # the update of a loop-carried variable counts when that variable is read somewhere (a cursor), not when it is only bound
    read = set()
    for t in out:
        for x in subterms(t):
            if isinstance(x, tuple) and len(x) == 3 and x[0] == 'acc':
                read.add(x[1])
    for ups in sv.loop_updates.values():
        out.extend(v for k, v in ups.items() if k in read)
    return out


def attr_params(ctx, cls):
    """attribute of self -> constructor parameter that feeds it (possibly through an enum constructor), along the MRO"""
    out = {}
    for k in reversed(cls.mro()):
        init = k.methods.get('__init__')
        if init is None or not isinstance(init.node, ast.FunctionDef):
            continue
        sv = ctx.sval(init)
        for t, v, _, _, _ in sv.stores:
            if t[0] == 'attr' and t[1] == ('param', 'self'):
                ps = [x[1] for x in subterms(v) if isinstance(x, tuple) and len(x) == 2 and x[0] == 'param' and x[1] in init.call_params()]
                if len(set(ps)) == 1:
                    out[t[2]] = ps[0]
                elif t[2] in ps:
                    out[t[2]] = t[2]        # several parameters take part (an enum chosen by another field): the like-named one
    return out


def ctor_returns(ctx, cls, fi):
    """[(pc, {param: term})] for every return of fi that constructs cls (or `cls(...)`)"""
    sv = ctx.sval(fi)
    out = []
    for pc, t, _ in sv.returns:
        if t[0] == 'call' and isinstance(t[1], str) and t[1].startswith('new ') and (
                t[1] == 'new ' + cls.qual or ctx.prog.classes.get(t[1][4:]) in cls.mro() or cls in (
                    ctx.prog.classes.get(t[1][4:]).mro() if ctx.prog.classes.get(t[1][4:]) else [])):
            out.append((pc, tq.args(t)))
    return out


def first_pack(t):
    """the struct.pack(...) call a byte-string term starts with (looking through bytearray()/bytes()), and the remaining parts"""
    parts = list(t[1]) if t[0] == 'add' else [t]
    head = parts[0] if parts else None
    while head is not None and tq.is_call(head) and head[1] in ('builtins.bytearray', 'builtins.bytes') and len(head[3]) == 1:
        head = head[3][0][1]
    if head is not None and tq.is_call(head, 'builtins.bytearray') and not head[3]:
        parts = parts[1:]
        return first_pack(('add', tuple(parts))) if len(parts) > 1 else (first_pack(parts[0]) if parts else (None, []))
    if head is not None and tq.is_call(head, 'struct.pack'):
        return head, parts[1:]
    return None, parts


# structure -> (class, decode fn, index of unpack_from, encode fn, index of pack, fields)
# field: (offset, width, role) role = attribute name | ('size', encode expr) | RES
STRUCTS = [
    ('KE payload (3.4)', 'PayloadKE', 'parse', 0, 'to_bytes', 0,
     [(0, 2, 'dh_group'), (2, 2, RES)]),
    ('Transform (3.3.2)', 'Transform', 'parse', 0, 'to_bytes', 0,
     [(0, 1, 'type'), (1, 1, RES), (2, 2, 'id')]),
    ('Proposal (3.3.1)', 'Proposal', 'parse', 0, 'to_bytes', 0,
     [(0, 1, 'num'), (1, 1, 'protocol_id'), (2, 1, ('size', 'len(self.spi)')), (3, 1, ('size', 'len(self.transforms)'))]),
    ('Notify payload (3.10)', 'PayloadNOTIFY', 'parse', 0, 'to_bytes', 0,
     [(0, 1, 'protocol_id'), (1, 1, ('size', 'len(self.spi)')), (2, 2, 'notification_type')]),
    ('Identification payload (3.5)', 'PayloadID', 'parse', 0, 'to_bytes', 0,
     [(0, 1, 'id_type'), (1, 3, RES)]),
    ('Authentication payload (3.8)', 'PayloadAUTH', 'parse', 0, 'to_bytes', 0,
     [(0, 1, 'method'), (1, 3, RES)]),
    ('Traffic Selector payload (3.13)', 'PayloadTS', 'parse', 0, 'to_bytes', 0,
     [(0, 1, ('size', 'len(self.traffic_selectors)')), (1, 3, RES)]),
    ('Delete payload (3.11)', 'PayloadDELETE', 'parse', 0, 'to_bytes', 0,
     [(0, 1, 'protocol_id'), (1, 1, ('size', 'len(self.spis[0]) if self.spis else 0')), (2, 2, ('size', 'len(self.spis)'))]),
]

IANA = {
    'Payload.Type': {'NONE': 0, 'SA': 33, 'KE': 34, 'IDi': 35, 'IDr': 36, 'CERT': 37, 'CERTREQ': 38, 'AUTH': 39, 'NONCE': 40,
                     'NOTIFY': 41, 'DELETE': 42, 'VENDOR': 43, 'TSi': 44, 'TSr': 45, 'SK': 46, 'CP': 47, 'EAP': 48},
    'Message.Exchange': {'IKE_SA_INIT': 34, 'IKE_AUTH': 35, 'CREATE_CHILD_SA': 36, 'INFORMATIONAL': 37},
    'Transform.Type': {'ENCR': 1, 'PRF': 2, 'INTEG': 3, 'DH': 4, 'ESN': 5},
    'Transform.EncrId': {'ENCR_DES': 2, 'ENCR_3DES': 3, 'ENCR_RC5': 4, 'ENCR_IDEA': 5, 'ENCR_CAST': 6, 'ENCR_BLOWFISH': 7,
                         'ENCR_3IDEA': 8, 'ENCR_DES_IV32': 9, 'ENCR_NULL': 11, 'ENCR_AES_CBC': 12, 'ENCR_AES_CTR': 13},
    'Transform.PrfId': {'PRF_HMAC_MD5': 1, 'PRF_HMAC_SHA1': 2, 'PRF_HMAC_TIGER': 3, 'PRF_HMAC_SHA2_256': 5,
                        'PRF_HMAC_SHA2_384': 6, 'PRF_HMAC_SHA2_512': 7},
    'Transform.IntegId': {'INTEG_NONE': 0, 'AUTH_HMAC_MD5_96': 1, 'AUTH_HMAC_SHA1_96': 2, 'AUTH_DES_MAC': 3, 'AUTH_KPDK_MD5': 4,
                          'AUTH_AES_XCBC_96': 5, 'AUTH_HMAC_SHA2_256_128': 12, 'AUTH_HMAC_SHA2_512_256': 14},
    'Transform.DhId': {'DH_NONE': 0, 'DH_1': 1, 'DH_2': 2, 'DH_5': 5, 'DH_14': 14, 'DH_15': 15, 'DH_16': 16, 'DH_17': 17,
                       'DH_18': 18, 'DH_19': 19, 'DH_20': 20, 'DH_21': 21},
    'Transform.EsnId': {'NO_ESN': 0, 'ESN': 1},
    'Proposal.Protocol': {'NONE': 0, 'IKE': 1, 'AH': 2, 'ESP': 3},
    'PayloadNOTIFY.Type': {'UNSUPPORTED_CRITICAL_PAYLOAD': 1, 'INVALID_IKE_SPI': 4, 'INVALID_MAJOR_VERSION': 5, 'INVALID_SYNTAX': 7,
                           'INVALID_MESSAGE_ID': 9, 'INVALID_SPI': 11, 'NO_PROPOSAL_CHOSEN': 14, 'INVALID_KE_PAYLOAD': 17,
                           'AUTHENTICATION_FAILED': 24, 'SINGLE_PAIR_REQUIRED': 34, 'NO_ADDITIONAL_SAS': 35,
                           'INTERNAL_ADDRESS_FAILURE': 36, 'FAILED_CP_REQUIRED': 37, 'TS_UNACCEPTABLE': 38, 'INVALID_SELECTORS': 39,
                           'TEMPORARY_FAILURE': 43, 'CHILD_SA_NOT_FOUND': 44, 'INITIAL_CONTACT': 16384, 'SET_WINDOW_SIZE': 16385,
                           'ADDITIONAL_TS_POSSIBLE': 16386, 'IPCOMP_SUPPORTED': 16387, 'NAT_DETECTION_SOURCE_IP': 16388,
                           'NAT_DETECTION_DESTINATION_IP': 16389, 'COOKIE': 16390, 'USE_TRANSPORT_MODE': 16391,
                           'HTTP_CERT_LOOKUP_SUPPORTED': 16392, 'REKEY_SA': 16393, 'ESP_TFC_PADDING_NOT_SUPPORTED': 16394,
                           'NON_FIRST_FRAGMENTS_ALSO': 16395},
    'PayloadID.Type': {'ID_IPV4_ADDR': 1, 'ID_FQDN': 2, 'ID_RFC822_ADDR': 3, 'ID_IPV6_ADDR': 5, 'ID_DER_ASN1_DN': 9,
                       'ID_DER_ASN1_GN': 10, 'ID_KEY_ID': 11},
    'PayloadAUTH.Method': {'RSA': 1, 'PSK': 2, 'DSS': 3},
    'TrafficSelector.Type': {'TS_IPV4_ADDR_RANGE': 7, 'TS_IPV6_ADDR_RANGE': 8},
    'TrafficSelector.IpProtocol': {'ANY': 0, 'ICMP': 1, 'TCP': 6, 'UDP': 17, 'ICMPv6': 58, 'MH': 135},
}
REGISTRY = {'SA': 'PayloadSA', 'KE': 'PayloadKE', 'IDi': 'PayloadIDi', 'IDr': 'PayloadIDr', 'AUTH': 'PayloadAUTH',
            'NONCE': 'PayloadNONCE', 'VENDOR': 'PayloadVENDOR', 'NOTIFY': 'PayloadNOTIFY', 'TSi': 'PayloadTSi',
            'TSr': 'PayloadTSr', 'SK': 'PayloadSK', 'DELETE': 'PayloadDELETE'}


def check_fixed(ctx, title, cls, dfn, di, efn, ei, fields, A=None, rule='W1'):
    dfi, efi = cls.lookup(dfn), cls.lookup(efn)
    ctx.require(dfi is not None and efi is not None, 'anchor vanished: %s.%s/%s' % (cls.qual, dfn, efn))
    D, E = ctx.sval(dfi), ctx.sval(efi)
    dsite, esite = ctx.site(dfi, dfi.node), ctx.site(efi, efi.node)
    dparam = ('param', dfi.call_params()[0])
    ups = [c for c in unpack_calls(D) if upos(c)[1] == dparam and upos(c)[2] in (None, const(0))]
    ctx.require(len(ups) >= 1, 'anchor vanished: fixed-part unpack of %s' % cls.qual)
    U = ups[0]
    fmt = upos(U)[0]
    pk, rest = first_pack(E.ret())
    ctx.require(fmt is not None and pk is not None and fmt_of(list(tq.args(pk).values())[0]) is not None,
                'non-constant wire format or no leading struct.pack in %s' % cls.qual)
    efmt = fmt_of(list(tq.args(pk).values())[0])
    eargs = list(tq.args(pk).values())[1:]
    dl, dsize = layout(fmt, A)
    el, esize = layout(efmt, A)
    want_size = sum(w for _, w, _ in fields)
    ctx.check(dsize == want_size, rule, '%s: the decoder reads the %d fixed octets at the start (%s)' % (title, want_size, fmt),
              key=(rule, title, 'decode-size'), site=dsite, detail={'found': dsize})
    ctx.check(esize == want_size, rule, '%s: the encoder writes %d fixed octets (%s)' % (title, want_size, efmt),
              key=(rule, title, 'encode-size'), site=esite, detail={'found': esize})
    ctx.check(len(eargs) == len(el), rule, '%s: encoder supplies one value per field' % title, key=(rule, title, 'encode-arity'), site=esite)
    ap = attr_params(ctx, cls)
    rets = ctor_returns(ctx, cls, dfi)
    ctx.check(bool(rets), rule, '%s: the decoder returns the decoded object' % title, key=(rule, title, 'decode-arity'), site=dsite)
    used = set()
    for t in all_terms(D):
        used |= indices_in(t, U.term)
    dmap = {o: (w, i) for i, (o, w) in enumerate(dl)}
    emap = {o: (w, eargs[i] if i < len(eargs) else None) for i, (o, w) in enumerate(el)}
    named_d, named_e = set(), set()
    for o, w, role in fields:
        if role == RES:
            continue
        dd, ee = dmap.get(o), emap.get(o)
        what = role if isinstance(role, str) else role[1]
        ctx.check(dd is not None and dd[0] == w, rule, '%s: decoder has a %d-octet field at offset %d (%s)' % (title, w, o, what),
                  key=(rule, title, 'decode-field', o), site=dsite, detail={'layout': dl})
        ctx.check(ee is not None and ee[0] == w, rule, '%s: encoder has a %d-octet field at offset %d (%s)' % (title, w, o, what),
                  key=(rule, title, 'encode-field', o), site=esite, detail={'layout': el})
        if ee is not None:
            named_e.add(o)
        if dd is not None:
            named_d.add(o)
        if dd is None or ee is None or dd[0] != w or ee[0] != w:
            continue
        if isinstance(role, str):
            # which attributes receive U[i] ?
            at = set()
            for pc, args in rets:
                for prm, t in args.items():
                    if dd[1] in indices_in(t, U.term):
                        at |= {a for a, p_ in ap.items() if p_ == prm}
            ctx.check(at == {role}, rule, '%s: the value decoded at offset %d becomes attribute `%s`' % (title, o, role),
                      key=(rule, title, 'decode-flow', o), site=dsite, detail={'flows to': sorted(at)})
            es = ee[1]
            me = ('attr', ('param', 'self'), role)
            ctx.check(es in (me, ('attr', me, 'packed')), rule, '%s: the encoder writes attribute `%s` at offset %d' % (title, role, o),
                      key=(rule, title, 'encode-attr', o), site=esite, detail={'found': tq.text(es) if es is not None else None})
        else:
            ctx.check(dd[1] in used, rule, '%s: the decoder keeps the %s field at offset %d' % (title, role[0], o),
                      key=(rule, title, 'decode-size-kept', o), site=dsite)
            es = ee[1]
            ctx.check(es is not None and same(es, E.expr(role[1])), rule, '%s: the encoder writes %s at offset %d' % (title, role[1], o),
                      key=(rule, title, 'encode-size', o), site=esite, detail={'found': tq.text(es) if es is not None else None})
    for o, (w, i) in dmap.items():
        if o not in named_d:
            ctx.check(i not in used, rule, '%s: RESERVED octets at offset %d are ignored by the decoder' % (title, o),
                      key=(rule, title, 'reserved-decoded', o), site=dsite)
    for o, (w, a) in emap.items():
        if o not in named_e:
            ctx.check(a == const(0), rule, '%s: RESERVED octets at offset %d are sent as zero' % (title, o),
                      key=(rule, title, 'reserved-encoded', o), site=esite, detail={'found': tq.text(a) if a is not None else None})


def registry_consistent(ctx, rule):
    """type_2_payload maps each payload type of RFC 7296 3.2 to the class that declares that very type: the parser (and the code that
    inspects parsed messages) tells payloads apart by `payload.type`, so an entry whose class declares another type yields an object
    that is taken for something it is not"""
    reg = common.payload_registry(ctx)
    ctx.check(set(reg) == set(REGISTRY), rule, 'the payload registry covers SA KE IDi IDr AUTH NONCE VENDOR NOTIFY TSi TSr SK DELETE',
              key=(rule, 'registry-keys'), detail={'found': sorted(reg)})
    for k, c in reg.items():
        tv = c.lookup_attr('type')
        ctx.check(c.name == REGISTRY.get(k) and tv is not None and src(tv).endswith('Type.' + k), rule,
                  'type_2_payload[%s] is %s and that class declares type %s' % (k, REGISTRY.get(k), k), key=(rule, 'registry', k),
                  detail={'class': c.name, 'type': src(tv) if tv is not None else None})


def to_bytes_is_fresh(ctx, rule):
    """Message.to_bytes() serialises the message as it is *now*: it keeps no copy of an earlier result on the object and returns
    none.  The callers rely on that - the COOKIE and INVALID_KE retries edit the request in place and serialise it again, the AUTH
    octets are taken from the bytes that were sent."""
    fi = ctx.func(M + 'Message.to_bytes')
    S = ctx.sval(fi)
    me = ('param', 'self')
    kept = [tq.text(t, 80) for t, v, pc, st, _ in S.stores if strip_ids(t)[0] == 'attr' and strip_ids(t)[1] == me]

    def leaves(t):
        if t[0] == 'cond':
            return leaves(t[2]) + leaves(t[3])
        return [t]
    stale = [tq.text(x, 80) for pc, t, _ in S.returns for x in leaves(strip_ids(t))
             if x[0] == 'attr' or (tq.is_call(x) and len(tq.args(x)) == 1 and list(tq.args(x).values())[0][0] == 'attr'
                                   and list(tq.args(x).values())[0][1] == me)]
    ctx.check(not kept and not stale and bool(S.returns), rule, 'Message.to_bytes builds its result from the current fields on every call '
              '(nothing kept on the message, nothing kept returned)', key=(rule, 'to-bytes-fresh'), site=ctx.site(fi, fi.node),
              detail={'stored on self': kept, 'returned from self': stale})


def ctor_keeps_values(ctx, rule, only=None):
    """the constructors of the message classes keep what they are given: every attribute is the like-positioned parameter itself, that
    parameter passed through the enum of its field (a value-preserving wrap), or - for a parameter left at None - a freshly generated
    value (nonce, IV).  Nothing is trimmed, padded, re-encoded or re-ordered on the way in, so what the encoder later writes and what
    the configuration / negotiation handed over are the same octets."""
    prog = ctx.prog
    n = 0
    for q, fi in sorted(prog.functions.items()):
        if not (q.startswith('message.') and q.endswith('.__init__')) or not isinstance(fi.node, ast.FunctionDef):
            continue
        cname = q.split('.')[-2]
        if only is not None and cname not in only:
            continue
        S = ctx.sval(fi)
        params = {('param', a) for a in fi.call_params()}
        for t, v, pc, st, _ in S.stores:
            t, v = strip_ids(t), strip_ids(v)
            if not (t[0] == 'attr' and t[1] == ('param', 'self')):
                continue
            n += 1

            def kept(v):
                if v in params or v[0] == 'const':
                    return True
                if v[0] == 'cond' and v[1][0] == 'cmp' and v[1][1] == 'is' and ('const', 'NoneType', None) in v[1][2:] and any(x in params for x in v[1][2:]):
                    return kept(v[3])       # `if p is None: p = <generated default>` ... `self.a = p`
                if v[0] == 'cond':
                    return kept(v[2]) and kept(v[3])
                if v[0] == 'call' and isinstance(v[1], str) and v[1].startswith('enum ') and len(v[3]) == 1 and v[3][0][1] in params:
                    return True
                if v[0] == 'call' and isinstance(v[1], tuple) and v[1][0] == 'dyn' and len(v[3]) == 1 and v[3][0][1] in params \
                        and tq.contains(v[1][1], ('attr', ('param', 'self'), '_transform_id_enums')):
                    return True         # Transform: the id in the registry of its transform type
                return False
            fresh = any(a[0][0] == 'cmp' and a[0][1] == 'is' and ('const', 'NoneType', None) in a[0][2:] and a[1] and
                        any(x in params for x in a[0][2:]) for a in strip_ids(tuple(pc)))
            ctx.check(kept(v) or fresh, rule, '%s keeps `%s` as it is given (parameter, its enum, or a generated default for None)' % (
                cname, tq.text(t)), key=(rule, 'ctor', cname, t[2]), site=ctx.site(fi, st), detail={'stored': tq.text(v, 200)})
    ctx.floor('%s constructor attributes of the message classes' % rule, n, 2 * len(only) if only else 40, rule=rule)


def nonce_lengths(ctx, rule):
    """RFC 7296 3.9 / 2.10: the nonce data is between 16 and 256 octets, inclusive.  PayloadNONCE accepts exactly that window: the condition
    under which its constructor refuses a nonce it is given, evaluated for the lengths around both bounds (however the window is
    spelt: two comparisons, a chain, `len(nonce) not in range(a, b)`, a table)"""
    fi = ctx.func('message.PayloadNONCE.__init__')
    S = ctx.sval(fi)
    p = fi.call_params()[0]
    ln = strip_ids(S.expr('len(%s)' % p))
    out = {}
    for L in (0, 15, 16, 17, 255, 256, 257, 1000):
        def leaf(t, L=L):
            t = strip_ids(t)
            if t == ln:
                return L
            if t == ('param', p):
                return b'x' * L
            raise tq.NoValue()
        refused = None
        try:
            hits = []
            for pc, rt, _ in S.raises:
                hits.append(all(bool(tq.teval(a[0], leaf)) == a[1] for a in strip_ids(tuple(pc))))
            refused = any(hits)
        except (tq.NoValue, Exception):
            refused = None
        out[L] = refused
    want = {0: True, 15: True, 16: False, 17: False, 255: False, 256: False, 257: True, 1000: True}
    ctx.check(out == want and all(tq.is_call(rt, 'new message.InvalidSyntax') for _, rt, _ in S.raises), rule,
              'a nonce is accepted when it has 16 to 256 octets (both inclusive) and refused as InvalidSyntax otherwise', key=(rule, 'nonce-lengths'),
              site=ctx.site(fi, fi.node), detail={'length -> refused': {str(k): v for k, v in out.items()}})


def run(ctx):
    prog, res = ctx.prog, ctx.res
    esc = ctx.escape('engine', kills=common.engine_kills(ctx))
    mod = prog.module('message')
    nonce_lengths(ctx, 'W1')
    # "unknown non-critical payloads are skipped, unknown critical ones are rejected as such" holds for every position in the chain only
    # if the code treats the type octet as what it is there - a plain integer for every payload but the first (shared with C06 T2)
    common.identity_with_raw_int(ctx, 'W4', [q for q, f in prog.functions.items() if f.module.name == 'message'])

    # ---------------------------------------------------------------- W1 fixed parts
    for title, cname, dfn, di, efn, ei, fields in STRUCTS:
        check_fixed(ctx, title, prog.cls(M + cname), dfn, di, efn, ei, fields)
    # bodies that follow the fixed part
    tails = [('PayloadKE', 'ke_data'), ('PayloadID', 'id_data'), ('PayloadAUTH', 'auth_data')]
    for cname, attr in tails:
        c = prog.cls(M + cname)
        pf, tb = c.lookup('parse'), c.lookup('to_bytes')
        D, E = ctx.sval(pf), ctx.sval(tb)
        ap = attr_params(ctx, c)
        dparam = ('param', pf.call_params()[0])
        ok = False
        for pc, args in ctor_returns(ctx, c, pf):
            t = args.get(ap.get(attr))
            ok = t == ('slice', dparam, const(4), NONE, NONE)
        ctx.check(ok, 'W1', '%s: `%s` is everything after the 4 fixed octets' % (cname, attr), key=('W1', cname, 'tail-decode'),
                  site=ctx.site(pf, pf.node))
        pk, rest = first_pack(E.ret())
        ctx.check(pk is not None and rest == [('attr', ('param', 'self'), attr)], 'W1', '%s: the encoder appends `%s` after the fixed octets'
                  % (cname, attr), key=('W1', cname, 'tail-encode'), site=ctx.site(tb, tb.node), detail={'returned': tq.text(E.ret())})
    # raw-body payloads
    for cname, attr in (('PayloadNONCE', 'nonce'), ('PayloadVENDOR', 'vendor_id'), ('PayloadSK', 'ciphertext')):
        c = prog.cls(M + cname)
        pf, tb = c.lookup('parse'), c.lookup('to_bytes')
        ap = attr_params(ctx, c)
        rets = ctor_returns(ctx, c, pf)
        ok = len(rets) == 1 and rets[0][1].get(ap.get(attr)) == ('param', pf.call_params()[0]) and \
            ctx.sval(tb).ret() == ('attr', ('param', 'self'), attr)
        ctx.check(ok, 'W1', '%s: the body is the raw `%s` in both directions' % (cname, attr), key=('W1', cname, 'raw'),
                  site=ctx.site(pf, pf.node))
    check_notify_proposal_delete(ctx)
    check_ts(ctx)
    check_transform_attr(ctx)
    ah_esp_spi_width(ctx, 'W2')
    check_substructures(ctx)
    check_header(ctx, esc)
    parse_refusals(ctx, 'W5')
    check_generic_header(ctx, esc)

    # Encrypted payload (3.14): the Integrity Checksum Data field has the length of the negotiated transform's ICV
    from .c07 import icv_table
    icv_table(ctx, 'W2')

    to_bytes_is_fresh(ctx, 'W4')
    ctor_keeps_values(ctx, 'W1')
    # the critical-bit rule (3.2) holds for payloads inside the Encrypted payload as well: what the chain parser raises for them
    # leaves Message.parse as it is, not re-labelled by a handler around the decryption
    common.exception_passes(ctx, 'W4', M + 'Message.parse', M + 'Message._parse_payloads', 'UnsupportedCriticalPayload',
                            'UnsupportedCriticalPayload raised for a payload of the chain (clear or encrypted) leaves Message.parse unchanged',
                            'critical-relabelled')

    # ---------------------------------------------------------------- W3
    registry_consistent(ctx, 'W3')
    nconst = 0
    for q, want in IANA.items():
        have = prog.enum_members(M + q)
        for name, v in want.items():
            nconst += 1
            ctx.check(have.get(name) == v, 'W3', '%s.%s = %d' % (q, name, v), key=('W3', 'iana', q, name), detail={'found': have.get(name)})
        extra = set(have) - set(want)
        for name in sorted(extra):
            ctx.note('enum member %s.%s = %s is not in the checker\'s IANA table (not checked)' % (q, name, have[name]))
    ctx.floor('W3 constants compared with the IANA registry', nconst, 110)
    tid = prog.cls(M + 'Transform').lookup_attr('_transform_id_enums')
    ok = isinstance(tid, ast.Dict) and {src(k).split('.')[-1]: src(v) for k, v in zip(tid.keys, tid.values)} == {
        'ENCR': 'EncrId', 'PRF': 'PrfId', 'INTEG': 'IntegId', 'DH': 'DhId', 'ESN': 'EsnId'}
    ctx.check(ok, 'W3', 'transform identifiers are interpreted in the registry of their transform type', key=('W3', 'transform-id-enums'))

    # ---------------------------------------------------------------- W4
    check_chain(ctx, esc)

    # ---------------------------------------------------------------- W5
    check_dump(ctx)


def LEN(t):
    return ('call', 'builtins.len', NONE, (('#0', t),))


def fixed_unpack(ctx, fi):
    """(sval, data parameter term, the unpack CallRec that reads the fixed part at the start of the data)"""
    D = ctx.sval(fi)
    dparam = ('param', fi.call_params()[0])
    ups = [c for c in unpack_calls(D) if upos(c)[1] == dparam and upos(c)[2] in (None, const(0))]
    ctx.require(len(ups) >= 1, 'anchor vanished: fixed-part unpack of %s' % fi.qual)
    return D, dparam, ups[0]


def ah_esp_spi_width(ctx, rule):
    """RFC 7296 3.3.1: the SPI of an AH / ESP proposal is 4 octets long.  The decoder hands out no such proposal with another SPI
    size: every return of Proposal.parse is excluded, by the conditions on its path that speak about the protocol and SPI size
    octets, for (AH or ESP, size != 4).  The SPI goes into the 4-octet `spi` field of the kernel's SA identifier; with another
    length building that structure raises a TypeError that none of the NetlinkError handlers sees (installation *and* removal)."""
    c = ctx.prog.cls(M + 'Proposal')
    pf = c.lookup('parse')
    D, d, U = fixed_unpack(ctx, pf)
    rets = ctor_returns(ctx, c, pf)
    ctx.floor('%s returns of Proposal.parse' % rule, len(rets), 1, rule=rule)
    proto_t, size_t = ('index', strip_ids(U.term), const(1)), ('index', strip_ids(U.term), const(2))
    ok = bool(rets)
    witness = None
    for pc, _ in rets:
        for proto in (0, 1, 2, 3, 4):
            for size in (0, 3, 4, 5, 8, 16, 255):
                def leaf(t, proto=proto, size=size):
                    t = strip_ids(t)
                    if t == proto_t:
                        return proto
                    if t == size_t:
                        return size
                    if t[0] == 'global' and '.Protocol.' in t[1] and t[1].rsplit('.', 1)[1] in IANA['Proposal.Protocol']:
                        return IANA['Proposal.Protocol'][t[1].rsplit('.', 1)[1]]
                    raise tq.NoValue()
                reachable = True
                for a in strip_ids(pc):
                    if not (tq.contains(a[0], proto_t) or tq.contains(a[0], size_t)):
                        continue
                    try:
                        if bool(tq.teval(a[0], leaf)) != a[1]:
                            reachable = False
                            break
                    except (tq.NoValue, Exception):
                        continue
                if reachable and proto in (2, 3) and size != 4:
                    ok = False
                    witness = witness or {'protocol': proto, 'spi size': size}
    ctx.check(ok, rule, 'the decoder hands out an AH / ESP proposal only with a 4-octet SPI (what the kernel\'s SA identifier holds)',
              key=(rule, 'ah-esp-spi-width'), site=ctx.site(pf, pf.node), detail={'accepted': witness})


def cursor_loops(sv):
    """[(loop id, cursor name, initial term, advance term)] for loops that carry a cursor updated as cursor + <advance>"""
    out = []
    for lid, ups in sv.loop_updates.items():
        for k, v in ups.items():
            sv_ = strip_ids(v)
            if sv_[0] == 'add' and sv_[1][0] == ('acc', k, 0):
                rest = sv_[1][1:]
                out.append((lid, k, sv.loop_inits.get(lid, {}).get(k), rest[0] if len(rest) == 1 else ('add', rest)))
    return out


def check_notify_proposal_delete(ctx):
    prog = ctx.prog
    # NOTIFY: spi = data[4:4+spi_size], data = data[4+spi_size:]
    c = prog.cls(M + 'PayloadNOTIFY')
    pf, tb = c.lookup('parse'), c.lookup('to_bytes')
    D, d, U = fixed_unpack(ctx, pf)
    ap = attr_params(ctx, c)
    size = ('index', strip_ids(U.term), const(1))
    end = ('add', (size, const(4)))
    rets = ctor_returns(ctx, c, pf)
    ok = len(rets) >= 1
    for pc, args in rets:
        spi = strip_ids(args.get(ap.get('spi'), NONE))
        nd = strip_ids(args.get(ap.get('notification_data'), NONE))
        want_spi = ('slice', d, const(4), end, NONE)
        spi_ok = spi == want_spi or (spi[0] == 'cond' and want_spi in spi[2:] and const(b'') in spi[2:] and
                                     common.term_table(ctx, spi, [{tq.text(size): 0}], None) in ([b''],) )
        if spi[0] == 'cond':
            # empty exactly when the size is 0
            def leaf0(t):
                if t == size:
                    return 0
                raise tq.NoValue()

            def leaf8(t):
                if t == size:
                    return 8
                if t == want_spi:
                    return 'SPI'
                raise tq.NoValue()
            try:
                spi_ok = tq.teval(spi, leaf0) == b'' and tq.teval(spi, leaf8) == 'SPI'
            except (tq.NoValue, Exception):
                spi_ok = False
        ok = ok and spi_ok and nd == ('slice', d, end, NONE, NONE)
    ctx.check(ok, 'W2', 'Notify: SPI = the spi_size octets after the fixed part, notification data = the rest', key=('W2', 'notify-slices'),
              site=ctx.site(pf, pf.node), detail={'returns': [{k: tq.text(v, 200) for k, v in a.items()} for _, a in rets]})
    pk, rest = first_pack(ctx.sval(tb).ret())
    me = ('param', 'self')
    rest_s = [strip_ids(x) for x in rest]
    ok = len(rest_s) == 2 and rest_s[1] == ('attr', me, 'notification_data') and (
        rest_s[0] == ('attr', me, 'spi') or (rest_s[0][0] == 'when' and rest_s[0][2] == ('attr', me, 'spi')))
    ctx.check(ok, 'W2', 'Notify: the encoder appends SPI then notification data', key=('W2', 'notify-encode'), site=ctx.site(tb, tb.node),
              detail={'after the fixed part': [tq.text(x) for x in rest]})
    # Proposal spi
    c = prog.cls(M + 'Proposal')
    pf, tb = c.lookup('parse'), c.lookup('to_bytes')
    D, d, U = fixed_unpack(ctx, pf)
    ap = attr_params(ctx, c)
    size = ('index', strip_ids(U.term), const(2))
    end = ('add', (size, const(4)))
    rets = ctor_returns(ctx, c, pf)
    ok = len(rets) >= 1
    for pc, args in rets:
        spi = strip_ids(args.get(ap.get('spi'), NONE))
        want_spi = ('slice', d, const(4), end, NONE)
        spi_ok = spi == want_spi
        if spi[0] == 'cond':
            def leaf0(t):
                if t == size:
                    return 0
                raise tq.NoValue()

            def leaf8(t):
                if t == size:
                    return 8
                if t == want_spi:
                    return 'SPI'
                raise tq.NoValue()
            try:
                spi_ok = tq.teval(spi, leaf0) == b'' and tq.teval(spi, leaf8) == 'SPI'
            except (tq.NoValue, Exception):
                spi_ok = False
        ok = ok and spi_ok
    cur = [x for x in cursor_loops(D)]
    ok = ok and len(cur) == 1 and cur[0][2] is not None and strip_ids(cur[0][2]) == end
    ctx.check(ok, 'W2', 'Proposal: SPI = the spi_size octets after the fixed part; transforms start right after it', key=('W2', 'proposal-slices'),
              site=ctx.site(pf, pf.node))
    count_check(ctx, c, pf, D, U, 3, 'transforms', 'W2', 'Proposal: the announced number of transforms must equal the number parsed',
                ('W2', 'proposal-count'))
    # DELETE
    c = prog.cls(M + 'PayloadDELETE')
    pf, tb = c.lookup('parse'), c.lookup('to_bytes')
    D, d, U = fixed_unpack(ctx, pf)
    ap = attr_params(ctx, c)
    ssz, num = ('index', strip_ids(U.term), const(1)), ('index', strip_ids(U.term), const(2))
    rets = ctor_returns(ctx, c, pf)
    ok = len(rets) == 1
    if ok:
        spis = strip_ids(rets[0][1].get(ap.get('spis'), NONE))
        ok = spis[0] == 'list' and len(spis[1]) == 1 and spis[1][0][0] == 'each' and not spis[1][0][3]
        if ok:
            # the k-th SPI is data[4 + k * spi_size : 4 + (k + 1) * spi_size] for k = 0 .. num_spis - 1, whether the code walks a cursor
            # or computes the window from the index
            from ..bounds import poly
            each = spis[1][0]
            dom, item = each[2], each[4]
            ok = tq.is_call(dom, 'builtins.range') and list(tq.args(dom).values())[-1] == num and (
                len(tq.args(dom)) == 1 or list(tq.args(dom).values())[0] == const(0))
            K = ('k',)
            subst = {('elem', dom, 0): {(K,): 1}}
            for lid, name, init, step in cursor_loops(D):
                if init is not None and not tq.contains(step, ('acc', name, 0)):
                    closed = dict(poly(init))
                    for m, cf in poly(step).items():
                        mm = tuple(sorted(m + (K,), key=repr))
                        closed[mm] = closed.get(mm, 0) + cf
                    subst[('acc', name, 0)] = closed
            ok = ok and item[0] == 'slice' and item[1] == d and item[4] == NONE
            if ok:
                start, end = poly(item[2], subst), poly(item[3], subst)
                width = dict(end)
                for m, cf in start.items():
                    width[m] = width.get(m, 0) - cf
                width = {m: cf for m, cf in width.items() if cf}
                ok = start == {(): 4, tuple(sorted((K, ssz), key=repr)): 1} and width == {(ssz,): 1}
    ctx.check(ok, 'W2', 'Delete: num_spis SPIs of spi_size octets each follow the fixed part', key=('W2', 'delete-slices'),
              site=ctx.site(pf, pf.node))
    pk, rest = first_pack(ctx.sval(tb).ret())
    rs = [strip_ids(x) for x in rest]
    spl = ('attr', ('param', 'self'), 'spis')
    ctx.check(len(rs) == 1 and rs[0] == ('sum', 0, spl, ('elem', spl, 0)), 'W2', 'Delete: the encoder appends every SPI', key=('W2', 'delete-encode'),
              site=ctx.site(tb, tb.node), detail={'after the fixed part': [tq.text(x) for x in rest]})
    # TS payload count check
    c = prog.cls(M + 'PayloadTS')
    pf = c.lookup('parse')
    D, d, U = fixed_unpack(ctx, pf)
    count_check(ctx, c, pf, D, U, 0, 'traffic_selectors', 'W2', 'TS payload: the announced number of selectors must equal the number parsed',
                ('W2', 'ts-count'))


def count_check(ctx, c, pf, D, U, idx, attr, rule, what, key):
    """every return of the decoder is conditioned on  U[idx] == len(<the list that becomes attr>)  and the failing side raises"""
    ap = attr_params(ctx, c)
    rets = ctor_returns(ctx, c, pf)
    ok = bool(rets)
    for pc, args in rets:
        lst = args.get(ap.get(attr))
        goal = D.mk_cmp('==', ('index', U.term, const(idx)), LEN(lst)) if lst is not None else None
        ok = ok and goal is not None and tq.entails(pc, goal) is True
        if ok:
            bad = [(rpc, rt) for rpc, rt, _ in D.raises if tq.entails(rpc, ('not', goal)) is True]
            ok = bool(bad) and all(tq.is_call(rt, 'new message.InvalidSyntax') for _, rt in bad)
    ctx.check(ok, rule, what, key=key, site=ctx.site(pf, pf.node))


def addr_len_ok(ctx, t, type_term):
    vals = []
    for v in (7, 8):
        def leaf(x, v=v):
            if strip_ids(x) == strip_ids(type_term):
                return v
            if x[0] == 'global' and x[1].endswith('TS_IPV4_ADDR_RANGE'):
                return 7
            if x[0] == 'global' and x[1].endswith('TS_IPV6_ADDR_RANGE'):
                return 8
            raise tq.NoValue()
        try:
            vals.append(tq.teval(t, leaf))
        except (tq.NoValue, Exception):
            vals.append(None)
    return vals == [4, 16]


def eval_fmt(t, leaf):
    """the text of a struct format term for given values of the leaves: a constant, 'x{0}'.format(args), an entry of a literal
    table of formats selected by a key, or a conditional between such"""
    t = strip_ids(t)
    if t[0] == 'const' and isinstance(t[2], str):
        return t[2]
    if tq.is_call(t, 'method.format') and t[2][0] == 'const' and isinstance(t[2][2], str):
        return t[2][2].format(*[tq.teval(a, leaf) for _, a in t[3]])
    if t[0] == 'index' and t[1][0] == 'dict':
        key = tq.teval(t[2], leaf)
        for e in t[1][1]:
            if len(e) == 2 and tq.teval(e[0], leaf) == key:
                return eval_fmt(e[1], leaf)
        raise tq.NoValue()
    if t[0] == 'cond':
        return eval_fmt(t[2] if tq.teval(t[1], leaf) else t[3], leaf)
    raise tq.NoValue()


def check_ts(ctx, r1='W1', r2='W2'):
    prog = ctx.prog
    c = prog.cls(M + 'TrafficSelector')
    pf, tb = c.lookup('parse'), c.lookup('to_bytes')
    D, E = ctx.sval(pf), ctx.sval(tb)
    d = ('param', pf.call_params()[0])
    ups = [u for u in unpack_calls(D) if upos(u)[1] == d]
    pk, rest = first_pack(E.ret())
    ctx.require(len(ups) == 2 and pk is not None and not rest, 'anchor vanished: TrafficSelector codec')
    f0, _, b0 = upos(ups[0])
    _, _, b1 = upos(ups[1])
    f1_t = list(ups[1].args.values())[0]
    fe_t = list(tq.args(pk).values())[0]
    me = ('param', 'self')
    b0 = b0 if b0 is not None else const(0)
    rel = b1 is not None and strip_ids(b1) == strip_ids(D.mk_cmp('==', NONE, NONE) and ('add', (b0, const(8))) if b0 != const(0) else const(8))
    if b0 != const(0) and b1 is not None:
        from ..sval import mk_bin
        rel = strip_ids(b1) == strip_ids(mk_bin('+', b0, const(8)))

    def formats(ts):
        """(address pair format of the decoder, selector format of the encoder) for a selector of type ts"""
        def leaf(x):
            x = strip_ids(x)
            if x in (('index', strip_ids(ups[0].term), const(0)), ('attr', me, 'ts_type')):
                return ts
            if x[0] == 'global' and x[1].endswith('TS_IPV4_ADDR_RANGE'):
                return 7
            if x[0] == 'global' and x[1].endswith('TS_IPV6_ADDR_RANGE'):
                return 8
            raise tq.NoValue()
        out = []
        for t in (f1_t, fe_t):
            try:
                out.append(eval_fmt(t, leaf))
            except (tq.NoValue, Exception):
                out.append(None)
        return out
    per_type = {}
    for ts, A in ((7, 4), (8, 16)):
        f1, fe = formats(ts)
        per_type[ts] = (f1, fe)
        ok = f0 is not None and f1 is not None and fe is not None
        if ok:
            l1, s1 = layout(f0)
            l2, s2 = layout(f1)
            le, se = layout(fe)
            ok = l1 == [(0, 1), (1, 1), (2, 2), (4, 2), (6, 2)] and l2 == [(0, A), (A, A)] and rel \
                and le == [(0, 1), (1, 1), (2, 2), (4, 2), (6, 2), (8, A), (8 + A, A)]
        ctx.check(ok, r1, 'Traffic Selector (3.13.1) with %d-octet addresses: type, protocol, length, start port, end port, '
                  'start address, end address at offsets 0,1,2,4,6,8,%d in both directions' % (A, 8 + A), key=(r1, 'ts-layout', A),
                  site=ctx.site(pf, pf.node), detail={'decoder address format': f1, 'encoder format': fe})
    ap = attr_params(ctx, c)
    rets = ctor_returns(ctx, c, pf)
    used = set()
    for t in all_terms(D):
        used |= indices_in(t, ups[0].term)
    ctx.check(2 not in used, r1, 'Traffic Selector: the selector length field is not trusted for slicing inside parse',
              key=(r1, 'ts', 'length-ignored'), site=ctx.site(pf, pf.node))
    for i, at in ((0, 'ts_type'), (1, 'ip_proto'), (3, 'start_port'), (4, 'end_port')):
        got = {a for pc, args in rets for a, p_ in ap.items() if i in indices_in(args.get(p_, NONE), ups[0].term)
               and not (a in ('start_addr', 'end_addr'))}
        ctx.check(got == {at}, r1, 'Traffic Selector: the value decoded at position %d becomes attribute %s' % (i, at),
                  key=(r1, 'ts', 'flow', at), site=ctx.site(pf, pf.node), detail={'flows to': sorted(got)})
    for i, at in ((0, 'start_addr'), (1, 'end_addr')):
        got = {a for pc, args in rets for a, p_ in ap.items() if i in indices_in(args.get(p_, NONE), ups[1].term)}
        ctx.check(got == {at}, r1, 'Traffic Selector: the %s address decoded becomes attribute %s' % ('first' if i == 0 else 'second', at),
                  key=(r1, 'ts', 'flow', at), site=ctx.site(pf, pf.node), detail={'flows to': sorted(got)})
    ea = list(tq.args(pk).values())[1:]
    me = ('param', 'self')
    want = [('attr', me, 'ts_type'), ('attr', me, 'ip_proto'), None, ('attr', me, 'start_port'), ('attr', me, 'end_port'),
            ('attr', ('attr', me, 'start_addr'), 'packed'), ('attr', ('attr', me, 'end_addr'), 'packed')]
    ok = len(ea) == 7 and all(w is None or strip_ids(a) == w for a, w in zip(ea, want))
    if ok:
        # length = 8 + 2 * address width
        vals = []
        for v, w in ((7, 4), (8, 16)):
            def leaf(x, v=v):
                if strip_ids(x) == ('attr', me, 'ts_type'):
                    return v
                if x[0] == 'global' and x[1].endswith('TS_IPV4_ADDR_RANGE'):
                    return 7
                if x[0] == 'global' and x[1].endswith('TS_IPV6_ADDR_RANGE'):
                    return 8
                raise tq.NoValue()
            try:
                vals.append(tq.teval(ea[2], leaf))
            except (tq.NoValue, Exception):
                vals.append(None)
        ok = vals == [16, 40]
    ctx.check(ok, r1, 'Traffic Selector: the encoder writes the same attributes at those positions and length = 8 + 2 * address width',
              key=(r1, 'ts', 'encode-args'), site=ctx.site(tb, tb.node), detail={'found': [tq.text(a) for a in ea]})
    def widths(i):
        out = []
        for ts in (7, 8):
            f = per_type[ts][i]
            try:
                out.append([w for _, w in layout(f)[0]][-2:] if f is not None else None)
            except AnalysisError:
                out.append(None)
        return out
    ctx.check(widths(0) == [[4, 4], [16, 16]], r2,
              'Traffic Selector: address width is 4 for TS_IPV4_ADDR_RANGE (7) and 16 for TS_IPV6_ADDR_RANGE (8) in parse',
              key=(r2, 'ts-addr-len', 'parse'), site=ctx.site(pf, pf.node))
    ctx.check(widths(1) == [[4, 4], [16, 16]], r2,
              'Traffic Selector: address width is 4 for TS_IPV4_ADDR_RANGE (7) and 16 for TS_IPV6_ADDR_RANGE (8) in to_bytes',
              key=(r2, 'ts-addr-len', 'to_bytes'), site=ctx.site(tb, tb.node))
    # TS payload loop: selectors are cut by their own length field
    c2 = prog.cls(M + 'PayloadTS')
    pf2, tb2 = c2.lookup('parse'), c2.lookup('to_bytes')
    D2 = ctx.sval(pf2)
    d2 = ('param', pf2.call_params()[0])
    cur = cursor_loops(D2)
    ok = len(cur) == 1 and cur[0][2] == const(4)
    lens = [u for u in unpack_calls(D2) if upos(u)[2] is not None and strip_ids(upos(u)[2])[0] == 'acc']
    ok = ok and len(lens) == 1 and layout(upos(lens[0])[0])[0] == [(0, 2), (2, 2)]
    ctx.check(ok, r2, 'TS payload: each selector\'s length is read from octets 2-3 of the selector', key=(r2, 'ts-selector-length'),
              site=ctx.site(pf2, pf2.node))
    if ok:
        ln = ('index', strip_ids(lens[0].term), const(1))
        acc = ('acc', cur[0][1], 0)
        calls = D2.calls_to(qual='message.TrafficSelector.parse')
        a = [strip_ids(x) for x in calls[0].args.values()] if len(calls) == 1 else []
        ok = len(calls) == 1 and (a == [('slice', d2, acc, ('add', (acc, ln)), NONE)] or a == [d2, acc]) and cur[0][3] == ln
        used = set()
        for t in all_terms(D2):
            used |= indices_in(t, lens[0].term)
        ok = ok and 0 not in used
    ctx.check(ok, r2, 'TS payload: selectors start after the 4 fixed octets, each parsed at the cursor, which advances by the announced length',
              key=(r2, 'ts-loop'), site=ctx.site(pf2, pf2.node))
    pk2, rest2 = first_pack(ctx.sval(tb2).ret())
    tsl = ('attr', me, 'traffic_selectors')
    rs = [strip_ids(x) for x in rest2]
    ctx.check(len(rs) == 1 and rs[0][0] == 'sum' and rs[0][2] == tsl and tq.is_call(rs[0][3], 'message.TrafficSelector.to_bytes')
              and rs[0][3][2] == ('elem', tsl, 0), r2, 'TS payload: the encoder appends every selector in order',
              key=(r2, 'ts-encode-loop'), site=ctx.site(tb2, tb2.node))


def check_transform_attr(ctx, rule='W2'):
    prog = ctx.prog
    c = prog.cls(M + 'Transform')
    pf, tb = c.lookup('parse'), c.lookup('to_bytes')
    D, d, U = fixed_unpack(ctx, pf)
    ap = attr_params(ctx, c)
    cur = cursor_loops(D)
    def walks(t):
        t = strip_ids(t)
        return t[0] == 'acc' or (t[0] == 'elem' and tq.is_call(t[1], 'builtins.range'))
    attrs = [u for u in unpack_calls(D) if upos(u)[2] is not None and walks(upos(u)[2])]
    ok = len(attrs) == 1 and layout(upos(attrs[0])[0])[0] == [(0, 2), (2, 2)]
    if ok:
        A = strip_ids(attrs[0].term)
        at, av = ('index', A, const(0)), ('index', A, const(1))
        rets = ctor_returns(ctx, c, pf)
        with_len = [(pc, a) for pc, a in rets if strip_ids(a.get(ap.get('keylen'), NONE)) == av]
        without = [(pc, a) for pc, a in rets if a.get(ap.get('keylen'), NONE) == NONE]
        ok = len(with_len) == 1 and len(without) >= 1 and len(with_len) + len(without) == len(rets)
        if ok:
            conds = [a_ for a_ in strip_ids(with_len[0][0]) if tq.contains(a_[0], at)]
            ok = len(conds) == 1
            if ok:
                vals = {}
                for x in (0x800E, 14, 0x800F, 0x000D, 0x8000 | 15):
                    def leaf(t, x=x):
                        if t == at:
                            return x
                        raise tq.NoValue()
                    try:
                        vals[x] = bool(tq.teval(conds[0][0], leaf, D)) == conds[0][1]
                    except (tq.NoValue, Exception):
                        vals[x] = None
                ok = vals == {0x800E: True, 14: True, 0x800F: False, 0x000D: False, 0x8000 | 15: False}
    ctx.check(ok, rule, 'Transform attribute: type 14 (KEYLEN, with or without the AF bit) carries the key length in its value field',
              key=(rule, 'keylen-decode'), site=ctx.site(pf, pf.node))
    step_ok = len(cur) == 1 and cur[0][2] == const(4) and cur[0][3] == const(4)
    if not step_ok and len(attrs) == 1:
        pos = strip_ids(upos(attrs[0])[2])
        if pos[0] == 'elem':        # the same walk as a counting loop: positions 4, 8, ... below len(data)
            ra = [strip_ids(x) for x in tq.args(pos[1]).values()]
            step_ok = len(ra) == 3 and ra[0] == const(4) and ra[2] == const(4) and ra[1] == strip_ids(D.expr('len(%s)' % d[1]))
    ctx.check(step_ok, rule,
              'Transform attributes are 4-octet TV attributes following the 4 fixed octets', key=(rule, 'attr-step'), site=ctx.site(pf, pf.node))
    pk, rest = first_pack(ctx.sval(tb).ret())
    me = ('param', 'self')
    ok = len(rest) == 1 and rest[0][0] == 'when' and tq.is_call(rest[0][2], 'struct.pack')
    if ok:
        a = list(tq.args(rest[0][2]).values())
        cond = strip_ids(rest[0][1])
        try:
            code = tq.teval(a[1], None, ctx.sval(tb))
        except (tq.NoValue, Exception):
            code = None
        ok = fmt_of(a[0]) is not None and layout(fmt_of(a[0]))[0] == [(0, 2), (2, 2)] and code == 0x800E \
            and a[2] == ('attr', me, 'keylen') and cond in (((('attr', me, 'keylen'), True),),
                                                           ((strip_ids(ctx.sval(tb).mk_cmp('is', ('attr', me, 'keylen'), NONE)), False),))
    ctx.check(ok, rule, 'Transform: a key length is sent as attribute 0x800E (AF bit | 14) with the length as value', key=(rule, 'keylen-encode'),
              site=ctx.site(tb, tb.node))


def marker_ok(term, seq, more):
    """`0 if index == len(seq) - 1 else <more>` evaluated for list lengths 1..3"""
    seq = strip_ids(seq)
    for n in (1, 2, 3):
        for i in range(n):
            def leaf(t, i=i, n=n):
                t = strip_ids(t)
                if t == ('idx', seq, 0):
                    return i
                if t == seq:
                    return (0,) * n
                raise tq.NoValue()
            try:
                if tq.teval(term, leaf) != (0 if i == n - 1 else more):
                    return False
            except (tq.NoValue, Exception):
                return False
    return True


def check_substructures(ctx):
    prog = ctx.prog
    me = ('param', 'self')
    for cname, inner, lst, more, title in (('Proposal', 'Transform', 'transforms', 3, 'Transform substructure header (3.3.2)'),
                                           ('PayloadSA', 'Proposal', 'proposals', 2, 'Proposal substructure header (3.3.1)')):
        c = prog.cls(M + cname)
        pf, tb = c.lookup('parse'), c.lookup('to_bytes')
        D = ctx.sval(pf)
        d = ('param', pf.call_params()[0])
        cur = cursor_loops(D)
        u = [x for x in unpack_calls(D) if upos(x)[2] is not None and strip_ids(upos(x)[2])[0] == 'acc']
        ctx.check(len(u) == 1 and len(cur) == 1 and layout(upos(u[0])[0])[0] == [(0, 1), (1, 1), (2, 2)], 'W1',
                  '%s: last/more (1), RESERVED (1), length (2) read at each element' % title, key=('W1', title, 'decode'),
                  site=ctx.site(pf, pf.node))
        if len(u) != 1 or len(cur) != 1:
            continue
        H = strip_ids(u[0].term)
        used = set()
        for t in all_terms(D):
            used |= indices_in(t, H)
        ctx.check(1 not in used, 'W1', '%s: RESERVED ignored' % title, key=('W1', title, 'reserved'), site=ctx.site(pf, pf.node))
        ln = ('index', H, const(2))
        acc = ('acc', cur[0][1], 0)
        calls = D.calls_to(qual='message.%s.parse' % inner)
        ok = len(calls) == 1 and [strip_ids(x) for x in calls[0].args.values()] == [
            ('slice', d, ('add', (acc, const(4))), ('add', (acc, ln)), NONE)] and cur[0][3] == ln
        ctx.check(ok, 'W2', '%s: the element body is the announced length minus the 4 header octets; the cursor advances by the '
                  'announced length' % title, key=('W2', title, 'slices'), site=ctx.site(pf, pf.node))
        r = strip_ids(ctx.sval(tb).ret())
        seq = ('attr', me, lst)
        sums = [x for x in (r[1] if r[0] == 'add' else [r]) if x[0] == 'sum']
        ok = len(sums) == 1 and sums[0][2] == seq and sums[0][3][0] == 'add' and len(sums[0][3][1]) == 2 and \
            tq.is_call(sums[0][3][1][0], 'struct.pack')
        ctx.check(ok, 'W1', '%s: written before each element, for every element in order' % title, key=('W1', title, 'encode'),
                  site=ctx.site(tb, tb.node), detail={'returned': tq.text(r, 500)})
        if ok:
            p, body = sums[0][3][1]
            a = list(tq.args(p).values())
            ctx.check(fmt_of(a[0]) is not None and layout(fmt_of(a[0]))[0] == [(0, 1), (1, 1), (2, 2)] and len(a) == 4, 'W1',
                      '%s: header layout on encode' % title, key=('W1', title, 'encode-layout'), site=ctx.site(tb, tb.node))
            ctx.check(len(a) == 4 and marker_ok(a[1], seq, more), 'W2', '%s: marker is 0 for the last element and %d otherwise' % (title, more),
                      key=('W2', title, 'marker'), site=ctx.site(tb, tb.node), detail={'found': tq.text(a[1]) if len(a) > 1 else None})
            ctx.check(len(a) == 4 and a[2] == const(0), 'W1', '%s: RESERVED sent as zero' % title,
                      key=('W1', title, 'reserved-encode'), site=ctx.site(tb, tb.node))
            ok2 = len(a) == 4 and a[3] == ('add', (LEN(body), const(4))) and tq.is_call(body, 'message.%s.to_bytes' % inner) and \
                body[2] == ('elem', seq, 0)
            ctx.check(ok2, 'W2', '%s: length = element body + 4, and the body follows the header' % title, key=('W2', title, 'length'),
                      site=ctx.site(tb, tb.node), detail={'found': tq.text(a[3]) if len(a) == 4 else None})


def header_length_form(S, buf):
    """how Message.to_bytes gets the total length into octets 24..27 of the buffer it returns: ('patched', <pack_into call>) when the
    finished buffer is patched with pack_into('>L', buf, 24, len(buf)); ('direct', None) when the header is packed with a length
    that equals the length of what is returned (28 + the length of everything appended to it, by linear arithmetic); else None"""
    from .. import bounds
    pi = [x for x in S.calls_to(callee='struct.pack_into') if list(x.args.values())[:1] == [const('>L')]]
    for x in pi:
        a = list(x.args.values())
        if len(a) == 4 and a[1] == buf and a[2] == const(24) and same(a[3], LEN(buf)) and not x.pc:
            return 'patched', x
    hp = [t for t in tq.find(strip_ids(buf), lambda y: tq.is_call(y, 'struct.pack') and list(tq.args(y).values())[:1] == [const('>8s8s4B2L')])]
    if len(hp) == 1:
        a = list(tq.args(hp[0]).values())
        if len(a) == 9:
            try:
                if bounds.linear(a[8]) == bounds.linear(LEN(strip_ids(buf))):
                    return 'direct', None
            except Exception:
                pass
    return None


def parse_refusals(ctx, rule):
    """Message.parse itself refuses a datagram for exactly two reasons: the fixed header does not unpack, and the checksum does not
    match (everything else is refused by the payload parsers it calls).  Any further `raise` in it is a new class of datagrams that no
    longer decode - among them, unless the condition is unsatisfiable, messages this very implementation (or a conformant peer)
    produces: a length test that assumes the ICV is a whole number of cipher blocks refuses every message protected with HMAC-SHA1-96"""
    from .. import bounds
    pf = ctx.func('message.Message.parse')
    P = ctx.sval(pf)
    n = 0
    for pc, t, node in P.raises:
        pc = strip_ids(tuple(pc))
        if not pc:
            ctx.bad(rule, (rule, 'parse-refusal', 'unconditional'), 'Message.parse raises unconditionally', ctx.site(pf, node), {})
            continue
        last, pol = pc[-1]
        if last[0] == 'caught':
            n += 1
            continue            # a failed unpack of the fixed header, turned into a protocol error
        if tq.find(last, lambda y: tq.is_call(y) and isinstance(y[1], str) and y[1].endswith('Integrity.compute')):
            n += 1
            continue            # the checksum comparison
        goal = last if not pol else ('not', last)
        try:
            impossible = bounds.proves(goal, pc[:-1])
        except Exception:
            impossible = False
        ctx.check(impossible, rule, 'Message.parse refuses a datagram only for a header that does not unpack or a checksum that does not '
                  'match (a further refusal must be unsatisfiable): `%s`' % tq.text(last, 120), key=(rule, 'parse-refusal', tq.text(last, 80)),
                  site=ctx.site(pf, node), detail={'raised when': ('' if pol else 'not ') + tq.text(last, 200)})
    ctx.floor('%s refusals of Message.parse (header, checksum)' % rule, n, 2, rule=rule)


def check_header(ctx, esc, rule='W2'):
    prog = ctx.prog
    c = prog.cls(M + 'Message')
    pf, tb = c.lookup('parse'), c.lookup('to_bytes')
    D, d, U = fixed_unpack(ctx, pf)
    E = ctx.sval(tb)
    fmt = upos(U)[0]
    H = strip_ids(U.term)
    want = [(0, 8), (8, 8), (16, 1), (17, 1), (18, 1), (19, 1), (20, 4), (24, 4)]
    ctx.check(fmt is not None and layout(fmt)[0] == want, 'W1', 'IKE header (3.1): SPIi 8, SPIr 8, next payload, version, exchange type, '
              'flags, Message ID 4, length 4 on decode', key=('W1', 'header', 'decode-layout'), site=ctx.site(pf, U.node))
    ctor = D.calls_to(callee='new message.Message')
    ctx.require(len(ctor) == 1, 'anchor vanished: Message(...) in Message.parse')
    kw = {k: strip_ids(v) for k, v in ctor[0].args.items()}
    direct = {'spi_i': 0, 'spi_r': 1, 'exchange_type': 4, 'message_id': 6}
    for k, i in direct.items():
        ctx.check(kw.get(k) == ('index', H, const(i)), 'W1', 'IKE header: field %d becomes %s' % (i, k), key=('W1', 'header', 'decode', k),
                  site=ctx.site(pf, ctor[0].node), detail={'found': tq.text(kw.get(k, NONE))})
    fp = [x for x in D.calls_to(qual='message.Message._parse_payloads') if strip_ids(x.args.get('data', NONE)) == ('slice', d, const(28), NONE, NONE)]
    ok = len(fp) == 1
    if ok:
        a = {k: strip_ids(v) for k, v in fp[0].args.items()}
        first = a.get('first_payload_type', NONE)
        ok = a.get('data') == ('slice', d, const(28), NONE, NONE) and first[0] == 'call' and first[1] == 'enum message.Payload.Type' \
            and list(tq.args(first).values()) == [('index', H, const(2))]
    ctx.check(ok, 'W1', 'IKE header: field 2 is the type of the first payload, which starts at octet 28', key=('W1', 'header', 'first-payload'),
              site=ctx.site(pf, pf.node))
    hp, rest = first_pack(E.ret())
    ctx.check(hp is not None and fmt_of(list(tq.args(hp).values())[0]) == fmt, 'W1', 'IKE header: the encoder uses the same format',
              key=('W1', 'header', 'encode-format'), site=ctx.site(tb, tb.node))
    if hp is None:
        return
    ea = list(tq.args(hp).values())[1:]
    me = ('param', 'self')
    ctx.check(len(ea) == 8 and [strip_ids(ea[i]) for i in (0, 1, 4, 6)] == [('attr', me, x) for x in ('spi_i', 'spi_r', 'exchange_type', 'message_id')],
              'W1', 'IKE header: SPIi, SPIr, exchange type and Message ID are written at their positions', key=('W1', 'header', 'encode-direct'),
              site=ctx.site(tb, tb.node), detail={'found': [tq.text(a) for a in ea]})
    if len(ea) != 8:
        return
    pl = tq.args(rest[0]).get('payloads') if len(rest) == 1 and tq.is_call(rest[0], 'message.Message._payloads_to_bytes') else None
    okf = pl is not None
    if okf:
        # next payload = type of the first payload of the list that is serialised, NONE when it is empty
        vals = []
        for empty in (True, False):
            def leaf(t, empty=empty):
                if strip_ids(t) == strip_ids(pl):
                    return () if empty else ('P0',)
                if strip_ids(t) == strip_ids(('attr', ('index', pl, const(0)), 'type')):
                    return 'TYPE0'
                if t[0] == 'global' and t[1].endswith('Payload.Type.NONE'):
                    return 'NONE'
                raise tq.NoValue()
            try:
                vals.append(tq.teval(ea[2], leaf))
            except (tq.NoValue, Exception):
                vals.append(None)
        okf = vals == ['NONE', 'TYPE0']
    ctx.check(okf, 'W4', 'IKE header: next payload = type of the first payload that is serialised, NONE when there is none',
              key=('W4', 'header-first'), site=ctx.site(tb, tb.node), detail={'found': tq.text(ea[2], 300)})
    # flags: evaluate encode and decode terms over all combinations
    bad = None

    def dec(field, flags=None, ver=None):
        def leaf(t):
            t = strip_ids(t)
            if flags is not None and t == ('index', H, const(5)):
                return flags
            if ver is not None and t == ('index', H, const(3)):
                return ver
            raise tq.NoValue()
        return tq.teval(kw[field], leaf)
    try:
        for r in (False, True):
            for v in (False, True):
                for i in (False, True):
                    def leaf(t, r=r, v=v, i=i):
                        t = strip_ids(t)
                        m_ = {('attr', me, 'is_response'): r, ('attr', me, 'can_use_higher_version'): v, ('attr', me, 'is_initiator'): i}
                        if t in m_:
                            return m_[t]
                        raise tq.NoValue()
                    enc = tq.teval(ea[5], leaf)
                    want_b = (0x20 if r else 0) | (0x10 if v else 0) | (0x08 if i else 0)
                    got = tuple(bool(dec(k, flags=enc)) for k in ('is_response', 'can_use_higher_version', 'is_initiator'))
                    if enc != want_b or got != (r, v, i):
                        bad = bad or (r, v, i, enc, got)
        for stray in (0x01, 0x02, 0x04, 0x40, 0x80):
            got = tuple(bool(dec(k, flags=stray)) for k in ('is_response', 'can_use_higher_version', 'is_initiator'))
            if got != (False, False, False):
                bad = bad or ('stray', stray, got)
    except (tq.NoValue, KeyError, Exception) as ex:
        bad = ('cannot evaluate', str(ex)[:80])
    ctx.check(bad is None, rule, 'IKE header flags: R = 0x20, V = 0x10, I = 0x08 on encode and decode for all 8 combinations, other bits ignored',
              key=(rule, 'header-flags'), site=ctx.site(tb, tb.node), detail={'counterexample': bad})
    bad = None
    try:
        for mj in range(16):
            for mn in range(16):
                def leaf(t, mj=mj, mn=mn):
                    t = strip_ids(t)
                    if t == ('attr', me, 'major'):
                        return mj
                    if t == ('attr', me, 'minor'):
                        return mn
                    raise tq.NoValue()
                enc = tq.teval(ea[3], leaf)
                dmj, dmn = dec('major', ver=enc), dec('minor', ver=enc)
                if enc != mj * 16 + mn or (dmj, dmn) != (mj, mn):
                    bad = bad or (mj, mn, enc, dmj, dmn)
    except (tq.NoValue, KeyError, Exception) as ex:
        bad = ('cannot evaluate', str(ex)[:80])
    ctx.check(bad is None, rule, 'IKE header version: major in the high nibble, minor in the low nibble, both directions (256 cases)',
              key=(rule, 'header-version'), site=ctx.site(tb, tb.node), detail={'counterexample': bad})
    buf = E.ret()
    ok = header_length_form(E, buf) is not None
    ctx.check(ok, rule, 'IKE header length (offset 24) = total length of the message that is returned', key=(rule, 'header-length'),
              site=ctx.site(tb, tb.node))


def check_generic_header(ctx, esc):
    prog = ctx.prog
    c = prog.cls(M + 'Message')
    pp, pb = c.lookup('_parse_payloads'), c.lookup('_payloads_to_bytes')
    D = ctx.sval(pp)
    d = ('param', pp.call_params()[0])
    cur = [x for x in cursor_loops(D) if x[2] == const(0)]
    u = [x for x in unpack_calls(D) if upos(x)[2] is not None and strip_ids(upos(x)[2])[0] == 'acc']
    ctx.require(len(u) == 1 and len(cur) == 1, 'anchor vanished: generic payload header unpack at the cursor')
    G = strip_ids(u[0].term)
    ctx.check(layout(upos(u[0])[0])[0] == [(0, 1), (1, 1), (2, 2)], 'W1',
              'Generic payload header (3.2): next payload, C|RESERVED, length at each payload', key=('W1', 'generic', 'decode'),
              site=ctx.site(pp, u[0].node))
    nxt, crit, ln = (('index', G, const(k)) for k in range(3))
    acc = ('acc', cur[0][1], 0)
    pc = [x for x in D.calls if x.name == 'parse' and tq.contains(x.recv or NONE, D.expr('cls.type_2_payload'))]
    ok = len(pc) == 1
    cflag = None
    if ok:
        a = [strip_ids(x) for x in pc[0].args.values()]
        ok = len(a) == 2 and a[0] == ('slice', d, ('add', (acc, const(4))), ('add', (acc, ln)), NONE) and cur[0][3] == ln
        cflag = a[1] if len(a) == 2 else None
    ctx.check(ok, 'W2', 'Generic payload header: the body is the announced length minus the 4 header octets and is parsed together with '
              'the critical flag; the cursor advances by the announced length', key=('W2', 'generic-slices'), site=ctx.site(pp, pp.node))
    okc = cflag is not None
    if okc:
        vals = {}
        for b in (0x00, 0x80, 0x7F, 0xFF, 0x01):
            def leaf(t, b=b):
                if strip_ids(t) == crit:
                    return b
                raise tq.NoValue()
            try:
                vals[b] = bool(tq.teval(cflag, leaf))
            except (tq.NoValue, Exception):
                vals[b] = None
        okc = vals == {0x00: False, 0x80: True, 0x7F: False, 0xFF: True, 0x01: False}
    ctx.check(okc, 'W2', 'Generic payload header: the critical flag is bit 7 of the second octet (decode)', key=('W2', 'critical-decode'),
              site=ctx.site(pp, pp.node))
    B = ctx.sval(pb)
    pls = ('param', pb.call_params()[0])
    r = strip_ids(B.ret())
    sums = [x for x in (r[1] if r[0] == 'add' else [r]) if x[0] == 'sum']
    ok = len(sums) == 1 and sums[0][2] == pls and sums[0][3][0] == 'add' and len(sums[0][3][1]) == 2 and tq.is_call(sums[0][3][1][0], 'struct.pack')
    ctx.check(ok, 'W1', 'Generic payload header: written before each payload, for every payload in order', key=('W1', 'generic', 'encode'),
              site=ctx.site(pb, pb.node), detail={'returned': tq.text(r, 400)})
    if not ok:
        return
    p, body = sums[0][3][1]
    a = list(tq.args(p).values())
    el = ('elem', pls, 0)
    ctx.check(fmt_of(a[0]) is not None and layout(fmt_of(a[0]))[0] == [(0, 1), (1, 1), (2, 2)] and len(a) == 4, 'W1',
              'Generic payload header: layout on encode', key=('W1', 'generic', 'encode-layout'), site=ctx.site(pb, pb.node))
    if len(a) != 4:
        return
    vals = {}
    for b in (False, True):
        def leaf(t, b=b):
            if strip_ids(t) == ('attr', el, 'critical'):
                return b
            raise tq.NoValue()
        try:
            vals[b] = tq.teval(a[2], leaf)
        except (tq.NoValue, Exception):
            vals[b] = None
    ctx.check(vals == {False: 0, True: 0x80}, 'W2', 'Generic payload header: the encoder places the payload\'s critical flag at bit 7 of the '
              'second octet (a payload built with critical=True survives serialisation)', key=('W2', 'critical-encode'), site=ctx.site(pb, pb.node),
              detail={'found': tq.text(a[2])})
    ok = a[3] == ('add', (LEN(body), const(4))) and tq.is_call(body) and (body[1] if isinstance(body[1], str) else '|'.join(body[1])).find('to_bytes') >= 0 \
        and body[2] == el
    ctx.check(ok, 'W2', 'Generic payload header: length = payload body + 4, and the body follows', key=('W2', 'generic-length'),
              site=ctx.site(pb, pb.node), detail={'found': tq.text(a[3])})


def check_chain(ctx, esc):
    prog = ctx.prog
    c = prog.cls(M + 'Message')
    pp, pb, tb, pf = c.lookup('_parse_payloads'), c.lookup('_payloads_to_bytes'), c.lookup('to_bytes'), c.lookup('parse')
    D = ctx.sval(pp)
    d = ('param', pp.call_params()[0])
    u = [x for x in unpack_calls(D) if upos(x)[2] is not None and strip_ids(upos(x)[2])[0] == 'acc']
    ctx.require(len(u) == 1, 'anchor vanished: generic payload header unpack at the cursor')
    G = strip_ids(u[0].term)
    nxt, crit, ln = (('index', G, const(k)) for k in range(3))
    none = ('global', 'message.Payload.Type.NONE')
    # decode: loop driven by the type announced by the previous header
    loops = [(lid, st, it) for lid, (st, it) in D.loops.items() if isinstance(st, ast.While)]
    ok = len(loops) == 1
    tvar = []
    if ok:
        lid, st, it = loops[0]
        ups = {k: strip_ids(v) for k, v in D.loop_updates[lid].items()}
        inits = D.loop_inits[lid]
        tvar = [k for k, v in inits.items() if v == ('param', pp.call_params()[1])]
        ok = len(tvar) == 1
        if ok:
            tv = ('acc', tvar[0], 0)
            ok = strip_ids(it) == ('while', ('not', strip_ids(D.mk_cmp('==', tv, none))))
            # next type: the announced one; NONE after an SK payload
            nv = ups[tvar[0]]
            sk = strip_ids(D.mk_cmp('==', tv, ('global', 'message.Payload.Type.SK')))
            def leaves(t):
                if t[0] == 'cond':
                    return leaves(t[2]) + leaves(t[3])
                if t[0] == 'tryvar':
                    return leaves(t[3])
                return [t]
            a_, b_ = tq.restrict(nv, lambda t: True if strip_ids(t) == sk else None), tq.restrict(nv, lambda t: False if strip_ids(t) == sk else None)
            ok = ok and set(leaves(b_)) == {nxt} and set(leaves(a_)) <= {none, nxt}
            table_ = strip_ids(D.expr('cls.type_2_payload'))

            def by_type(r):
                """the registry entry of the announced type: TABLE[type] or TABLE.get(type)"""
                r = strip_ids(r)
                return r == ('index', table_, tv) or (tq.is_call(r, 'method.get') and r[2] == table_ and [v_ for _, v_ in r[3]][:1] == [tv]
                                                      and all(v_ == NONE for _, v_ in r[3][1:]))
            look = [x for x in D.calls if x.name == 'parse' and by_type(x.recv or NONE)]
            ok = ok and len(look) == 1
    ctx.check(ok, 'W4', 'decode: each payload is parsed as the type announced by the previous header (the first by the caller), until NONE',
              key=('W4', 'decode-chain'), site=ctx.site(pp, pp.node))
    # end-of-data check on every normal return
    cur = [x for x in cursor_loops(D) if x[2] == const(0)]
    total = strip_ids(D.end_env.get(cur[0][1])) if len(cur) == 1 and D.end_env is not None else None
    rets = [(pc, t) for pc, t, _ in D.returns]
    ok = bool(rets) and len(cur) == 1
    goal = None
    if ok:
        endv = [strip_ids(env.get(cur[0][1], NONE)) for _, env in D.exit_envs]
        goal = D.mk_cmp('==', endv[0], LEN(d)) if endv else None
        ok = goal is not None and all(tq.entails(pc, goal) is True for pc, _ in rets) and len(D.exit_envs) == len(rets)
        bad = [(rpc, rt) for rpc, rt, _ in D.raises if goal is not None and tq.entails(rpc, ('not', goal)) is True]
        ok = ok and bool(bad) and all(tq.is_call(rt, 'new message.InvalidSyntax') for _, rt in bad)
    ctx.check(ok, 'W4', 'decode: a payload chain that does not end exactly at the end of the data raises InvalidSyntax (every normal return '
              'passed the check)', key=('W4', 'end-of-data'), site=ctx.site(pp, pp.node))
    # unknown payloads
    # "unknown" = the registry lookup missed: KeyError caught at the lookup, or the membership test `type in type_2_payload` failed
    known = strip_ids(D.mk_cmp('in', ('acc', tvar[0], 0), D.expr('cls.type_2_payload'))) if len(tvar) == 1 else None

    got = ('call', 'method.get', strip_ids(D.expr('cls.type_2_payload')), (('#0', ('acc', tvar[0], 0)),)) if len(tvar) == 1 else None
    missing = strip_ids(D.mk_cmp('is', got, NONE)) if got is not None else None

    def unknown(rpc):
        return any(a[0][0] == 'caught' and 'KeyError' in tq.text(a[0]) and a[1] for a in rpc) or \
            any(strip_ids(a[0]) == known and a[1] is False for a in rpc) or \
            any(strip_ids(a[0]) == missing and a[1] is True for a in rpc)
    unk = [(rpc, rt) for rpc, rt, _ in D.raises if unknown(rpc)]
    ok = len(unk) == 1 and 'UnsupportedCriticalPayload' in tq.text(unk[0][1])
    if ok:
        extra = [a for a in strip_ids(unk[0][0]) if a[0][0] not in ('caught',) and strip_ids(a[0]) not in (known, missing) and tq.contains(a[0], crit)]
        ok = len(extra) == 1 and extra[0][1] is True
        # skipped otherwise: the cursor still advances by the announced length (one update for all paths)
        ok = ok and len(cur) == 1 and cur[0][3] == ln
    ctx.check(ok, 'W4', 'decode: an unknown payload type is rejected as UnsupportedCriticalPayload when critical, else skipped by its length',
              key=('W4', 'unknown-payload'), site=ctx.site(pp, pp.node))
    # SK: inner first type
    st_ = [(t, v) for t, v, pc, _, _ in D.stores if t[0] == 'attr' and t[2] == 'next_payload_type']
    ok = len(st_) == 1 and strip_ids(st_[0][1]) == nxt
    P = ctx.sval(pf)
    ic = [x for x in P.calls_to(qual='message.Message._parse_payloads') if 'next_payload_type' in tq.text(x.args.get('first_payload_type', NONE), 2000)]
    ok = ok and len(ic) == 1 and ic[0].args['first_payload_type'][0] == 'attr' and ic[0].args['first_payload_type'][2] == 'next_payload_type' \
        and tq.find_calls(ic[0].args['first_payload_type'], 'method.pop')
    ctx.check(ok, 'W4', 'decode: the SK payload ends the outer chain and its next-payload field types the first inner payload',
              key=('W4', 'sk-decode'), site=ctx.site(pp, pp.node))
    T = ctx.sval(tb)
    me = ('param', 'self')
    ep = ('attr', me, 'encrypted_payloads')
    tg = {strip_ids(t) for t, v, pc, _, _ in T.stores if t[0] == 'attr' and t[2] == 'next_payload_type'}
    ok = len(tg) == 1 and tq.is_call(list(tg)[0][1], 'message.PayloadSK.generate')
    skn = [(list(tg)[0], T.stored_value(list(tg)[0]))] if ok else []
    if ok:
        vals = []
        for empty in (True, False):
            def leaf(t, empty=empty):
                t = strip_ids(t)
                if t == ep:
                    return () if empty else ('P0',)
                if t == ('attr', ('index', ep, const(0)), 'type'):
                    return 'TYPE0'
                if t[0] == 'global' and t[1].endswith('Payload.Type.NONE'):
                    return 'NONE'
                raise tq.NoValue()
            try:
                vals.append(tq.teval(skn[0][1], leaf))
            except (tq.NoValue, Exception):
                vals.append(None)
        ok = vals == ['NONE', 'TYPE0']
    ctx.check(ok, 'W4', 'encode: the SK payload announces the type of the first encrypted payload (NONE when there is none)',
              key=('W4', 'sk-encode'), site=ctx.site(tb, tb.node))
    # encode chain
    B = ctx.sval(pb)
    pls = ('param', pb.call_params()[0])
    r = strip_ids(B.ret())
    sums = [x for x in (r[1] if r[0] == 'add' else [r]) if x[0] == 'sum']
    ok = len(sums) == 1 and sums[0][2] == pls and sums[0][3][0] == 'add' and tq.is_call(sums[0][3][1][0], 'struct.pack')
    if ok:
        nx = list(tq.args(sums[0][3][1][0]).values())[1]
        el = ('elem', pls, 0)
        res_ = []
        for n, i, sk in ((3, 0, False), (3, 1, True), (3, 2, False), (3, 2, True), (1, 0, True), (1, 0, False)):
            def leaf(t, n=n, i=i, sk=sk):
                t = strip_ids(t)
                if t == ('idx', pls, 0):
                    return i
                if t == pls:
                    return tuple('P%d' % k for k in range(n))
                if t[0] == 'attr' and t[2] == 'type' and t[1][0] == 'index' and t[1][1] == pls:
                    return 'TYPE%d' % tq.teval(t[1][2], leaf)
                if t == ('attr', el, 'type'):
                    return 'SK' if sk else 'OTHER'
                if t == ('attr', el, 'next_payload_type'):
                    return 'INNER'
                if t[0] == 'global' and t[1].endswith('Payload.Type.SK'):
                    return 'SK'
                if t[0] == 'global' and t[1].endswith('Payload.Type.NONE'):
                    return 'NONE'
                raise tq.NoValue()
            try:
                res_.append(tq.teval(nx, leaf))
            except (tq.NoValue, Exception):
                res_.append(None)
        ok = res_ == ['TYPE1', 'TYPE2', 'NONE', 'INNER', 'INNER', 'NONE']
    ctx.check(ok, 'W4', 'encode: each header announces the type of the following payload; the last announces NONE (SK: its inner first type), '
              'for every payload in order', key=('W4', 'encode-chain'), site=ctx.site(pb, pb.node))


def check_dump(ctx):
    prog, res = ctx.prog, ctx.res
    mod = prog.module('message')
    n = 0
    for c in mod.classes.values():
        td = c.lookup('to_dict')
        init = c.lookup('__init__')
        if td is None or init is None or 'to_dict' not in c.methods and not any('to_dict' in k.methods for k in c.mro()):
            continue
        # attributes assigned in every __init__ along the MRO from constructor parameters
        attrs = set()
        for k in c.mro():
            i = k.methods.get('__init__')
            if i is None:
                continue
            for s in walk_no_nested(i.node):
                if isinstance(s, ast.Assign) and isinstance(s.targets[0], ast.Attribute) and src(s.targets[0].value) == 'self' \
                        and any(isinstance(x, ast.Name) and x.id in i.call_params() for x in ast.walk(s.value)):
                    attrs.add(s.targets[0].attr)
        read = set()
        seen = set()
        todo = [c.lookup('to_dict')]
        while todo:
            f = todo.pop()
            if f is None or f.qual in seen:
                continue
            seen.add(f.qual)
            for x in walk_no_nested(f.node):
                if isinstance(x, ast.Attribute) and src(x.value) == 'self':
                    read.add(x.attr)
                    m_ = f.cls.lookup(x.attr) if f.cls else None
                    if m_ is not None and m_.qual not in seen:
                        todo.append(m_)
                if isinstance(x, ast.Call) and isinstance(x.func, ast.Attribute) and x.func.attr == 'to_dict' \
                        and isinstance(x.func.value, ast.Call) and src(x.func.value.func) == 'super':
                    for k in f.cls.mro()[1:]:
                        if 'to_dict' in k.methods:
                            todo.append(k.methods['to_dict'])
                            break
        skip = {'crypto', 'iv'} if c.name == 'Message' else set()
        for a in sorted(attrs - skip):
            n += 1
            ctx.check(a in read, 'W5', '%s.to_dict shows field `%s`' % (c.name, a), key=('W5', c.name, a), site=ctx.site(td, td.node))
    ctx.floor('W5 decoded fields that must appear in the dump', n, 40)
    mt = ctx.func('message.Message.to_dict')
    MT = ctx.sval(mt)
    me = ('param', 'self')
    ok = True
    for lst in ('payloads', 'encrypted_payloads'):
        seq = ('attr', me, lst)
        dumps = [x for x in tq.find(strip_ids(MT.ret()), lambda t: t[0] == 'list' and len(t[1]) == 1 and t[1][0][0] == 'each'
                                    and t[1][0][2] == seq and not t[1][0][3])]
        ok = ok and any(tq.is_call(x[1][0][4]) and x[1][0][4][2] == ('elem', seq, 0) and 'to_dict' in str(x[1][0][4][1]) for x in dumps)
    ctx.check(ok, 'W5', 'Message.to_dict dumps every clear and every encrypted payload', key=('W5', 'both-lists'), site=ctx.site(mt, mt.node))
    # ... and the dump of a message the parser accepted is total: whatever the fields hold (identification data of any length, text
    # that is not UTF-8, unknown enumeration values), no exception leaves Message.to_dict - a dump that raises shows nothing
    esc_d = ctx.escape('engine', kills=common.engine_kills(ctx))
    out_d = esc_d.escapes(mt)
    ctx.check(not out_d, 'W5', 'no exception escapes Message.to_dict (every accepted message can be dumped)', key=('W5', 'dump-total'),
              site=ctx.site(mt, mt.node), detail={'escaping': {k: [str(o)[:160] for o in list(v)[:3]] for k, v in sorted(out_d.items())}})
    pt = ctx.func('message.Payload.to_dict')
    ctx.check(tq.contains(ctx.sval(pt).ret(), ('attr', ('attr', me, 'type'), 'name')), 'W5', 'every payload dump names its type',
              key=('W5', 'payload-type'), site=ctx.site(pt, pt.node))
    lm = ctx.func('ikesa.IkeSa.log_message')
    LM = ctx.sval(lm)
    msgp = ('param', lm.call_params()[0])
    dumps = [c for c in LM.calls if c.callee == 'json.dumps']
    ctx.check(len(dumps) >= 1 and any(tq.is_call(x) and 'to_dict' in str(x[1]) and x[2] == msgp for c in dumps for x in tq.find_calls(c.term)),
              'W5', 'log_message writes the structured dump', key=('W5', 'log-message'), site=ctx.site(lm, lm.node))
    sites = {}
    for fi in prog.cls('ikesa.IkeSa').methods.values():
        if not isinstance(fi.node, ast.FunctionDef):
            continue
        for x in ctx.sval(fi).calls_to(qual='ikesa.IkeSa.log_message'):
            sites.setdefault(fi.name, []).append(x)
    ctx.check(set(sites) == {'process_message', '_process_request', '_send_request'}, 'W5',
              'every received message (process_message) and every sent message (_process_request, _send_request) is logged',
              key=('W5', 'log-sites'), detail={'found': sorted(sites)})
    pm = ctx.func('ikesa.IkeSa.process_message')
    PM = ctx.sval(pm)
    parse = PM.calls_to(qual='message.Message.parse')
    logs = PM.calls_to(qual='ikesa.IkeSa.log_message')
    ok = len(parse) == 1 and len(logs) >= 1 and not logs[0].pc and logs[0].seq > parse[0].seq and \
        list(logs[0].args.values())[0] == parse[0].term
    if ok:
        between = [c for c in PM.calls if parse[0].seq < c.seq < logs[0].seq and c.quals and c is not logs[0]]
        early = [s_ for s_ in PM.seq_of.values() if s_ < logs[0].seq]
        ok = not between and not early
    ctx.check(ok, 'W5', 'a received message is logged right after it was parsed, before any check can drop it', key=('W5', 'log-received-first'),
              site=ctx.site(pm, pm.node))


MANIFEST = {
    'level': 'Static decision of codec sibling agreement against an independent third description: for every structure of RFC 7296 '
             'section 3 the decoder\'s and the encoder\'s struct layouts are compared field by field (offset, width) with a table '
             'transcribed from the RFC, each decoded field is followed by def-use into the attribute the encoder writes at that '
             'position, RESERVED ranges are ignored/zeroed; flag bits, version nibbles, the critical bit, more-markers, +4 length '
             'conventions, selector length/address width and the KEYLEN attribute are evaluated by the checker\'s interpreter over '
             'all relevant values; registry/type agreement and ~200 enum constants against the IANA registry; payload-chain wiring, '
             'the end-of-data check dominating every normal return, unknown-payload handling; attribute coverage of every to_dict and '
             'the three log sites.',
    'note': 'Trusted: transcription of the RFC/IANA tables. Declined: round-trip and idempotence over all byte strings; comparison '
            'with an independent encoder on concrete messages.',
    'technique': 'sibling codec comparison against an RFC layout table over value terms (which decoded field reaches which attribute, what the encoder writes where) + finite evaluation of bit arithmetic',
    'design_ref': 'DESIGN.md 3/C05',
}
MANIFEST['note'] += (' Also decided here (necessary conditions shared between properties or added after the independent '
                     'change rounds, DESIGN.md 8.7): ICV table (from C07), Message.to_bytes keeps nothing, critical-payload error not re-labelled, constructors keep their values, registry consistency. Rounds 7-8: no exception leaves Message.to_dict; nonce length window evaluated at its bounds.')
