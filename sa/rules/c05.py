"""C05 - Wire encoding matches RFC 7296 section 3 and round-trips.

Claimed clause: codec sibling agreement against a third, independent description (a table transcribed
from RFC 7296 3.1-3.14 held by this module), registry and dump exhaustiveness, chain-termination checks.

W1 (A7)  per structure: the struct format used by the decoder and by the encoder have the RFC's field
         offsets and widths; the value decoded at each position flows into the attribute whose value the
         encoder writes at that position; RESERVED ranges are ignored on decode and written as zero.
W2 (A11) bit-level and arithmetic details evaluated by the checker's interpreter: header flag bits and
         version nibbles (encode, decode, round trip, RFC values), the critical bit, "more" markers, the
         +4 length conventions, selector length and address width, the KEYLEN attribute, slice bounds.
W3       registry: type_2_payload[T].type == T; every enum member against the IANA number.
W4 (A4)  payload chain: next-payload wiring on both sides, SK's inner first type, the end-of-data check
         dominates every normal return, unknown payloads (skip / UnsupportedCriticalPayload).
W5       dump exhaustiveness: every to_dict reads every constructor-assigned attribute; both payload lists
         are dumped; every received and sent message is logged.
"""
import ast
import re
import struct

from ..finite import Interp
from ..model import AnalysisError, src, walk_no_nested
from ..terms import callee_name, calls_in, compare_parts, inline, kwargs_of, single_def
from . import common

EXPLANATION = ('static analysis: field-by-field comparison of the decoder\'s and encoder\'s struct layouts with a table '
               'transcribed from RFC 7296 section 3, def-use flow of each decoded field into the attribute the encoder reads, '
               'finite evaluation of bit masks/shifts/markers/length arithmetic, registry and IANA constant tables, dominance of '
               'the end-of-data check, and attribute coverage of the structured dump')
ASSUMPTIONS = [
    'declined: round-trip equality and idempotence over all byte strings (runtime property); comparison with an independent '
    'encoder on concrete messages (differential testing). What is decided is necessary for both.',
    'oracle: RFC 7296 3.1-3.14 layouts and the IANA IKEv2 parameter registry, transcribed into this module',
]

RES = 'reserved'
M = 'message.'


def layout(fmt, A=None):
    """[(offset, width)] of the fields of a big-endian struct format; `{0}`/`{}` placeholders are replaced by A"""
    f = re.sub(r'\{[^}]*\}', str(A) if A is not None else '1', fmt)
    if not f.startswith('>') and not f.startswith('!'):
        raise AnalysisError('wire format %r is not big-endian' % fmt)
    out = []
    off = 0
    for cnt, ch in re.findall(r'(\d*)([xcbB?hHiIlLqQs])', f[1:]):
        w = struct.calcsize('>' + ch)
        if ch == 's':
            out.append((off, int(cnt) if cnt else 1))
            off += int(cnt) if cnt else 1
        else:
            for _ in range(int(cnt) if cnt else 1):
                out.append((off, w))
                off += w
    return out, off


def fmt_text(e):
    if isinstance(e, ast.Constant) and isinstance(e.value, str):
        return e.value
    if isinstance(e, ast.Call) and isinstance(e.func, ast.Attribute) and e.func.attr == 'format' \
            and isinstance(e.func.value, ast.Constant):
        return e.func.value.value
    return None


def unpacks(fi):
    """[(format text, [target names], offset expr or None, call)] in source order"""
    out = []
    for n in walk_no_nested(fi.node):
        if isinstance(n, ast.Assign) and isinstance(n.value, ast.Call) and callee_name(n.value) == 'unpack_from':
            c = n.value
            t = n.targets[0]
            names = [src(x) for x in t.elts] if isinstance(t, ast.Tuple) else [src(t) + '[*]']
            out.append((fmt_text(c.args[0]), names, c.args[2] if len(c.args) > 2 else None, c, n))
    out.sort(key=lambda x: (x[3].lineno, x[3].col_offset))
    return out


def packs(fi):
    out = [c for c in calls_in(fi.node) if callee_name(c) == 'pack']
    out.sort(key=lambda c: (c.lineno, c.col_offset))
    return out


def attr_of_param(init, param):
    """attribute of self that __init__ fills from `param` (possibly through an enum constructor)"""
    for n in walk_no_nested(init.node):
        if isinstance(n, ast.Assign) and isinstance(n.targets[0], ast.Attribute) and src(n.targets[0].value) == 'self':
            if any(isinstance(x, ast.Name) and x.id == param for x in ast.walk(n.value)):
                return n.targets[0].attr
    return None


def flows_to_attr(ctx, cls, fi, name):
    """attribute(s) of the constructed object that receive local `name` of the parse function"""
    out = set()
    for r in walk_no_nested(fi.node):
        if not (isinstance(r, ast.Return) and isinstance(r.value, ast.Call)):
            continue
        c = r.value
        cn = callee_name(c)
        target_cls = cls if cn in ('cls', cls.name) else ctx.prog.resolve_class_expr(c.func, fi.module, fi.cls)
        if target_cls is None:
            continue
        init = target_cls.lookup('__init__')
        if init is None:
            continue
        b = kwargs_of(c, target=init)
        for p, a in b.items():
            if any(isinstance(x, ast.Name) and x.id == name for x in ast.walk(a)):
                at = attr_of_param(init, p)
                if at:
                    out.add(at)
    return out


# structure -> (class, decode fn, index of unpack_from, encode fn, index of pack, fields)
# field: (offset, width, role) role = attribute name | ('size', encode expr) | RES
STRUCTS = [
    ('KE payload (3.4)', 'PayloadKE', 'parse', 0, 'to_bytes', 0,
     [(0, 2, 'dh_group'), (2, 2, RES)]),
    ('Transform (3.3.2)', 'Transform', 'parse', 0, 'to_bytes', 0,
     [(0, 1, 'type'), (1, 1, RES), (2, 2, 'id')]),
    ('Proposal (3.3.1)', 'Proposal', 'parse', 0, 'to_bytes', 0,
     [(0, 1, 'num'), (1, 1, 'protocol_id'), (2, 1, ('size', 'len(self.spi)')), (3, 1, ('size', 'len(self.transforms)'))]),
    ('Notify payload (3.10)', 'PayloadNOTIFY', 'parse', 0, 'to_bytes', 0,
     [(0, 1, 'protocol_id'), (1, 1, ('size', 'len(self.spi)')), (2, 2, 'notification_type')]),
    ('Identification payload (3.5)', 'PayloadID', 'parse', 0, 'to_bytes', 0,
     [(0, 1, 'id_type'), (1, 3, RES)]),
    ('Authentication payload (3.8)', 'PayloadAUTH', 'parse', 0, 'to_bytes', 0,
     [(0, 1, 'method'), (1, 3, RES)]),
    ('Traffic Selector payload (3.13)', 'PayloadTS', 'parse', 0, 'to_bytes', 0,
     [(0, 1, ('size', 'len(self.traffic_selectors)')), (1, 3, RES)]),
    ('Delete payload (3.11)', 'PayloadDELETE', 'parse', 0, 'to_bytes', 0,
     [(0, 1, 'protocol_id'), (1, 1, ('size', 'len(self.spis[0]) if self.spis else 0')), (2, 2, ('size', 'len(self.spis)'))]),
]

IANA = {
    'Payload.Type': {'NONE': 0, 'SA': 33, 'KE': 34, 'IDi': 35, 'IDr': 36, 'CERT': 37, 'CERTREQ': 38, 'AUTH': 39, 'NONCE': 40,
                     'NOTIFY': 41, 'DELETE': 42, 'VENDOR': 43, 'TSi': 44, 'TSr': 45, 'SK': 46, 'CP': 47, 'EAP': 48},
    'Message.Exchange': {'IKE_SA_INIT': 34, 'IKE_AUTH': 35, 'CREATE_CHILD_SA': 36, 'INFORMATIONAL': 37},
    'Transform.Type': {'ENCR': 1, 'PRF': 2, 'INTEG': 3, 'DH': 4, 'ESN': 5},
    'Transform.EncrId': {'ENCR_DES': 2, 'ENCR_3DES': 3, 'ENCR_RC5': 4, 'ENCR_IDEA': 5, 'ENCR_CAST': 6, 'ENCR_BLOWFISH': 7,
                         'ENCR_3IDEA': 8, 'ENCR_DES_IV32': 9, 'ENCR_NULL': 11, 'ENCR_AES_CBC': 12, 'ENCR_AES_CTR': 13},
    'Transform.PrfId': {'PRF_HMAC_MD5': 1, 'PRF_HMAC_SHA1': 2, 'PRF_HMAC_TIGER': 3, 'PRF_HMAC_SHA2_256': 5,
                        'PRF_HMAC_SHA2_384': 6, 'PRF_HMAC_SHA2_512': 7},
    'Transform.IntegId': {'INTEG_NONE': 0, 'AUTH_HMAC_MD5_96': 1, 'AUTH_HMAC_SHA1_96': 2, 'AUTH_DES_MAC': 3, 'AUTH_KPDK_MD5': 4,
                          'AUTH_AES_XCBC_96': 5, 'AUTH_HMAC_SHA2_256_128': 12, 'AUTH_HMAC_SHA2_512_256': 14},
    'Transform.DhId': {'DH_NONE': 0, 'DH_1': 1, 'DH_2': 2, 'DH_5': 5, 'DH_14': 14, 'DH_15': 15, 'DH_16': 16, 'DH_17': 17,
                       'DH_18': 18, 'DH_19': 19, 'DH_20': 20, 'DH_21': 21},
    'Transform.EsnId': {'NO_ESN': 0, 'ESN': 1},
    'Proposal.Protocol': {'NONE': 0, 'IKE': 1, 'AH': 2, 'ESP': 3},
    'PayloadNOTIFY.Type': {'UNSUPPORTED_CRITICAL_PAYLOAD': 1, 'INVALID_IKE_SPI': 4, 'INVALID_MAJOR_VERSION': 5, 'INVALID_SYNTAX': 7,
                           'INVALID_MESSAGE_ID': 9, 'INVALID_SPI': 11, 'NO_PROPOSAL_CHOSEN': 14, 'INVALID_KE_PAYLOAD': 17,
                           'AUTHENTICATION_FAILED': 24, 'SINGLE_PAIR_REQUIRED': 34, 'NO_ADDITIONAL_SAS': 35,
                           'INTERNAL_ADDRESS_FAILURE': 36, 'FAILED_CP_REQUIRED': 37, 'TS_UNACCEPTABLE': 38, 'INVALID_SELECTORS': 39,
                           'TEMPORARY_FAILURE': 43, 'CHILD_SA_NOT_FOUND': 44, 'INITIAL_CONTACT': 16384, 'SET_WINDOW_SIZE': 16385,
                           'ADDITIONAL_TS_POSSIBLE': 16386, 'IPCOMP_SUPPORTED': 16387, 'NAT_DETECTION_SOURCE_IP': 16388,
                           'NAT_DETECTION_DESTINATION_IP': 16389, 'COOKIE': 16390, 'USE_TRANSPORT_MODE': 16391,
                           'HTTP_CERT_LOOKUP_SUPPORTED': 16392, 'REKEY_SA': 16393, 'ESP_TFC_PADDING_NOT_SUPPORTED': 16394,
                           'NON_FIRST_FRAGMENTS_ALSO': 16395},
    'PayloadID.Type': {'ID_IPV4_ADDR': 1, 'ID_FQDN': 2, 'ID_RFC822_ADDR': 3, 'ID_IPV6_ADDR': 5, 'ID_DER_ASN1_DN': 9,
                       'ID_DER_ASN1_GN': 10, 'ID_KEY_ID': 11},
    'PayloadAUTH.Method': {'RSA': 1, 'PSK': 2, 'DSS': 3},
    'TrafficSelector.Type': {'TS_IPV4_ADDR_RANGE': 7, 'TS_IPV6_ADDR_RANGE': 8},
    'TrafficSelector.IpProtocol': {'ANY': 0, 'ICMP': 1, 'TCP': 6, 'UDP': 17, 'ICMPv6': 58, 'MH': 135},
}
REGISTRY = {'SA': 'PayloadSA', 'KE': 'PayloadKE', 'IDi': 'PayloadIDi', 'IDr': 'PayloadIDr', 'AUTH': 'PayloadAUTH',
            'NONCE': 'PayloadNONCE', 'VENDOR': 'PayloadVENDOR', 'NOTIFY': 'PayloadNOTIFY', 'TSi': 'PayloadTSi',
            'TSr': 'PayloadTSr', 'SK': 'PayloadSK', 'DELETE': 'PayloadDELETE'}


def check_fixed(ctx, title, cls, dfn, di, efn, ei, fields, A=None):
    prog = ctx.prog
    dfi, efi = cls.lookup(dfn), cls.lookup(efn)
    ctx.require(dfi is not None and efi is not None, 'anchor vanished: %s.%s/%s' % (cls.qual, dfn, efn))
    ups, pks = unpacks(dfi), packs(efi)
    ctx.require(len(ups) > di and len(pks) > ei, 'anchor vanished: struct calls of %s' % cls.qual)
    fmt, names, off, call, _ = ups[di]
    pk = pks[ei]
    efmt = fmt_text(pk.args[0])
    ctx.require(fmt is not None and efmt is not None, 'non-constant wire format in %s' % cls.qual)
    dl, dsize = layout(fmt, A)
    el, esize = layout(efmt, A)
    want_size = sum(w for _, w, _ in fields)
    ctx.check(dsize == want_size and (off is None or src(off) == '0'), 'W1', '%s: the decoder reads the %d fixed octets at the start (%s)'
              % (title, want_size, fmt), key=('W1', title, 'decode-size'), site=ctx.site(dfi, call), detail={'found': dsize})
    ctx.check(esize == want_size, 'W1', '%s: the encoder writes %d fixed octets (%s)' % (title, want_size, efmt),
              key=('W1', title, 'encode-size'), site=ctx.site(efi, pk), detail={'found': esize})
    dmap = {o: (w, names[i] if i < len(names) else None) for i, (o, w) in enumerate(dl)}
    eargs = pk.args[1:]
    emap = {o: (w, eargs[i] if i < len(eargs) else None) for i, (o, w) in enumerate(el)}
    ctx.check(len(names) == len(dl) or names[0].endswith('[*]'), 'W1', '%s: decoder binds one name per field' % title,
              key=('W1', title, 'decode-arity'), site=ctx.site(dfi, call))
    ctx.check(len(eargs) == len(el), 'W1', '%s: encoder supplies one value per field' % title, key=('W1', title, 'encode-arity'),
              site=ctx.site(efi, pk))
    named_d, named_e = set(), set()
    for o, w, role in fields:
        if role == RES:
            continue
        dd, ee = dmap.get(o), emap.get(o)
        what = role if isinstance(role, str) else role[1]
        ctx.check(dd is not None and dd[0] == w, 'W1', '%s: decoder has a %d-octet field at offset %d (%s)' % (title, w, o, what),
                  key=('W1', title, 'decode-field', o), site=ctx.site(dfi, call), detail={'layout': dl})
        ctx.check(ee is not None and ee[0] == w, 'W1', '%s: encoder has a %d-octet field at offset %d (%s)' % (title, w, o, what),
                  key=('W1', title, 'encode-field', o), site=ctx.site(efi, pk), detail={'layout': el})
        if dd is None or ee is None or dd[0] != w or ee[0] != w:
            continue
        named_d.add(o)
        named_e.add(o)
        if isinstance(role, str):
            at = flows_to_attr(ctx, cls, dfi, dd[1]) if dd[1] else set()
            ctx.check(at == {role}, 'W1', '%s: the value decoded at offset %d becomes attribute `%s`' % (title, o, role),
                      key=('W1', title, 'decode-flow', o), site=ctx.site(dfi, call), detail={'target': dd[1], 'flows to': sorted(at)})
            es = src(ee[1]) if ee[1] is not None else None
            ctx.check(es in ('self.' + role, 'self.%s.packed' % role), 'W1', '%s: the encoder writes attribute `%s` at offset %d' % (
                title, role, o), key=('W1', title, 'encode-attr', o), site=ctx.site(efi, pk), detail={'found': es})
        else:
            ctx.check(dd[1] not in (None, '_'), 'W1', '%s: the decoder keeps the %s field at offset %d' % (title, role[0], o),
                      key=('W1', title, 'decode-size-kept', o), site=ctx.site(dfi, call))
            es = src(ee[1]) if ee[1] is not None else None
            ctx.check(es == role[1], 'W1', '%s: the encoder writes %s at offset %d' % (title, role[1], o),
                      key=('W1', title, 'encode-size', o), site=ctx.site(efi, pk), detail={'found': es})
    for o, (w, nm) in dmap.items():
        if o not in named_d:
            ctx.check(nm == '_', 'W1', '%s: RESERVED octets at offset %d are ignored by the decoder' % (title, o),
                      key=('W1', title, 'reserved-decoded', o), site=ctx.site(dfi, call), detail={'bound to': nm})
    for o, (w, a) in emap.items():
        if o not in named_e:
            ctx.check(isinstance(a, ast.Constant) and a.value == 0, 'W1', '%s: RESERVED octets at offset %d are sent as zero' % (title, o),
                      key=('W1', title, 'reserved-encoded', o), site=ctx.site(efi, pk), detail={'found': src(a) if a is not None else None})


def run(ctx):
    prog, res = ctx.prog, ctx.res
    esc = ctx.escape('engine', kills=common.engine_kills(ctx))
    mod = prog.module('message')

    # ---------------------------------------------------------------- W1 fixed parts
    for title, cname, dfn, di, efn, ei, fields in STRUCTS:
        check_fixed(ctx, title, prog.cls(M + cname), dfn, di, efn, ei, fields)
    # bodies that follow the fixed part
    tails = [('PayloadKE', 'ke_data', 'data[4:]'), ('PayloadID', 'id_data', 'data[4:]'), ('PayloadAUTH', 'auth_data', 'data[4:]')]
    for cname, attr, want in tails:
        c = prog.cls(M + cname)
        pf, tb = c.lookup('parse'), c.lookup('to_bytes')
        rets = [r for r in walk_no_nested(pf.node) if isinstance(r, ast.Return) and isinstance(r.value, ast.Call)]
        ok = False
        for r in rets:
            b = kwargs_of(r.value, target=c.lookup('__init__'))
            for p, a in b.items():
                if attr_of_param(c.lookup('__init__'), p) == attr:
                    ok = src(inline(res, pf, a, 2)) == want
        ctx.check(ok, 'W1', '%s: `%s` is everything after the 4 fixed octets' % (cname, attr), key=('W1', cname, 'tail-decode'),
                  site=ctx.site(pf, pf.node))
        adds = [src(n.value) for n in walk_no_nested(tb.node) if isinstance(n, ast.AugAssign)]
        ctx.check(adds == ['self.' + attr], 'W1', '%s: the encoder appends `%s` after the fixed octets' % (cname, attr),
                  key=('W1', cname, 'tail-encode'), site=ctx.site(tb, tb.node))
    # raw-body payloads
    for cname, attr in (('PayloadNONCE', 'nonce'), ('PayloadVENDOR', 'vendor_id'), ('PayloadSK', 'ciphertext')):
        c = prog.cls(M + cname)
        pf, tb = c.lookup('parse'), c.lookup('to_bytes')
        r = [x for x in walk_no_nested(pf.node) if isinstance(x, ast.Return)]
        ok = len(r) == 1 and isinstance(r[0].value, ast.Call) and callee_name(r[0].value) == cname and src(r[0].value.args[0]) == 'data' \
            and attr_of_param(c.lookup('__init__'), c.lookup('__init__').call_params()[0]) == attr \
            and src(tb.node.body[-1]) == 'return self.' + attr
        ctx.check(ok, 'W1', '%s: the body is the raw `%s` in both directions' % (cname, attr), key=('W1', cname, 'raw'),
                  site=ctx.site(pf, pf.node))
    check_notify_proposal_delete(ctx)
    check_ts(ctx)
    check_transform_attr(ctx)
    check_substructures(ctx)
    check_header(ctx, esc)
    check_generic_header(ctx, esc)

    # ---------------------------------------------------------------- W3
    reg = common.payload_registry(ctx)
    ctx.check(set(reg) == set(REGISTRY), 'W3', 'the payload registry covers SA KE IDi IDr AUTH NONCE VENDOR NOTIFY TSi TSr SK DELETE',
              key=('W3', 'registry-keys'), detail={'found': sorted(reg)})
    for k, c in reg.items():
        tv = c.lookup_attr('type')
        ctx.check(c.name == REGISTRY.get(k) and tv is not None and src(tv).endswith('Type.' + k), 'W3',
                  'type_2_payload[%s] is %s and that class declares type %s' % (k, REGISTRY.get(k), k), key=('W3', 'registry', k),
                  detail={'class': c.name, 'type': src(tv) if tv is not None else None})
    nconst = 0
    for q, want in IANA.items():
        have = prog.enum_members(M + q)
        for name, v in want.items():
            nconst += 1
            ctx.check(have.get(name) == v, 'W3', '%s.%s = %d' % (q, name, v), key=('W3', 'iana', q, name), detail={'found': have.get(name)})
        extra = set(have) - set(want)
        for name in sorted(extra):
            ctx.note('enum member %s.%s = %s is not in the checker\'s IANA table (not checked)' % (q, name, have[name]))
    ctx.floor('W3 constants compared with the IANA registry', nconst, 110)
    tid = prog.cls(M + 'Transform').lookup_attr('_transform_id_enums')
    ok = isinstance(tid, ast.Dict) and {src(k).split('.')[-1]: src(v) for k, v in zip(tid.keys, tid.values)} == {
        'ENCR': 'EncrId', 'PRF': 'PrfId', 'INTEG': 'IntegId', 'DH': 'DhId', 'ESN': 'EsnId'}
    ctx.check(ok, 'W3', 'transform identifiers are interpreted in the registry of their transform type', key=('W3', 'transform-id-enums'))

    # ---------------------------------------------------------------- W4
    check_chain(ctx, esc)

    # ---------------------------------------------------------------- W5
    check_dump(ctx)


def check_notify_proposal_delete(ctx):
    prog, res = ctx.prog, ctx.res
    # NOTIFY: spi = data[4:4+spi_size], data = data[4+spi_size:]
    c = prog.cls(M + 'PayloadNOTIFY')
    pf, tb = c.lookup('parse'), c.lookup('to_bytes')
    ss = unpacks(pf)[0][1][1]
    sp = [src(d) for d in res.local_defs(pf).get('spi', []) if isinstance(d, ast.AST)]
    nd = single_def(res, pf, 'notification_data')
    ctx.check(sorted(sp) == sorted(['data[4:4 + %s]' % ss, "b''"]) and isinstance(nd, ast.AST) and src(nd) == 'data[4 + %s:]' % ss, 'W2',
              'Notify: SPI = the spi_size octets after the fixed part, notification data = the rest', key=('W2', 'notify-slices'),
              site=ctx.site(pf, pf.node))
    adds = [src(n.value) for n in walk_no_nested(tb.node) if isinstance(n, ast.AugAssign)]
    ctx.check(adds == ['self.spi', 'self.notification_data'], 'W2', 'Notify: the encoder appends SPI then notification data',
              key=('W2', 'notify-encode'), site=ctx.site(tb, tb.node))
    # Proposal spi
    c = prog.cls(M + 'Proposal')
    pf, tb = c.lookup('parse'), c.lookup('to_bytes')
    ss = unpacks(pf)[0][1][2]
    sp = [src(d) for d in res.local_defs(pf).get('spi', []) if isinstance(d, ast.AST)]
    od = [src(d) for d in res.local_defs(pf).get('offset', []) if isinstance(d, ast.AST)]
    ctx.check(sorted(sp) == sorted(['data[4:4 + %s]' % ss, "b''"]) and '4 + %s' % ss in od, 'W2',
              'Proposal: SPI = the spi_size octets after the fixed part; transforms start right after it', key=('W2', 'proposal-slices'),
              site=ctx.site(pf, pf.node))
    nt = unpacks(pf)[0][1][3]
    cmpn = [n for n in walk_no_nested(pf.node) if isinstance(n, ast.If) and compare_parts(n.test) and
            {src(compare_parts(n.test)[0]), src(compare_parts(n.test)[2])} == {nt, 'len(transforms)'}
            and compare_parts(n.test)[1] is ast.NotEq and isinstance(n.body[-1], ast.Raise)]
    ctx.check(len(cmpn) == 1, 'W2', 'Proposal: the announced number of transforms must equal the number parsed', key=('W2', 'proposal-count'),
              site=ctx.site(pf, pf.node))
    # DELETE
    c = prog.cls(M + 'PayloadDELETE')
    pf, tb = c.lookup('parse'), c.lookup('to_bytes')
    u = unpacks(pf)[0][1]
    loops = [n for n in walk_no_nested(pf.node) if isinstance(n, ast.For)]
    ok = len(loops) == 1 and src(loops[0].iter) in ('range(0, %s)' % u[2], 'range(%s)' % u[2]) and [src(s) for s in loops[0].body] == [
        'spis.append(data[offset:offset + %s])' % u[1], 'offset += %s' % u[1]] and '4' in [
        src(d) for d in res.local_defs(pf).get('offset', []) if isinstance(d, ast.AST)]
    ctx.check(ok, 'W2', 'Delete: num_spis SPIs of spi_size octets each follow the fixed part', key=('W2', 'delete-slices'),
              site=ctx.site(pf, pf.node))
    loops = [n for n in walk_no_nested(tb.node) if isinstance(n, ast.For)]
    ctx.check(len(loops) == 1 and src(loops[0].iter) == 'self.spis' and [src(s) for s in loops[0].body] == ['data += %s' % src(loops[0].target)],
              'W2', 'Delete: the encoder appends every SPI', key=('W2', 'delete-encode'), site=ctx.site(tb, tb.node))
    # TS payload count check
    c = prog.cls(M + 'PayloadTS')
    pf = c.lookup('parse')
    nt = unpacks(pf)[0][1][0]
    cmpn = [n for n in walk_no_nested(pf.node) if isinstance(n, ast.If) and compare_parts(n.test) and
            {src(compare_parts(n.test)[0]), src(compare_parts(n.test)[2])} == {nt, 'len(traffic_selectors)'}
            and compare_parts(n.test)[1] is ast.NotEq and isinstance(n.body[-1], ast.Raise)]
    ctx.check(len(cmpn) == 1, 'W2', 'TS payload: the announced number of selectors must equal the number parsed', key=('W2', 'ts-count'),
              site=ctx.site(pf, pf.node))


def check_ts(ctx):
    prog, res = ctx.prog, ctx.res
    c = prog.cls(M + 'TrafficSelector')
    pf, tb = c.lookup('parse'), c.lookup('to_bytes')
    ups = unpacks(pf)
    pk = packs(tb)
    ctx.require(len(ups) == 2 and len(pk) == 1, 'anchor vanished: TrafficSelector codec')
    for A in (4, 16):
        l1, s1 = layout(ups[0][0])
        l2, s2 = layout(ups[1][0], A)
        le, se = layout(fmt_text(pk[0].args[0]), A)
        # the decoder may read at a base offset inside a larger buffer: addresses must then sit at base + 8
        b0 = src(ups[0][2]) if ups[0][2] is not None else '0'
        b1 = src(ups[1][2]) if ups[1][2] is not None else '0'
        rel = b1 == '8' if b0 == '0' else b1 in ('%s + 8' % b0, '8 + %s' % b0)
        ok = l1 == [(0, 1), (1, 1), (2, 2), (4, 2), (6, 2)] and l2 == [(0, A), (A, A)] and rel \
            and le == [(0, 1), (1, 1), (2, 2), (4, 2), (6, 2), (8, A), (8 + A, A)]
        ctx.check(ok, 'W1', 'Traffic Selector (3.13.1) with %d-octet addresses: type, protocol, length, start port, end port, '
                  'start address, end address at offsets 0,1,2,4,6,8,%d in both directions' % (A, 8 + A), key=('W1', 'ts-layout', A),
                  site=ctx.site(pf, pf.node))
    n1, n2 = ups[0][1], ups[1][1]
    want = ['ts_type', 'ip_proto', None, 'start_port', 'end_port']
    for nm, at in zip(n1, want):
        if at is None:
            ctx.check(nm == '_', 'W1', 'Traffic Selector: the selector length field is not trusted for slicing inside parse',
                      key=('W1', 'ts', 'length-ignored'), site=ctx.site(pf, pf.node))
        else:
            ctx.check(flows_to_attr(ctx, c, pf, nm) == {at}, 'W1', 'Traffic Selector: decoded %s becomes attribute %s' % (nm, at),
                      key=('W1', 'ts', 'flow', at), site=ctx.site(pf, pf.node))
    for nm, at in zip(n2, ['start_addr', 'end_addr']):
        ctx.check(flows_to_attr(ctx, c, pf, nm) == {at}, 'W1', 'Traffic Selector: decoded %s becomes attribute %s' % (nm, at),
                  key=('W1', 'ts', 'flow', at), site=ctx.site(pf, pf.node))
    ea = [src(a) for a in pk[0].args[1:]]
    ctx.check(ea == ['self.ts_type', 'self.ip_proto', '8 + addr_len * 2', 'self.start_port', 'self.end_port', 'self.start_addr.packed',
                     'self.end_addr.packed'], 'W1', 'Traffic Selector: the encoder writes the same attributes at those positions and '
              'length = 8 + 2 * address width', key=('W1', 'ts', 'encode-args'), site=ctx.site(tb, tb.node), detail={'found': ea})
    for fi, tvar in ((pf, n1[0]), (tb, 'self.ts_type')):
        d = single_def(res, fi, 'addr_len')
        ok = isinstance(d, ast.IfExp)
        if ok:
            for t, w in ((7, 4), (8, 16)):
                ok = ok and Interp(prog, fi, {tvar: t}).ev(d) == w
        ctx.check(ok, 'W2', 'Traffic Selector: address width is 4 for TS_IPV4_ADDR_RANGE (7) and 16 for TS_IPV6_ADDR_RANGE (8) in %s' % fi.name,
                  key=('W2', 'ts-addr-len', fi.name), site=ctx.site(fi, fi.node))
    fmtcalls = [ups[1][3].args[0], pk[0].args[0]]
    ctx.check(all(isinstance(f, ast.Call) and [src(a) for a in f.args] == ['addr_len'] for f in fmtcalls), 'W2',
              'Traffic Selector: both formats take the address width from addr_len', key=('W2', 'ts-format-arg'), site=ctx.site(pf, pf.node))
    # TS payload loop: selectors are cut by their own length field
    c2 = prog.cls(M + 'PayloadTS')
    pf2, tb2 = c2.lookup('parse'), c2.lookup('to_bytes')
    u = unpacks(pf2)
    ctx.check(len(u) == 2 and layout(u[1][0])[0] == [(0, 2), (2, 2)] and src(u[1][2]) == 'offset' and u[1][1][0] == '_', 'W2',
              'TS payload: each selector\'s length is read from octets 2-3 of the selector', key=('W2', 'ts-selector-length'),
              site=ctx.site(pf2, pf2.node))
    ln = u[1][1][1] if len(u) == 2 else 'length'
    calls = [x for x in calls_in(pf2.node) if callee_name(x) == 'parse' and src(x.func.value) == 'TrafficSelector']
    adv = [n for n in walk_no_nested(pf2.node) if isinstance(n, ast.AugAssign) and src(n.target) == 'offset']
    ctx.check(len(calls) == 1 and ([src(a) for a in calls[0].args] == ['data[offset:offset + %s]' % ln]
                                   or [src(a) for a in calls[0].args] == ['data', 'offset']) and len(adv) == 1 and src(adv[0].value) == ln
              and '4' in [src(d) for d in res.local_defs(pf2).get('offset', []) if isinstance(d, ast.AST)], 'W2',
              'TS payload: selectors start after the 4 fixed octets, each parsed at the cursor, which advances by the announced length',
              key=('W2', 'ts-loop'), site=ctx.site(pf2, pf2.node))
    loops = [n for n in walk_no_nested(tb2.node) if isinstance(n, ast.For)]
    ctx.check(len(loops) == 1 and src(loops[0].iter) == 'self.traffic_selectors' and [src(s) for s in loops[0].body] == [
        'data += %s.to_bytes()' % src(loops[0].target)], 'W2', 'TS payload: the encoder appends every selector in order',
        key=('W2', 'ts-encode-loop'), site=ctx.site(tb2, tb2.node))


def check_transform_attr(ctx):
    prog, res = ctx.prog, ctx.res
    c = prog.cls(M + 'Transform')
    pf, tb = c.lookup('parse'), c.lookup('to_bytes')
    u = unpacks(pf)
    ctx.require(len(u) == 2, 'anchor vanished: Transform attribute decoding')
    ok = layout(u[1][0])[0] == [(0, 2), (2, 2)] and src(u[1][2]) == 'offset'
    at, av = u[1][1]
    ifs = [n for n in walk_no_nested(pf.node) if isinstance(n, ast.If) and at in src(n.test)]
    ok = ok and len(ifs) == 1
    if ok:
        vals = {x: Interp(prog, pf, {at: x}).ev(ifs[0].test) for x in (0x800E, 14, 0x800F, 0x000D, 0x8000 | 15)}
        ok = vals == {0x800E: True, 14: True, 0x800F: False, 0x000D: False, 0x8000 | 15: False}
        r = ifs[0].body[-1]
        ok = ok and isinstance(r, ast.Return) and isinstance(r.value, ast.Call) and [src(a) for a in r.value.args][2:] == [av]
    ctx.check(ok, 'W2', 'Transform attribute: type 14 (KEYLEN, with or without the AF bit) carries the key length in its value field',
              key=('W2', 'keylen-decode'), site=ctx.site(pf, pf.node))
    adv = [n for n in walk_no_nested(pf.node) if isinstance(n, ast.AugAssign) and src(n.target) == 'offset']
    ctx.check(len(adv) == 1 and src(adv[0].value) == '4' and '4' in [src(d) for d in res.local_defs(pf).get('offset', []) if isinstance(d, ast.AST)],
              'W2', 'Transform attributes are 4-octet TV attributes following the 4 fixed octets', key=('W2', 'attr-step'),
              site=ctx.site(pf, pf.node))
    pk = packs(tb)
    ok = len(pk) == 2 and layout(fmt_text(pk[1].args[0]))[0] == [(0, 2), (2, 2)]
    if ok:
        v = prog.const_eval(pk[1].args[1], tb.module, tb.cls)
        ok = v == 0x800E and src(pk[1].args[2]) == 'self.keylen'
        ifs = [n for n in walk_no_nested(tb.node) if isinstance(n, ast.If) and src(n.test) in ('self.keylen', 'self.keylen is not None')]
        ok = ok and len(ifs) == 1 and any(pk[1] in ast.walk(s) for s in ifs[0].body)
    ctx.check(ok, 'W2', 'Transform: a key length is sent as attribute 0x800E (AF bit | 14) with the length as value', key=('W2', 'keylen-encode'),
              site=ctx.site(tb, tb.node))


def marker_ok(ctx, fi, expr, lst, more):
    """`0 if index == len(lst) - 1 else <more>` evaluated for list lengths 1..3"""
    try:
        for n in (1, 2, 3):
            for i in range(n):
                v = Interp(ctx.prog, fi, {'index': i, lst: (0,) * n}).ev(expr)
                if v != (0 if i == n - 1 else more):
                    return False
        return True
    except AnalysisError:
        return False


def check_substructures(ctx):
    prog, res = ctx.prog, ctx.res
    for cname, inner, lst, more, title in (('Proposal', 'Transform', 'self.transforms', 3, 'Transform substructure header (3.3.2)'),
                                           ('PayloadSA', 'Proposal', 'self.proposals', 2, 'Proposal substructure header (3.3.1)')):
        c = prog.cls(M + cname)
        pf, tb = c.lookup('parse'), c.lookup('to_bytes')
        u = [x for x in unpacks(pf) if x[2] is not None and src(x[2]) == 'offset']
        ctx.check(len(u) == 1 and layout(u[0][0])[0] == [(0, 1), (1, 1), (2, 2)], 'W1', '%s: last/more (1), RESERVED (1), length (2) '
                  'read at each element' % title, key=('W1', title, 'decode'), site=ctx.site(pf, pf.node))
        if len(u) != 1:
            continue
        names = u[0][1]
        ln = names[2]
        ctx.check(names[1] == '_', 'W1', '%s: RESERVED ignored' % title, key=('W1', title, 'reserved'), site=ctx.site(pf, pf.node))
        st, en = single_def(res, pf, 'start'), single_def(res, pf, 'end')
        calls = [x for x in calls_in(pf.node) if callee_name(x) == 'parse' and src(x.func.value) == inner]
        adv = [n for n in walk_no_nested(pf.node) if isinstance(n, ast.AugAssign) and src(n.target) == 'offset']
        ok = isinstance(st, ast.AST) and src(st) == 'offset + 4' and isinstance(en, ast.AST) and src(en) == 'offset + %s' % ln \
            and len(calls) == 1 and src(calls[0].args[0]) == 'data[start:end]' and len(adv) == 1 and src(adv[0].value) == ln
        ctx.check(ok, 'W2', '%s: the element body is the announced length minus the 4 header octets; the cursor advances by the '
                  'announced length' % title, key=('W2', title, 'slices'), site=ctx.site(pf, pf.node))
        pk = [p for p in packs(tb) if len(p.args) == 4 and layout(fmt_text(p.args[0]) or '>x')[0] == [(0, 1), (1, 1), (2, 2)]
              and isinstance(p.args[1], ast.IfExp)]
        ctx.check(len(pk) == 1, 'W1', '%s: written before each element' % title, key=('W1', title, 'encode'), site=ctx.site(tb, tb.node))
        if len(pk) == 1:
            p = pk[0]
            ctx.check(marker_ok(ctx, tb, p.args[1], lst, more), 'W2', '%s: marker is 0 for the last element and %d otherwise' % (title, more),
                      key=('W2', title, 'marker'), site=ctx.site(tb, p), detail={'found': src(p.args[1])})
            ctx.check(isinstance(p.args[2], ast.Constant) and p.args[2].value == 0, 'W1', '%s: RESERVED sent as zero' % title,
                      key=('W1', title, 'reserved-encode'), site=ctx.site(tb, p))
            body = src(p.args[3])
            m_ = re.match(r'^len\((\w+)\) \+ 4$', body)
            ok = m_ is not None
            if ok:
                bd = single_def(res, tb, m_.group(1))
                ok = isinstance(bd, ast.Call) and callee_name(bd) == 'to_bytes'
                adds = [src(n.value) for n in walk_no_nested(tb.node) if isinstance(n, ast.AugAssign)]
                ok = ok and m_.group(1) in adds
            ctx.check(ok, 'W2', '%s: length = element body + 4, and the body follows the header' % title, key=('W2', title, 'length'),
                      site=ctx.site(tb, p), detail={'found': body})
            loops = [n for n in walk_no_nested(tb.node) if isinstance(n, ast.For) and any(p in ast.walk(s) for s in n.body)]
            ctx.check(len(loops) == 1 and src(loops[0].iter) in ('range(0, len(%s))' % lst, 'range(len(%s))' % lst), 'W2',
                      '%s: every element is written, in order' % title, key=('W2', title, 'loop'), site=ctx.site(tb, tb.node))


def check_header(ctx, esc):
    prog, res = ctx.prog, ctx.res
    c = prog.cls(M + 'Message')
    pf, tb = c.lookup('parse'), c.lookup('to_bytes')
    u = unpacks(pf)
    ctx.require(len(u) == 1, 'anchor vanished: header unpack in Message.parse')
    fmt, names, off, call, _ = u[0]
    want = [(0, 8), (8, 8), (16, 1), (17, 1), (18, 1), (19, 1), (20, 4), (24, 4)]
    ctx.check(layout(fmt)[0] == want and off is None, 'W1', 'IKE header (3.1): SPIi 8, SPIr 8, next payload, version, exchange type, '
              'flags, Message ID 4, length 4 on decode', key=('W1', 'header', 'decode-layout'), site=ctx.site(pf, call))
    hv = names[0][:-3] if names[0].endswith('[*]') else None
    ctx.require(hv is not None, 'Message.parse no longer keeps the header tuple in one variable')
    ctor = [x for x in calls_in(pf.node) if callee_name(x) == 'Message']
    ctx.require(len(ctor) == 1, 'anchor vanished: Message(...) in Message.parse')
    kw = {k.arg: k.value for k in ctor[0].keywords}
    direct = {'spi_i': 0, 'spi_r': 1, 'exchange_type': 4, 'message_id': 6}
    for k, i in direct.items():
        ctx.check(src(kw.get(k)) == '%s[%d]' % (hv, i), 'W1', 'IKE header: field %d becomes %s' % (i, k), key=('W1', 'header', 'decode', k),
                  site=ctx.site(pf, ctor[0]), detail={'found': src(kw.get(k))})
    fp = [x for x in calls_in(pf.node) if callee_name(x) == '_parse_payloads' and len(x.args) == 2 and hv in src(x.args[1])]
    ctx.check(len(fp) == 1 and src(fp[0].args[1]) == 'Payload.Type(%s[2])' % hv and src(fp[0].args[0]) == 'data[28:]', 'W1',
              'IKE header: field 2 is the type of the first payload, which starts at octet 28', key=('W1', 'header', 'first-payload'),
              site=ctx.site(pf, pf.node))
    pk = packs(tb)
    hp = [p for p in pk if fmt_text(p.args[0]) == fmt]
    ctx.check(len(hp) == 1, 'W1', 'IKE header: the encoder uses the same format', key=('W1', 'header', 'encode-format'), site=ctx.site(tb, tb.node))
    if len(hp) != 1:
        return
    ea = hp[0].args[1:]
    ctx.check(len(ea) == 8 and [src(ea[i]) for i in (0, 1, 4, 6)] == ['self.spi_i', 'self.spi_r', 'self.exchange_type', 'self.message_id'],
              'W1', 'IKE header: SPIi, SPIr, exchange type and Message ID are written at their positions', key=('W1', 'header', 'encode-direct'),
              site=ctx.site(tb, hp[0]), detail={'found': [src(a) for a in ea]})
    if len(ea) != 8:
        return
    fpt = single_def(res, tb, src(ea[2]))
    ctx.check(isinstance(fpt, ast.IfExp) and src(fpt.body).endswith('[0].type') and src(fpt.orelse).endswith('Type.NONE')
              and src(fpt.test) == src(fpt.body)[:-len('[0].type')], 'W4', 'IKE header: next payload = type of the first payload, NONE when empty',
              key=('W4', 'header-first'), site=ctx.site(tb, hp[0]))
    # flags: evaluate encode and decode expressions over all combinations
    bad = None
    for r in (False, True):
        for v in (False, True):
            for i in (False, True):
                enc = Interp(prog, tb, {'self.is_response': r, 'self.can_use_higher_version': v, 'self.is_initiator': i}).ev(ea[5])
                want_b = (0x20 if r else 0) | (0x10 if v else 0) | (0x08 if i else 0)
                dec = tuple(Interp(prog, pf, {hv: (0, 0, 0, 0, 0, enc | 0xC7 & 0, 0, 0)}).ev(kw[k])
                            for k in ('is_response', 'can_use_higher_version', 'is_initiator'))
                if enc != want_b or dec != (r, v, i):
                    bad = bad or (r, v, i, enc, dec)
    # stray bits must not confuse the decoder
    for stray in (0x01, 0x02, 0x04, 0x40, 0x80):
        dec = tuple(Interp(prog, pf, {hv: (0, 0, 0, 0, 0, stray, 0, 0)}).ev(kw[k]) for k in ('is_response', 'can_use_higher_version', 'is_initiator'))
        if dec != (False, False, False):
            bad = bad or ('stray', stray, dec)
    ctx.check(bad is None, 'W2', 'IKE header flags: R = 0x20, V = 0x10, I = 0x08 on encode and decode for all 8 combinations, other bits ignored',
              key=('W2', 'header-flags'), site=ctx.site(tb, hp[0]), detail={'counterexample': bad})
    bad = None
    for mj in range(16):
        for mn in range(16):
            enc = Interp(prog, tb, {'self.major': mj, 'self.minor': mn}).ev(ea[3])
            dmj = Interp(prog, pf, {hv: (0, 0, 0, enc, 0, 0, 0, 0)}).ev(kw['major'])
            dmn = Interp(prog, pf, {hv: (0, 0, 0, enc, 0, 0, 0, 0)}).ev(kw['minor'])
            if enc != mj * 16 + mn or (dmj, dmn) != (mj, mn):
                bad = bad or (mj, mn, enc, dmj, dmn)
    ctx.check(bad is None, 'W2', 'IKE header version: major in the high nibble, minor in the low nibble, both directions (256 cases)',
              key=('W2', 'header-version'), site=ctx.site(tb, hp[0]), detail={'counterexample': bad})
    ctx.check(isinstance(ea[7], ast.Constant) and ea[7].value == 28, 'W2', 'IKE header length starts as the header size and is patched below',
              key=('W2', 'header-len-init'), site=ctx.site(tb, hp[0]))
    pi = [x for x in calls_in(tb.node) if callee_name(x) == 'pack_into' and src(x.args[0]) == "'>L'"]
    ctx.check(len(pi) == 1 and [src(a) for a in pi[0].args[1:]] == ['data', '24', 'len(data)'], 'W2',
              'IKE header length (offset 24) = total length of the message', key=('W2', 'header-length'), site=ctx.site(tb, tb.node))


def check_generic_header(ctx, esc):
    prog, res = ctx.prog, ctx.res
    c = prog.cls(M + 'Message')
    pp, pb = c.lookup('_parse_payloads'), c.lookup('_payloads_to_bytes')
    u = unpacks(pp)
    ctx.require(len(u) == 1, 'anchor vanished: generic payload header unpack')
    fmt, names, off, call, _ = u[0]
    ctx.check(layout(fmt)[0] == [(0, 1), (1, 1), (2, 2)] and src(off) == 'offset' and len(names) == 3, 'W1',
              'Generic payload header (3.2): next payload, C|RESERVED, length at each payload', key=('W1', 'generic', 'decode'),
              site=ctx.site(pp, call))
    nxt, crit, ln = names
    cd = [n for n in walk_no_nested(pp.node) if isinstance(n, ast.Assign) and src(n.targets[0]) == crit and n.value is not call]
    ok = len(cd) == 1
    if ok:
        vals = {b: Interp(prog, pp, {crit: b}).ev(cd[0].value) for b in (0x00, 0x80, 0x7F, 0xFF, 0x01)}
        ok = vals == {0x00: False, 0x80: True, 0x7F: False, 0xFF: True, 0x01: False}
    ctx.check(ok, 'W2', 'Generic payload header: the critical flag is bit 7 of the second octet (decode)', key=('W2', 'critical-decode'),
              site=ctx.site(pp, pp.node))
    st, en = single_def(res, pp, 'start'), single_def(res, pp, 'end')
    adv = [n for n in walk_no_nested(pp.node) if isinstance(n, ast.AugAssign) and src(n.target) == 'offset']
    pc = [x for x in calls_in(pp.node) if callee_name(x) == 'parse']
    ok = isinstance(st, ast.AST) and src(st) == 'offset + 4' and isinstance(en, ast.AST) and src(en) == 'offset + %s' % ln \
        and len(adv) == 1 and src(adv[0].value) == ln and len(pc) == 1 and [src(a) for a in pc[0].args] == ['data[start:end]', crit]
    ctx.check(ok, 'W2', 'Generic payload header: the body is the announced length minus the 4 header octets and is parsed together with '
              'the critical flag; the cursor advances by the announced length', key=('W2', 'generic-slices'), site=ctx.site(pp, pp.node))
    pk = packs(pb)
    ctx.check(len(pk) == 1 and layout(fmt_text(pk[0].args[0]))[0] == [(0, 1), (1, 1), (2, 2)], 'W1',
              'Generic payload header: written before each payload', key=('W1', 'generic', 'encode'), site=ctx.site(pb, pb.node))
    if len(pk) != 1:
        return
    a = pk[0].args[1:]
    pv = None
    for n in walk_no_nested(pb.node):
        if isinstance(n, ast.Assign) and isinstance(n.value, ast.Subscript) and src(n.value.value) == 'payloads' \
                and isinstance(n.targets[0], ast.Name):
            pv = n.targets[0].id
    ok = pv is not None
    if ok:
        try:
            vals = {b: Interp(prog, pb, {pv + '.critical': b}).ev(a[1]) for b in (False, True)}
            ok = vals == {False: 0, True: 0x80}
        except AnalysisError:
            ok = False
    ctx.check(ok, 'W2', 'Generic payload header: the encoder places the payload\'s critical flag at bit 7 of the second octet (a payload '
              'built with critical=True survives serialisation)', key=('W2', 'critical-encode'), site=ctx.site(pb, pk[0]),
              detail={'found': src(a[1])})
    body = src(a[2])
    m_ = re.match(r'^len\((\w+)\) \+ 4$', body)
    ok = m_ is not None
    if ok:
        bd = single_def(res, pb, m_.group(1))
        adds = [src(n.value) for n in walk_no_nested(pb.node) if isinstance(n, ast.AugAssign)]
        ok = isinstance(bd, ast.Call) and callee_name(bd) == 'to_bytes' and src(bd.func.value) == pv and m_.group(1) in adds
    ctx.check(ok, 'W2', 'Generic payload header: length = payload body + 4, and the body follows', key=('W2', 'generic-length'),
              site=ctx.site(pb, pk[0]), detail={'found': body})


def check_chain(ctx, esc):
    prog, res = ctx.prog, ctx.res
    c = prog.cls(M + 'Message')
    pp, pb, tb, pf = c.lookup('_parse_payloads'), c.lookup('_payloads_to_bytes'), c.lookup('to_bytes'), c.lookup('parse')
    g = esc.add_exception_edges(pp)
    u = unpacks(pp)[0]
    nxt, crit, ln = u[1]
    # decode: loop driven by the type announced by the previous header
    wl = [l for h, l in g.loops if isinstance(l, ast.While)]
    ok = len(wl) == 1 and src(wl[0].test) == 'payload_type != Payload.Type.NONE'
    asg = [n for n in walk_no_nested(pp.node) if isinstance(n, ast.Assign) and src(n.targets[0]) == 'payload_type']
    ok = ok and sorted(src(n.value) for n in asg) == sorted([pp.call_params()[1], nxt])
    look = [n for n in walk_no_nested(pp.node) if isinstance(n, ast.Subscript) and src(n.value) == 'cls.type_2_payload']
    ok = ok and len(look) == 1 and src(look[0].slice) == 'payload_type'
    ctx.check(ok, 'W4', 'decode: each payload is parsed as the type announced by the previous header (the first by the caller), until NONE',
              key=('W4', 'decode-chain'), site=ctx.site(pp, pp.node))
    # end-of-data check dominates every normal return
    conds = [n for n in g.nodes if n.kind == 'cond' and compare_parts(n.ast) and {src(compare_parts(n.ast)[0]), src(compare_parts(n.ast)[2])} == {
        'offset', 'len(data)'} and compare_parts(n.ast)[1] in (ast.NotEq, ast.Eq)]
    ok = len(conds) == 1
    if ok:
        cnd = conds[0]
        passing = 'F' if compare_parts(cnd.ast)[1] is ast.NotEq else 'T'
        failing = 'T' if passing == 'F' else 'F'
        fn = [m for lab, m in cnd.succ if lab == failing]
        ok = bool(fn) and all(isinstance(m.ast, ast.Raise) and 'InvalidSyntax' in src(m.ast) for m in fn)
        blocked = [(cnd.id, passing, m.id) for lab, m in cnd.succ if lab == passing]
        ok = ok and g.exit.id not in g.reach([g.entry], blocked_edges=blocked, follow_exc=False)
    ctx.check(ok, 'W4', 'decode: a payload chain that does not end exactly at the end of the data raises InvalidSyntax (the check '
              'dominates every normal return)', key=('W4', 'end-of-data'), site=ctx.site(pp, pp.node))
    # unknown payloads
    hs = [h for h in g.nodes if h.kind == 'handler' and h.ast.type is not None and src(h.ast.type) == 'KeyError']
    ok = len(hs) == 1
    if ok:
        ifs = [s for s in hs[0].ast.body if isinstance(s, ast.If)]
        ok = len(ifs) == 1 and src(ifs[0].test) == crit and isinstance(ifs[0].body[-1], ast.Raise) \
            and 'UnsupportedCriticalPayload' in src(ifs[0].body[-1]) and not ifs[0].orelse \
            and not any(isinstance(s, (ast.Raise, ast.Return, ast.Continue, ast.Break)) for s in hs[0].ast.body)
        adv = [n for n in g.nodes if n.kind == 'stmt' and isinstance(n.ast, ast.AugAssign) and src(n.ast.target) == 'offset']
        ok = ok and len(adv) == 1 and adv[0].id in g.reach([hs[0]], follow_exc=False)
    ctx.check(ok, 'W4', 'decode: an unknown payload type is rejected as UnsupportedCriticalPayload when critical, else skipped by its length',
              key=('W4', 'unknown-payload'), site=ctx.site(pp, pp.node))
    # SK: inner first type
    ifs = [n for n in walk_no_nested(pp.node) if isinstance(n, ast.If) and src(n.test) == 'payload_type == Payload.Type.SK']
    ok = len(ifs) == 1 and [src(s) for s in ifs[0].body] == ['payload.next_payload_type = %s' % nxt, '%s = Payload.Type.NONE' % nxt]
    ic = [x for x in calls_in(pf.node) if callee_name(x) == '_parse_payloads' and 'next_payload_type' in src(x.args[1])]
    ok = ok and len(ic) == 1 and src(ic[0].args[1]) == 'payload_sk.next_payload_type'
    ctx.check(ok, 'W4', 'decode: the SK payload ends the outer chain and its next-payload field types the first inner payload',
              key=('W4', 'sk-decode'), site=ctx.site(pp, pp.node))
    skn = [n for n in walk_no_nested(tb.node) if isinstance(n, ast.Assign) and src(n.targets[0]).endswith('.next_payload_type')]
    ok = len(skn) == 1 and isinstance(skn[0].value, ast.IfExp) and src(skn[0].value.body) == 'self.encrypted_payloads[0].type' \
        and src(skn[0].value.test) == 'self.encrypted_payloads' and src(skn[0].value.orelse).endswith('Type.NONE')
    ctx.check(ok, 'W4', 'encode: the SK payload announces the type of the first encrypted payload (NONE when there is none)',
              key=('W4', 'sk-encode'), site=ctx.site(tb, tb.node))
    # encode chain
    pk = packs(pb)
    nv = src(pk[0].args[1]) if pk else None
    defs = [d for d in res.local_defs(pb).get(nv, []) if isinstance(d, ast.AST)] if nv else []
    ok = sorted(src(d) for d in defs) == sorted(['payloads[index + 1].type', 'payload.next_payload_type', 'Payload.Type.NONE'])
    ifs = [n for n in walk_no_nested(pb.node) if isinstance(n, ast.If) and src(n.test) == 'index < len(payloads) - 1']
    ok = ok and len(ifs) == 1 and src(ifs[0].body[0].value) == 'payloads[index + 1].type' and len(ifs[0].orelse) == 1 \
        and isinstance(ifs[0].orelse[0], ast.If) and src(ifs[0].orelse[0].test) == 'payload.type == Payload.Type.SK'
    ctx.check(ok, 'W4', 'encode: each header announces the type of the following payload; the last announces NONE (SK: its inner first type)',
              key=('W4', 'encode-chain'), site=ctx.site(pb, pb.node))
    loops = [n for n in walk_no_nested(pb.node) if isinstance(n, ast.For)]
    ctx.check(len(loops) == 1 and src(loops[0].iter) in ('range(0, len(payloads))', 'range(len(payloads))'), 'W4',
              'encode: every payload is written, in order', key=('W4', 'encode-loop'), site=ctx.site(pb, pb.node))


def check_dump(ctx):
    prog, res = ctx.prog, ctx.res
    mod = prog.module('message')
    n = 0
    for c in mod.classes.values():
        td = c.lookup('to_dict')
        init = c.lookup('__init__')
        if td is None or init is None or 'to_dict' not in c.methods and not any('to_dict' in k.methods for k in c.mro()):
            continue
        # attributes assigned in every __init__ along the MRO from constructor parameters
        attrs = set()
        for k in c.mro():
            i = k.methods.get('__init__')
            if i is None:
                continue
            for s in walk_no_nested(i.node):
                if isinstance(s, ast.Assign) and isinstance(s.targets[0], ast.Attribute) and src(s.targets[0].value) == 'self' \
                        and any(isinstance(x, ast.Name) and x.id in i.call_params() for x in ast.walk(s.value)):
                    attrs.add(s.targets[0].attr)
        read = set()
        seen = set()
        todo = [c.lookup('to_dict')]
        while todo:
            f = todo.pop()
            if f is None or f.qual in seen:
                continue
            seen.add(f.qual)
            for x in walk_no_nested(f.node):
                if isinstance(x, ast.Attribute) and src(x.value) == 'self':
                    read.add(x.attr)
                    m_ = f.cls.lookup(x.attr) if f.cls else None
                    if m_ is not None and m_.qual not in seen:
                        todo.append(m_)
                if isinstance(x, ast.Call) and isinstance(x.func, ast.Attribute) and x.func.attr == 'to_dict' \
                        and isinstance(x.func.value, ast.Call) and src(x.func.value.func) == 'super':
                    for k in f.cls.mro()[1:]:
                        if 'to_dict' in k.methods:
                            todo.append(k.methods['to_dict'])
                            break
        skip = {'crypto', 'iv'} if c.name == 'Message' else set()
        for a in sorted(attrs - skip):
            n += 1
            ctx.check(a in read, 'W5', '%s.to_dict shows field `%s`' % (c.name, a), key=('W5', c.name, a), site=ctx.site(td, td.node))
    ctx.floor('W5 decoded fields that must appear in the dump', n, 40)
    mt = ctx.func('message.Message.to_dict')
    t = src(mt.node)
    ctx.check('[x.to_dict() for x in self.payloads]' in t and '[x.to_dict() for x in self.encrypted_payloads]' in t, 'W5',
              'Message.to_dict dumps every clear and every encrypted payload', key=('W5', 'both-lists'), site=ctx.site(mt, mt.node))
    pt = ctx.func('message.Payload.to_dict')
    ctx.check("'type', self.type.name" in src(pt.node), 'W5', 'every payload dump names its type', key=('W5', 'payload-type'),
              site=ctx.site(pt, pt.node))
    lm = ctx.func('ikesa.IkeSa.log_message')
    ctx.check('message.to_dict()' in src(lm.node) and 'json.dumps' in src(lm.node), 'W5', 'log_message writes the structured dump',
              key=('W5', 'log-message'), site=ctx.site(lm, lm.node))
    sites = {}
    for fi in prog.cls('ikesa.IkeSa').methods.values():
        for x in calls_in(fi.node):
            if callee_name(x) == 'log_message':
                sites.setdefault(fi.name, []).append(x)
    ctx.check(set(sites) == {'process_message', '_process_request', '_send_request'}, 'W5',
              'every received message (process_message) and every sent message (_process_request, _send_request) is logged',
              key=('W5', 'log-sites'), detail={'found': sorted(sites)})
    pm = ctx.func('ikesa.IkeSa.process_message')
    first = [s for s in pm.node.body if not (isinstance(s, ast.Expr) and isinstance(s.value, ast.Constant))][:2]
    ctx.check(len(first) == 2 and 'Message.parse(' in src(first[0]) and 'self.log_message(' in src(first[1]), 'W5',
              'a received message is logged right after it was parsed, before any check can drop it', key=('W5', 'log-received-first'),
              site=ctx.site(pm, pm.node))


MANIFEST = {
    'level': 'Static decision of codec sibling agreement against an independent third description: for every structure of RFC 7296 '
             'section 3 the decoder\'s and the encoder\'s struct layouts are compared field by field (offset, width) with a table '
             'transcribed from the RFC, each decoded field is followed by def-use into the attribute the encoder writes at that '
             'position, RESERVED ranges are ignored/zeroed; flag bits, version nibbles, the critical bit, more-markers, +4 length '
             'conventions, selector length/address width and the KEYLEN attribute are evaluated by the checker\'s interpreter over '
             'all relevant values; registry/type agreement and ~200 enum constants against the IANA registry; payload-chain wiring, '
             'the end-of-data check dominating every normal return, unknown-payload handling; attribute coverage of every to_dict and '
             'the three log sites.',
    'note': 'Trusted: transcription of the RFC/IANA tables. Declined: round-trip and idempotence over all byte strings; comparison '
            'with an independent encoder on concrete messages.',
    'technique': 'sibling codec comparison against an RFC layout table + def-use flow + finite evaluation of bit arithmetic',
    'design_ref': 'DESIGN.md 3/C05',
}
