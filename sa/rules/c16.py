"""C16 - Datagrams reach the right IKE_SA and the IKE_SA table stays exact.

D1 (A5)  lookup orientation: the SPI of the receiver's role selects the IKE_SA; unknown SPI
         and unknown expiring SPI have no effect; responder IkeSa construction.
D2 (A8)  table discipline: an appended element is fresh or guarded by a membership test
         (exactly-once registration); a failed event undoes its registration; removal is
         paired with kernel teardown.
D3 (A3)  the rekey registration observes exactly the states in which a successor exists.
D4 (A7)  the status query reports the table itself with SPIs, role, state and CHILD_SAs.
"""
import ast

from ..model import src, walk_no_nested
from ..resolve import bind_args
from .. import tq
from ..sval import strip_ids
from . import common

EXPLANATION = ('static analysis: provenance of the lookup key and of the responder IkeSa arguments, ownership rules over '
               'the ike_sas list (freshness / membership guard / undo on exceptional exits / paired teardown) on every '
               'CFG path, typestate-derived set of states with a live successor, and completeness of the status dump')
ASSUMPTIONS = [
    'declined: multi-IKE_SA histories and duplication patterns as such; the per-path rules hold for every history',
]


def run(ctx):
    prog, res = ctx.prog, ctx.res
    esc = ctx.escape('engine', kills=common.engine_kills(ctx))
    dm = ctx.func('ikesacontroller.IkeSaController.dispatch_message')
    g = esc.add_exception_edges(dm)

    # ---------------------------------------------------------------- D1
    defs = res.local_defs(dm)
    hdr = [v for v in defs.get('header', []) if isinstance(v, ast.Call)]
    ok = len(hdr) == 1 and src(hdr[0].func) == 'Message.parse' and any(
        k.arg == 'header_only' and isinstance(k.value, ast.Constant) and k.value.value is True for k in hdr[0].keywords)
    ctx.check(ok, 'D1', 'dispatch_message routes on the parsed header of the datagram', key=('D1', 'header-parse'),
              site=ctx.site(dm, dm.node))
    lookups = common.nodes_calling(ctx, dm, g, common.calls_named('_get_ike_sa_by_spi'))
    ctx.floor('the lookup of the IKE_SA by SPI in dispatch_message', len(lookups), 1, rule='D1')
    for n, x in lookups:
        arg = x.args[0]
        key = None
        if isinstance(arg, ast.Name) and len(defs.get(arg.id, [])) == 1:
            key = defs[arg.id][0]
        elif isinstance(arg, ast.IfExp):
            key = arg
        good = isinstance(key, ast.IfExp) and (
            (src(key.test) == 'header.is_initiator' and src(key.body) == 'header.spi_r' and src(key.orelse) == 'header.spi_i')
            or (src(key.test) in ('not header.is_initiator', 'header.is_responder') and src(key.body) == 'header.spi_i'
                and src(key.orelse) == 'header.spi_r'))
        ctx.check(good, 'D1', 'the lookup key is the SPI of the receiver\'s role: spi_r when the sender is the original '
                  'initiator, else spi_i (`%s`)' % (src(key) if key is not None else src(arg)),
                  key=('D1', 'lookup-key'), site=ctx.site(dm, x))
        # StopIteration -> return None without effect
        hs = [h for (tr, part, hn) in n.try_ctx if part == 'body' for h in hn
              if 'StopIteration' in src(h.ast.type)]
        ctx.check(bool(hs), 'D1', 'a datagram for an unknown SPI is handled (StopIteration caught at the lookup)',
                  key=('D1', 'unknown-spi-unhandled'), site=ctx.site(dm, x))
        for h in hs:
            r = g.reach([h], follow_exc=False)
            effects = [m for m in g.nodes if m.id in r and m.kind == 'stmt' and (
                isinstance(m.ast, (ast.Assign, ast.AugAssign)) and 'self.' in src(m.ast.targets[0] if isinstance(
                    m.ast, ast.Assign) else m.ast.target) or any(
                    isinstance(c, ast.Call) and isinstance(c.func, ast.Attribute) and c.func.attr in (
                        'process_message', 'append', 'remove', 'delete_child_sas') for c in ast.walk(m.ast)))]
            rets = [m for m in g.nodes if m.id in r and m.kind == 'stmt' and isinstance(m.ast, ast.Return)]
            ctx.check(not effects and rets and all(m.ast.value is None or src(m.ast.value) == 'None' for m in rets),
                      'D1', 'a datagram for an unknown SPI is dropped without changing anything',
                      key=('D1', 'unknown-spi-effect'), site=ctx.site(dm, h.ast))
    by_spi = ctx.func('ikesacontroller.IkeSaController._get_ike_sa_by_spi')
    t = src(by_spi.node.body[-1])
    ctx.check('x.my_spi == spi' in t and 'self.ike_sas' in t, 'D1', 'the lookup compares the local SPI of each table entry',
              key=('D1', 'lookup-compare'), site=ctx.site(by_spi, by_spi.node))
    # responder creation
    ctors = [(n, x) for n, x in common.nodes_calling(ctx, dm, g, lambda c, r: r.kind == 'ctor' and r.cls.qual == 'ikesa.IkeSa')]
    ctx.floor('D1 responder IkeSa construction', len(ctors), 1)
    ikinit = ctx.func('ikesa.IkeSa.__init__')
    for n, x in ctors:
        b = {k: src(v) for k, v in bind_args(x, ikinit).items()}
        conf = None
        if 'configuration' in b and b['configuration'] in defs and len(defs[b['configuration']]) == 1:
            conf = src(defs[b['configuration']][0])
        exp = {'is_initiator': 'False', 'peer_spi': 'header.spi_i', 'my_addr': 'ip_address(my_addr)',
               'peer_addr': 'ip_address(peer_addr)'}
        for k, v in exp.items():
            ctx.check(b.get(k) == v, 'D1', 'the responder IKE_SA is created with %s=%s' % (k, v),
                      key=('D1', 'responder-arg', k), site=ctx.site(dm, x), detail={'found': b.get(k)})
        ctx.check(conf is not None and 'get_ike_configuration(ip_address(my_addr), ip_address(peer_addr))' in conf,
                  'D1', 'its configuration is looked up by (local address, peer address) of the datagram',
                  key=('D1', 'responder-conf'), site=ctx.site(dm, x), detail={'found': conf})
        conds = [c for c in g.nodes if c.kind == 'cond']
        c1 = [c for c in conds if src(c.ast) == 'header.exchange_type == Message.Exchange.IKE_SA_INIT']
        c2 = [c for c in conds if src(c.ast) == 'header.is_request']
        ctx.check(any(common.dominated_by_edge(g, n, c, 'T') for c in c1)
                  and any(common.dominated_by_edge(g, n, c, 'T') for c in c2), 'D1',
                  'a fresh responder IKE_SA is created only for an IKE_SA_INIT request',
                  key=('D1', 'responder-branch'), site=ctx.site(dm, x))
    byc = ctx.func('ikesacontroller.IkeSaController._get_ike_sa_by_child_sa_spi')
    t = src(byc.node)
    ctx.check('child_sa.inbound_spi == spi' in t and 'child_sa.outbound_spi == spi' in t and 'return None' in t
              and 'for ike_sa in self.ike_sas' in t, 'D1',
              'an expiry notice is routed to the IKE_SA owning the SPI (inbound or outbound), else to nobody',
              key=('D1', 'expire-lookup'), site=ctx.site(byc, byc.node))
    pe = ctx.func('ikesacontroller.IkeSaController.process_expire')
    gp = esc.add_exception_edges(pe)
    calls = common.nodes_calling(ctx, pe, gp, lambda c, r: any(t.qual == 'ikesa.IkeSa.process_expire' for t in r.targets))
    ctx.floor('D1 IkeSa.process_expire call in the controller', len(calls), 1)
    for n, x in calls:
        recv = src(x.func.value)
        conds = [c for c in gp.nodes if c.kind == 'cond' and src(c.ast) in (recv, '%s is not None' % recv)]
        ctx.check(any(common.dominated_by_edge(gp, n, c, 'T') for c in conds), 'D1',
                  'an expiry notice for an unknown SPI is ignored', key=('D1', 'expire-unknown'), site=ctx.site(pe, x))

    # ---------------------------------------------------------------- D2
    ctrl = prog.cls('ikesacontroller.IkeSaController')
    nsites = 0
    for fi in ctrl.methods.values():
        gg = esc.add_exception_edges(fi)
        for n, x in common.nodes_calling(ctx, fi, gg, common.calls_named('append')):
            if not src(x.func.value).endswith('ike_sas') or not x.args:
                continue
            nsites += 1
            elem = x.args[0]
            et = src(elem)
            fresh = False
            if isinstance(elem, ast.Name):
                # every definition reaching the append must be a construction in this function, and the
                # construction must dominate the append
                for cn, cx in common.nodes_calling(ctx, fi, gg, lambda c, r: r.kind == 'ctor' and r.cls.qual == 'ikesa.IkeSa'):
                    if isinstance(cn.ast, ast.Assign) and src(cn.ast.targets[0]) == et \
                            and n.id not in gg.reach([gg.entry], blocked_nodes=[cn]):
                        # no other assignment of the name between construction and append
                        others = [m for m in gg.nodes if m is not cn and m.kind == 'stmt' and isinstance(m.ast, ast.Assign)
                                  and any(src(t) == et for t in m.ast.targets)
                                  and m.id in gg.reach([cn]) and n.id in gg.reach([m])]
                        fresh = not others
            guard = False
            for c in gg.nodes:
                if c.kind == 'cond' and isinstance(c.ast, ast.Compare) and src(c.ast.left) == et \
                        and src(c.ast.comparators[0]).endswith('ike_sas'):
                    lab = 'T' if isinstance(c.ast.ops[0], ast.NotIn) else 'F' if isinstance(c.ast.ops[0], ast.In) else None
                    if lab and common.dominated_by_edge(gg, n, c, lab):
                        guard = True
            ctx.check(fresh or guard, 'D2', '`ike_sas.append(%s)` in %s registers a freshly constructed IKE_SA or is '
                      'guarded by a membership test (registered exactly once)' % (et, fi.name),
                      key=('D2', fi.qual, 'append-not-once', et), site=ctx.site(fi, x))
    ctx.floor('D2 ike_sas.append sites', nsites, 3)
    common.table_insert_undo(ctx, esc, 'D2')
    common.deleted_observed(ctx, esc, 'D2')
    # removal only of entries known to be in the table
    for fi in ctrl.methods.values():
        gg = esc.add_exception_edges(fi)
        for n, x in common.nodes_calling(ctx, fi, gg, common.calls_named('remove')):
            if src(x.func.value).endswith('ike_sas'):
                v = (n.raises or {}).get('ValueError', {})
                mine = [o for o in v if 'list.remove' in o and fi.qual in o]
                # the element was looked up in / iterated from the table, or registered by this very event
                known = not mine or any(part == 'handler' for (_, part, _) in n.try_ctx) or \
                    src(x.args[0]) in ('ike_sa', 'ikesa')
                ctx.check(known, 'D2', 'the entry removed in %s is known to be in the table' % fi.name,
                          key=('D2', fi.qual, 'remove-unknown'), site=ctx.site(fi, x))

    # ---------------------------------------------------------------- D3
    ts = common.typestate(ctx, esc)
    S = ts.S
    ikesa = prog.cls('ikesa.IkeSa')
    live = set()
    nest = 0
    for fi in ikesa.methods.values():
        gg = esc.add_exception_edges(fi)
        for n in gg.nodes:
            if n.kind == 'stmt' and isinstance(n.ast, ast.Assign) and any(
                    src(t) == 'self.new_ike_sa.state' for t in n.ast.targets) \
                    and common.state_name(n.ast.value) == 'ESTABLISHED':
                nest += 1
                arriving = ts.states_at(fi, n)
                for (s2, k) in ts.flow_from(fi, n, arriving):
                    if k in ('ret', 'retv'):
                        live.add(s2)
    ctx.floor('D3 sites that establish the successor IKE_SA', nest, 2)
    regs = [(n, x) for n, x in common.nodes_calling(ctx, dm, g, common.calls_named('append'))
            if x.args and src(x.args[0]).endswith('.new_ike_sa')]
    ctx.floor('the registration of the rekeyed IKE_SA in dispatch_message', len(regs), 1, rule='D3')
    for n, x in regs:
        subj = src(x.args[0]).rsplit('.', 1)[0] + '.state'
        sets = [S.eval_cond(c.ast)[1] for c in g.nodes if c.kind == 'cond' and S.eval_cond(c.ast) is not None
                and S.eval_cond(c.ast)[0] == subj and common.dominated_by_edge(g, n, c, 'T')]
        obs = frozenset.intersection(*sets) if sets else None
        ctx.check(obs is not None and set(obs) == live, 'D3', 'the successor is registered exactly in the states in '
                  'which the old IKE_SA has an established successor: %s (observed: %s)' % (
                      sorted(live), sorted(obs) if obs is not None else None),
                  key=('D3', 'registration-states', ','.join(sorted(obs or []))), site=ctx.site(dm, x))
        # registration happens after the message was processed
        pm = [m for m, y in common.nodes_calling(ctx, dm, g, common.calls_named('process_message'))]
        ctx.check(all(n.id not in g.reach([g.entry], blocked_nodes=[m]) for m in pm), 'D3',
                  'registration looks at the state after the datagram was processed', key=('D3', 'registration-order'),
                  site=ctx.site(dm, x))

    # ---------------------------------------------------------------- D4
    ml = ctx.func('ikesacontroller.IkeSaController.main_loop')
    ML = ctx.sval(ml)
    table = ('attr', ('param', 'self'), 'ike_sas')
    td = [c for c in ML.calls if c.name == 'to_dict' and strip_ids(c.recv or ('undef',)) == ('elem', table, 0)]
    ctx.floor('the status query (to_dict of the table entries)', len(td), 1, rule='D4')
    sent = [c for c in ML.calls if c.name in ('sendall', 'send') and any(tq.contains(v, x.term) for x in td for v in c.args.values())]
    okq = bool(sent)
    for c in sent:
        lists = [t for v in c.args.values() for t in tq.find(v, lambda x: x[0] == 'list' and len(x) == 2 and any(
            isinstance(i, tuple) and i and i[0] == 'each' and tq.contains(i, td[0].term) for i in x[1]))]
        okq = okq and len(lists) >= 1 and all(len(t[1]) == 1 and strip_ids(t[1][0])[2] == table and not t[1][0][3] and
                                               t[1][0][4] in [x.term for x in td] for t in lists)
    ctx.check(okq, 'D4', 'the status query reports every entry of the table itself (one report per entry, no filter)',
              key=('D4', 'query-iterates'), site=ctx.site(ml, ml.node),
              detail={'sent': [tq.text(v, 300) for c in sent for v in c.args.values()]})
    itd = ctx.func('ikesa.IkeSa.to_dict')
    IT = ctx.sval(itd)
    rep = IT.ret()
    d = next((t for t in tq.find(rep, lambda x: x[0] == 'dict')), None) if rep[0] != 'dict' else rep
    ents = {e[0][2]: e[1] for e in d[1] if len(e) == 2 and e[0][0] == 'const'} if d is not None else {}
    for key, expr in (('my_spi', 'self.my_spi.hex()'), ('peer_spi', 'self.peer_spi.hex()'),
                      ('is_initiator', 'self.is_initiator'), ('state', 'self.state.name')):
        common.expect_term(ctx, 'D4', IT, ents.get(key), expr, 'IkeSa.to_dict reports %s' % key, ('D4', 'field', key), ctx.site(itd, itd.node))
    ch = ents.get('child_sas')
    okc = ch is not None and ch[0] == 'list' and len(ch[1]) == 1 and ch[1][0][0] == 'each' and not ch[1][0][3] and \
        strip_ids(ch[1][0][2]) == ('attr', ('param', 'self'), 'child_sas') and tq.is_call(ch[1][0][4]) and \
        strip_ids(ch[1][0][4][2]) == ('elem', ('attr', ('param', 'self'), 'child_sas'), 0) and any(
            c.name == 'to_dict' and c.term == ch[1][0][4] for c in IT.calls)
    ctx.check(okc, 'D4', 'IkeSa.to_dict reports child_sas (every CHILD_SA, each by its own to_dict)', key=('D4', 'field', 'child_sas'),
              site=ctx.site(itd, itd.node), detail={'found': tq.text(ch, 300) if ch is not None else None})
    ctd = prog.functions.get('ikesa.ChildSa.to_dict')
    ctx.require(ctd is not None, 'anchor vanished: ChildSa.to_dict')
    CT = ctx.sval(ctd)
    rep = CT.ret()
    keys = {e[0][2] for e in rep[1] if len(e) == 2 and e[0][0] == 'const'} if rep[0] == 'dict' else set()
    for key in ('spis', 'protocol', 'mode', 'selectors'):
        ctx.check(key in keys, 'D4', 'ChildSa.to_dict reports %s' % key, key=('D4', 'child-field', key), site=ctx.site(ctd, ctd.node))
    cstr = prog.functions.get('ikesa.ChildSa.__str__')
    ok = cstr is not None
    if ok:
        CS = ctx.sval(cstr)
        p0 = ('param', cstr.params[0]) if cstr.params else None
        ok = p0 is not None and all(tq.contains(CS.ret(), CS.expr('%s.%s.hex()' % (p0[1], f))) for f in ('inbound_spi', 'outbound_spi'))
    ctx.check(ok, 'D4', 'the CHILD_SA dump shows both SPIs', key=('D4', 'child-spis'))


MANIFEST = {
    'level': 'Static decision on every path of the controller: provenance of the lookup key and of the responder '
             'IkeSa\'s arguments; ownership discipline of the ike_sas list (an appended element is fresh or '
             'membership-guarded, every exceptional exit after a registration undoes it or finds the entry DELETED, '
             'every removal is paired with kernel teardown); the state set guarding the rekey registration equals the '
             'typestate-derived set of states with an established successor; the status dump is complete.',
    'note': 'Trusted: resolver typing, effect catalogue. Declined: histories with many IKE_SAs as such.',
    'technique': 'provenance + ownership/pairing rules over CFG paths + typestate',
    'design_ref': 'DESIGN.md 3/C16',
}
