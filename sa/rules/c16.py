"""C16 - Datagrams reach the right IKE_SA and the IKE_SA table stays exact.

D1 (A5)  lookup orientation: the SPI of the receiver's role selects the IKE_SA; unknown SPI
         and unknown expiring SPI have no effect; responder IkeSa construction.
D2 (A8)  table discipline: an appended element is fresh or guarded by a membership test
         (exactly-once registration); a failed event undoes its registration; removal is
         paired with kernel teardown.
D3 (A3)  the rekey registration observes exactly the states in which a successor exists.
D4 (A7)  the status query reports the table itself with SPIs, role, state and CHILD_SAs.
"""
import ast

from ..model import src, walk_no_nested
from ..resolve import bind_args
from .. import tq
from ..sval import strip_ids
from . import common

EXPLANATION = ('static analysis: provenance of the lookup key and of the responder IkeSa arguments, ownership rules over '
               'the ike_sas list (freshness / membership guard / undo on exceptional exits / paired teardown) on every '
               'CFG path, typestate-derived set of states with a live successor, and completeness of the status dump')
ASSUMPTIONS = [
    'declined: multi-IKE_SA histories and duplication patterns as such; the per-path rules hold for every history',
]


def lookup_by_spi(ctx, rule):
    """the IKE_SA a datagram is handed to is an element of the controller's table (found by comparing the local SPI of each entry):
    an IKE_SA that was removed from the table is never handed a message again"""
    by_spi = ctx.func('ikesacontroller.IkeSaController._get_ike_sa_by_spi')
    BS = ctx.sval(by_spi)
    gen = '(x for x in self.ike_sas if x.my_spi == %s)' % by_spi.call_params()[0]
    ctx.check(strip_ids(BS.ret()) in (strip_ids(BS.expr('next(%s)' % gen)), strip_ids(BS.expr('next(%s, None)' % gen))), rule,
              'the lookup compares the local SPI of each table entry', key=(rule, 'lookup-compare'), site=ctx.site(by_spi, by_spi.node),
              detail={'returned': tq.text(BS.ret())})


def init_request_gets_fresh_ike_sa(ctx, rule):
    """an IKE_SA_INIT request is always executed by an IkeSa made for it: the controller never hands it to an IKE_SA it already has
    (whatever it was found by - addresses, the initiator's SPI: both are chosen by the sender), where the window code would answer it
    with a response stored for somebody else's request, or where its failure would take that IKE_SA down"""
    dm = ctx.func('ikesacontroller.IkeSaController.dispatch_message')
    DM = ctx.sval(dm)
    dps = dm.call_params()
    hdrs = [c for c in DM.calls_to(qual='message.Message.parse')]
    ctors = DM.calls_to(callee='new ikesa.IkeSa')
    pms = DM.calls_to(qual='ikesa.IkeSa.process_message')
    ctx.floor('%s process_message hand-over in dispatch_message' % rule, len(pms), 1, rule=rule)
    if not hdrs or not ctors:
        ctx.check(False, rule, 'dispatch_message parses the header and creates responder IKE_SAs', key=(rule, 'init-fresh', 'anchors'),
                  site=ctx.site(dm, dm.node))
        return
    H = strip_ids(hdrs[0].term)
    is_init = strip_ids(DM.mk_cmp('==', ('attr', H, 'exchange_type'), DM.expr('Message.Exchange.IKE_SA_INIT')))
    is_req = ('attr', H, 'is_request')

    def decide(t):
        t = strip_ids(t)
        if t == is_init or t == is_req:
            return True
        if t == ('attr', H, 'is_response'):
            return False
        return None
    fresh = {strip_ids(c.term) for c in ctors}
    for c in pms:
        r = strip_ids(tq.restrict(c.recv or NONE, decide))
        ctx.check(r in fresh, rule, 'an IKE_SA_INIT request is processed by an IkeSa created for it, never by one the controller already holds',
                  key=(rule, 'init-fresh'), site=ctx.site(dm, c.node), detail={'receiver for an IKE_SA_INIT request': tq.text(r, 300)})


def successor_registration(ctx, esc, rule):
    """the controller's table gains the IKE_SA made by a rekey exactly when the old IKE_SA is in a state in which that successor is
    established (REKEYED on the responder, DEL_AFTER_REKEY_IKE_SA_REQ_SENT on the initiator) - never a half-built object that a refused
    or still outstanding rekey left behind (it would be found by address and by SPI like a real IKE_SA)"""
    prog = ctx.prog
    dm = ctx.func('ikesacontroller.IkeSaController.dispatch_message')
    g = esc.add_exception_edges(dm)
    ts = common.typestate(ctx, esc)
    S = ts.S
    ikesa = prog.cls('ikesa.IkeSa')
    live = set()
    nest = 0
    succ_state = ('attr', ('attr', ('param', 'self'), 'new_ike_sa'), 'state')
    for fi in ikesa.methods.values():
        if not isinstance(fi.node, ast.FunctionDef):
            continue
        gg = esc.add_exception_edges(fi)
        # by value term: `self.new_ike_sa.state = ...` also when the successor is held in a local
        sv_ = ctx.sval(fi)
        bases = {succ_state[1]} | {strip_ids(v) for t, v, pc, st, _ in sv_.stores if strip_ids(t) == succ_state[1]}
        est_stmts = {id(st) for t, v, pc, st, _ in sv_.stores if strip_ids(t)[0] == 'attr' and strip_ids(t)[2] == 'state'
                     and strip_ids(t)[1] in bases and tq.text(v).endswith('State.ESTABLISHED')}
        for n in gg.nodes:
            if n.kind == 'stmt' and isinstance(n.ast, ast.Assign) and id(n.ast) in est_stmts:
                nest += 1
                arriving = ts.states_at(fi, n)
                for (s2, k) in ts.flow_from(fi, n, arriving):
                    if k in ('ret', 'retv'):
                        live.add(s2)
    ctx.floor('%s sites that establish the successor IKE_SA' % rule, nest, 2)
    # ... and while the old IKE_SA is in one of those states the successor stays attached: nothing resets `new_ike_sa` to None there (the
    # controller would register None, and every later pass of its loops over the table fails on it)
    have = {'REKEYED', 'DEL_AFTER_REKEY_IKE_SA_REQ_SENT'}
    for fi in ikesa.methods.values():
        if not isinstance(fi.node, ast.FunctionDef) or fi.name == '__init__':
            continue
        gg = esc.add_exception_edges(fi)
        for n in gg.nodes:
            if n.kind == 'stmt' and isinstance(n.ast, ast.Assign) and isinstance(n.ast.value, ast.Constant) and n.ast.value.value is None \
                    and any(isinstance(t, ast.Attribute) and t.attr == 'new_ike_sa' and isinstance(t.value, ast.Name) and t.value.id == fi.self_name
                            for t in n.ast.targets):
                arriving = ts.states_at(fi, n)
                ctx.check(not (set(arriving) & have), rule, '%s: `%s` is not reached while the IKE_SA has an established successor (%s)' % (
                    fi.name, src(n.ast), ', '.join(sorted(have))), key=(rule, fi.qual, 'successor-dropped'), site=ctx.site(fi, n.ast),
                    detail={'arriving states': sorted(arriving)})

    def successor_of(e):
        """text of X when e reads X.new_ike_sa - directly or through a local bound once to it"""
        if isinstance(e, ast.Attribute) and e.attr == 'new_ike_sa':
            return src(e.value)
        if isinstance(e, ast.Name):
            defs = [st for st in ast.walk(dm.node) if isinstance(st, ast.Assign) and any(
                isinstance(t, ast.Name) and t.id == e.id for tg in st.targets for t in ast.walk(tg))]
            if len(defs) == 1 and len(defs[0].targets) == 1 and isinstance(defs[0].targets[0], ast.Name):
                return successor_of(defs[0].value)
        return None
    regs = [(n, x) for n, x in common.nodes_calling(ctx, dm, g, common.calls_named('append'))
            if x.args and src(x.func.value).endswith('ike_sas') and successor_of(x.args[0]) is not None]
    ctx.floor('the registration of the rekeyed IKE_SA in dispatch_message', len(regs), 1, rule=rule)
    for n, x in regs:
        subj = successor_of(x.args[0]) + '.state'
        sets = [S.eval_cond(c.ast)[1] for c in g.nodes if c.kind == 'cond' and S.eval_cond(c.ast) is not None
                and S.eval_cond(c.ast)[0] == subj and common.dominated_by_edge(g, n, c, 'T')]
        obs = frozenset.intersection(*sets) if sets else None
        ctx.check(obs is not None and set(obs) == live, rule, 'the successor is registered exactly in the states in '
                  'which the old IKE_SA has an established successor: %s (observed: %s)' % (
                      sorted(live), sorted(obs) if obs is not None else None),
                  key=(rule, 'registration-states', ','.join(sorted(obs or []))), site=ctx.site(dm, x))
        # registration happens after the message was processed
        pm = [m for m, y in common.nodes_calling(ctx, dm, g, common.calls_named('process_message'))]
        ctx.check(all(n.id not in g.reach([g.entry], blocked_nodes=[m]) for m in pm), rule,
                  'registration looks at the state after the datagram was processed', key=(rule, 'registration-order'),
                  site=ctx.site(dm, x))


def run(ctx):
    prog, res = ctx.prog, ctx.res
    esc = ctx.escape('engine', kills=common.engine_kills(ctx))
    dm = ctx.func('ikesacontroller.IkeSaController.dispatch_message')
    g = esc.add_exception_edges(dm)

    # ---------------------------------------------------------------- D1
    from ..sval import NONE, const
    DM = ctx.sval(dm)
    dps = dm.call_params()
    hdr = DM.expr('Message.parse(%s, header_only=True)' % dps[0])
    hdrs = [c for c in DM.calls_to(qual='message.Message.parse') if strip_ids(c.term) == strip_ids(hdr)]
    ctx.check(len(hdrs) >= 1, 'D1', 'dispatch_message routes on the parsed header of the datagram', key=('D1', 'header-parse'),
              site=ctx.site(dm, dm.node))
    H = hdrs[0].term if hdrs else hdr
    lookups = DM.calls_to(qual='ikesacontroller.IkeSaController._get_ike_sa_by_spi')
    ctx.floor('the lookup of the IKE_SA by SPI in dispatch_message', len(lookups), 1, rule='D1')
    for c in lookups:
        key = list(c.args.values())[0] if c.args else NONE
        vals = []
        for ini in (True, False):
            def leaf(t, ini=ini):
                t = strip_ids(t)
                if t == ('attr', strip_ids(H), 'is_initiator'):
                    return ini
                if t == ('attr', strip_ids(H), 'is_responder'):
                    return not ini
                if t == ('attr', strip_ids(H), 'spi_r'):
                    return 'SPIr'
                if t == ('attr', strip_ids(H), 'spi_i'):
                    return 'SPIi'
                raise tq.NoValue()
            try:
                vals.append(tq.teval(key, leaf))
            except (tq.NoValue, Exception):
                vals.append(None)
        ctx.check(vals == ['SPIr', 'SPIi'], 'D1', 'the lookup key is the SPI of the receiver\'s role: spi_r when the sender is the original '
                  'initiator, else spi_i', key=('D1', 'lookup-key'), site=ctx.site(dm, c.node), detail={'key': tq.text(key, 300)})
        # StopIteration -> return None without effect
        proto = common.lookup_protocol(ctx, 'ikesacontroller.IkeSaController._get_ike_sa_by_spi')

        def missed(pc):
            return common.lookup_missed(pc, proto, c.term)
        rets = [(pc, t) for pc, t, _ in DM.returns if missed(pc)]
        ctx.check(bool(rets), 'D1', 'a datagram for an unknown SPI is handled (the miss of the lookup - StopIteration caught, or None tested - is a path of its own)',
                  key=('D1', 'unknown-spi-unhandled'), site=ctx.site(dm, c.node))
        eff = [x for x in DM.calls if missed(x.pc) and (x.name in ('process_message', 'append', 'remove', 'delete_child_sas') or
                                                       any(q.startswith('ikesa.IkeSa.') and not q.split('.')[-1].startswith('log') for q in x.quals))]
        st_ = [x for x in DM.stores if missed(x[2])]
        ctx.check(bool(rets) and not eff and not st_ and all(t == NONE for _, t in rets), 'D1',
                  'a datagram for an unknown SPI is dropped without changing anything', key=('D1', 'unknown-spi-effect'),
                  site=ctx.site(dm, c.node))
    lookup_by_spi(ctx, 'D1')
    # what the dispatch goes by - exchange type, the R and I flags, the SPIs - is what the fixed header says: each field from its own
    # octets, each flag from its own bit (a reserved bit must not turn a request into a response), shared with C05 W2
    from .c05 import check_header
    check_header(ctx, esc, 'D1')
    init_request_gets_fresh_ike_sa(ctx, 'D1')
    # responder creation
    ctors = DM.calls_to(callee='new ikesa.IkeSa')
    ctx.floor('D1 responder IkeSa construction', len(ctors), 1)
    for c in ctors:
        b = {k: strip_ids(v) for k, v in c.args.items()}
        E = lambda text: strip_ids(DM.expr(text, dict(DM.entry_env, H=H)))   # noqa: E731
        exp = {'is_initiator': const(False), 'peer_spi': E('H.spi_i'), 'my_addr': E('ip_address(%s)' % dps[1]),
               'peer_addr': E('ip_address(%s)' % dps[2])}
        for k, v in exp.items():
            ctx.check(b.get(k) == v, 'D1', 'the responder IKE_SA is created with %s=%s' % (k, tq.text(v)),
                      key=('D1', 'responder-arg', k), site=ctx.site(dm, c.node), detail={'found': tq.text(b[k]) if k in b else None})
        ctx.check(b.get('configuration') == E('self.configuration.get_ike_configuration(ip_address(%s), ip_address(%s))' % (dps[1], dps[2])),
                  'D1', 'its configuration is looked up by (local address, peer address) of the datagram',
                  key=('D1', 'responder-conf'), site=ctx.site(dm, c.node), detail={'found': tq.text(b.get('configuration', NONE), 300)})
        goal = DM.expr('H.exchange_type == Message.Exchange.IKE_SA_INIT and H.is_request', dict(DM.entry_env, H=H))
        ctx.check(tq.entails(c.pc, goal) is True, 'D1', 'a fresh responder IKE_SA is created only for an IKE_SA_INIT request',
                  key=('D1', 'responder-branch'), site=ctx.site(dm, c.node))
    byc = ctx.func('ikesacontroller.IkeSaController._get_ike_sa_by_child_sa_spi')
    BC = ctx.sval(byc)
    sp = ('param', byc.call_params()[0])
    table = ('attr', ('param', 'self'), 'ike_sas')
    rets = [(strip_ids(pc), strip_ids(t)) for pc, t, _ in BC.returns]

    def first_of(pc, t):
        """`return next(x for x in T if C)` is `for x in T: if C: return x` (the exhausted case is the other return)"""
        if tq.is_call(t, 'builtins.next') and len(t[3]) == 1:
            g = t[3][0][1]
            if g[0] in ('list', 'tuple') and len(g[1]) == 1 and isinstance(g[1][0], tuple) and g[1][0][0] == 'each':
                ea = g[1][0]
                conds = tuple(ea[3])
                while isinstance(ea[4], tuple) and ea[4] and ea[4][0] == 'each':       # for x in T for y in x.c if C: one more loop inside
                    ea = ea[4]
                    conds += tuple(ea[3])
                return tuple(pc) + conds, ea[4]
        return pc, t
    rets = [first_of(pc, t) for pc, t in rets]
    rets = [(tuple(a for a in pc if a[0][0] != 'caught'), t) for pc, t in rets]

    def through_finder(pc):
        """`e.find(spi) is not None`, where `find` is a first-match search of one of e's lists that answers None when nothing matches
        (IkeSa.get_child_sa), is the search condition itself, over the elements of that list"""
        from ..sval import subst_params
        out = []
        for t, pol in pc:
            if t[0] == 'cmp' and t[1] == 'is' and t[3] == NONE and pol is False and t[2][0] == 'call' and isinstance(t[2][1], str):
                try:
                    cal = ctx.func(t[2][1])
                    CS = ctx.sval(cal)
                except Exception:
                    cal = None
                if cal is not None:
                    cr = [first_of(strip_ids(a), strip_ids(b)) for a, b, _ in CS.returns]
                    cr = [(tuple(x for x in a if x[0][0] != 'caught'), b) for a, b in cr]
                    found = [(a, b) for a, b in cr if b != NONE]
                    if len(found) == 1 and len(cr) == 2 and found[0][1][0] == 'elem' and found[0][0]:
                        m = {'self': t[2][2]}
                        m.update({k: v for k, v in t[2][3] if isinstance(k, str) and not k.startswith('#')})
                        out.extend((strip_ids(subst_params(a, m)), b) for a, b in found[0][0])
                        continue
            out.append((t, pol))
        return tuple(out)
    rets = [(through_finder(pc), t) for pc, t in rets]
    hit = [(pc, t) for pc, t in rets if t == ('elem', table, 0)]
    okc = len(hit) >= 1 and len(rets) == len(hit) + 1 and any(t == NONE for _, t in rets)
    if okc:
        from ..sval import pc_term, mk_bool
        ch = ('elem', ('attr', ('elem', table, 0), 'child_sas'), 0)
        want = [strip_ids(BC.mk_cmp('==', ('attr', ch, 'inbound_spi'), sp)), strip_ids(BC.mk_cmp('==', ('attr', ch, 'outbound_spi'), sp))]

        def flat(pc):
            """path condition with any(<generator>) replaced by the disjunction it tests"""
            out = []
            for a in pc:
                t = a[0]
                if t[0] == 'call' and t[1] == 'builtins.any':
                    inner = [x for x in tq.find(t, lambda y: y[0] in ('or', 'cmp'))]
                    t = inner[0] if inner else t
                out.append((t, a[1]))
            return tuple(out)
        hits = [flat(pc) for pc, _ in hit]
        goal = ('or', tuple(want))
        # a returned entry owns the SPI; and every owner is returned by one of the returns
        okc = all(tq.entails(h, goal) is True for h in hits) and all(
            tq.entails(((w, True),), mk_bool('or', tuple(strip_ids(pc_term(h)) for h in hits))) is True for w in want)
    ctx.check(okc, 'D1', 'an expiry notice is routed to the IKE_SA owning the SPI (inbound or outbound), else to nobody',
              key=('D1', 'expire-lookup'), site=ctx.site(byc, byc.node), detail={'returns': [(tq.text(t), [tq.text(a[0], 200) for a in pc]) for pc, t in rets]})
    pe = ctx.func('ikesacontroller.IkeSaController.process_expire')
    PE = ctx.sval(pe)
    calls = PE.calls_to(qual='ikesa.IkeSa.process_expire')
    ctx.floor('D1 IkeSa.process_expire call in the controller', len(calls), 1)
    for c in calls:
        recv = c.recv
        goals = [recv, ('not', PE.mk_cmp('is', recv, NONE))]
        ctx.check(any(tq.entails(c.pc, g_) is True for g_ in goals) and tq.is_call(recv, 'ikesacontroller.IkeSaController._get_ike_sa_by_child_sa_spi'),
                  'D1', 'an expiry notice for an unknown SPI is ignored', key=('D1', 'expire-unknown'), site=ctx.site(pe, c.node))

    # ---------------------------------------------------------------- D2
    ctrl = prog.cls('ikesacontroller.IkeSaController')
    nsites = 0
    for fi in ctrl.methods.values():
        gg = esc.add_exception_edges(fi)
        for n, x in common.nodes_calling(ctx, fi, gg, common.calls_named('append')):
            if not src(x.func.value).endswith('ike_sas') or not x.args:
                continue
            nsites += 1
            elem = x.args[0]
            et = src(elem)
            fresh = False
            if isinstance(elem, ast.Name):
                # every definition reaching the append must be a construction in this function, and the
                # construction must dominate the append
                for cn, cx in common.nodes_calling(ctx, fi, gg, lambda c, r: r.kind == 'ctor' and r.cls.qual == 'ikesa.IkeSa'):
                    if isinstance(cn.ast, ast.Assign) and src(cn.ast.targets[0]) == et \
                            and n.id not in gg.reach([gg.entry], blocked_nodes=[cn]):
                        # no other assignment of the name between construction and append
                        others = [m for m in gg.nodes if m is not cn and m.kind == 'stmt' and isinstance(m.ast, ast.Assign)
                                  and any(src(t) == et for t in m.ast.targets)
                                  and m.id in gg.reach([cn]) and n.id in gg.reach([m])]
                        fresh = not others
            guard = False
            for c in gg.nodes:
                if c.kind == 'cond' and isinstance(c.ast, ast.Compare) and src(c.ast.left) == et \
                        and src(c.ast.comparators[0]).endswith('ike_sas'):
                    lab = 'T' if isinstance(c.ast.ops[0], ast.NotIn) else 'F' if isinstance(c.ast.ops[0], ast.In) else None
                    if lab and common.dominated_by_edge(gg, n, c, lab):
                        guard = True
            ctx.check(fresh or guard, 'D2', '`ike_sas.append(%s)` in %s registers a freshly constructed IKE_SA or is '
                      'guarded by a membership test (registered exactly once)' % (et, fi.name),
                      key=('D2', fi.qual, 'append-not-once', et), site=ctx.site(fi, x))
    ctx.floor('D2 ike_sas.append sites', nsites, 3)
    common.table_insert_undo(ctx, esc, 'D2')
    common.deleted_observed(ctx, esc, 'D2')
    # removal only of entries known to be in the table
    for fi in ctrl.methods.values():
        gg = esc.add_exception_edges(fi)
        for n, x in common.nodes_calling(ctx, fi, gg, common.calls_named('remove')):
            if src(x.func.value).endswith('ike_sas'):
                v = (n.raises or {}).get('ValueError', {})
                mine = [o for o in v if 'list.remove' in o and fi.qual in o]
                # the element was looked up in / iterated from the table, or registered by this very event
                known = not mine or any(part == 'handler' for (_, part, _) in n.try_ctx) or \
                    src(x.args[0]) in ('ike_sa', 'ikesa')
                ctx.check(known, 'D2', 'the entry removed in %s is known to be in the table' % fi.name,
                          key=('D2', fi.qual, 'remove-unknown'), site=ctx.site(fi, x))

    common.parse_errors_propagate(ctx, 'D2')
    common.from_exception_total(ctx, esc, 'D2')
    # ---------------------------------------------------------------- D3
    # an entry leaves the table only in state DELETED; an IKE_SA that waits for a response reaches DELETED through the
    # retransmission timer's give-up edge, so every request-outstanding state has to be covered by that timer
    ts = common.typestate(ctx, esc)
    from .c09 import timer_coverage
    timer_coverage(ctx, ts, 'D2')
    successor_registration(ctx, esc, 'D3')
    # an entry that leaves the table takes its kernel state with it: the teardown it runs before the removal reaches every CHILD_SA
    from .c10 import kernel_teardown
    kernel_teardown(ctx, esc, 'D3')

    # ---------------------------------------------------------------- D4
    ml = ctx.func('ikesacontroller.IkeSaController.main_loop')
    ML = ctx.sval(ml)
    table = ('attr', ('param', 'self'), 'ike_sas')
    td = [c for c in ML.calls if c.name == 'to_dict' and strip_ids(c.recv or ('undef',)) == ('elem', table, 0)]
    ctx.floor('the status query (to_dict of the table entries)', len(td), 1, rule='D4')
    sent = [c for c in ML.calls if c.name in ('sendall', 'send') and any(tq.contains(v, x.term) for x in td for v in c.args.values())]
    okq = bool(sent)
    for c in sent:
        lists = [t for v in c.args.values() for t in tq.find(v, lambda x: x[0] == 'list' and len(x) == 2 and any(
            isinstance(i, tuple) and i and i[0] == 'each' and tq.contains(i, td[0].term) for i in x[1]))]
        okq = okq and len(lists) >= 1 and all(len(t[1]) == 1 and strip_ids(t[1][0])[2] == table and not t[1][0][3] and
                                               t[1][0][4] in [x.term for x in td] for t in lists)
    ctx.check(okq, 'D4', 'the status query reports every entry of the table itself (one report per entry, no filter)',
              key=('D4', 'query-iterates'), site=ctx.site(ml, ml.node),
              detail={'sent': [tq.text(v, 300) for c in sent for v in c.args.values()]})
    itd = ctx.func('ikesa.IkeSa.to_dict')
    IT = ctx.sval(itd)
    rep = IT.ret()
    d = next((t for t in tq.find(rep, lambda x: x[0] == 'dict')), None) if rep[0] != 'dict' else rep
    ents = {e[0][2]: e[1] for e in d[1] if len(e) == 2 and e[0][0] == 'const'} if d is not None else {}
    for key, expr in (('my_spi', 'self.my_spi.hex()'), ('peer_spi', 'self.peer_spi.hex()'),
                      ('is_initiator', 'self.is_initiator'), ('state', 'self.state.name')):
        common.expect_term(ctx, 'D4', IT, ents.get(key), expr, 'IkeSa.to_dict reports %s' % key, ('D4', 'field', key), ctx.site(itd, itd.node))
    ch = ents.get('child_sas')
    okc = ch is not None and ch[0] == 'list' and len(ch[1]) == 1 and ch[1][0][0] == 'each' and not ch[1][0][3] and \
        strip_ids(ch[1][0][2]) == ('attr', ('param', 'self'), 'child_sas') and tq.is_call(ch[1][0][4]) and \
        strip_ids(ch[1][0][4][2]) == ('elem', ('attr', ('param', 'self'), 'child_sas'), 0) and any(
            c.name == 'to_dict' and c.term == ch[1][0][4] for c in IT.calls)
    ctx.check(okc, 'D4', 'IkeSa.to_dict reports child_sas (every CHILD_SA, each by its own to_dict)', key=('D4', 'field', 'child_sas'),
              site=ctx.site(itd, itd.node), detail={'found': tq.text(ch, 300) if ch is not None else None})
    ctd = prog.functions.get('ikesa.ChildSa.to_dict')
    ctx.require(ctd is not None, 'anchor vanished: ChildSa.to_dict')
    CT = ctx.sval(ctd)
    rep = CT.ret()
    keys = {e[0][2] for e in rep[1] if len(e) == 2 and e[0][0] == 'const'} if rep[0] == 'dict' else set()
    for key in ('spis', 'protocol', 'mode', 'selectors'):
        ctx.check(key in keys, 'D4', 'ChildSa.to_dict reports %s' % key, key=('D4', 'child-field', key), site=ctx.site(ctd, ctd.node))
    cstr = prog.functions.get('ikesa.ChildSa.__str__')
    ok = cstr is not None
    if ok:
        CS = ctx.sval(cstr)
        p0 = ('param', cstr.params[0]) if cstr.params else None
        ok = p0 is not None and all(tq.contains(CS.ret(), CS.expr('%s.%s.hex()' % (p0[1], f))) for f in ('inbound_spi', 'outbound_spi'))
    ctx.check(ok, 'D4', 'the CHILD_SA dump shows both SPIs', key=('D4', 'child-spis'))


MANIFEST = {
    'level': 'Static decision on every path of the controller: provenance of the lookup key and of the responder '
             'IkeSa\'s arguments; ownership discipline of the ike_sas list (an appended element is fresh or '
             'membership-guarded, every exceptional exit after a registration undoes it or finds the entry DELETED, '
             'every removal is paired with kernel teardown); the state set guarding the rekey registration equals the '
             'typestate-derived set of states with an established successor; the status dump is complete.',
    'note': 'Trusted: resolver typing, effect catalogue. Declined: histories with many IKE_SAs as such.',
    'technique': 'provenance + ownership/pairing rules over CFG paths + typestate',
    'design_ref': 'DESIGN.md 3/C16',
}
MANIFEST['note'] += (' Also decided here (necessary conditions shared between properties or added after the independent '
                     'change rounds, DESIGN.md 8.7): timer coverage of request-outstanding states (from C09), parse errors leave process_message, from_exception cannot raise. Rounds 7-8: lookup helpers may report a miss by StopIteration or None; the successor is never reset while the IKE_SA has one; tracked before installed.')
MANIFEST['note'] += (' Round 10: a first-match finder tested against None in the lookup by CHILD_SA SPI is read as its search condition.')
