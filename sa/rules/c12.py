"""C12 - Traffic selectors are only ever narrowed and the mode must match.

R1 (A5+A4) responder: every return of _get_ipsec_configuration hands out a (policy, local selector, peer
         selector) triple whose selectors are contained both in the request's and in the policy's, by the
         is_subset facts that dominate that return; the fall-through raises TsUnacceptable; the triple is
         unpacked and installed in the same orientation; the mode test dominates installation.
R2       initiator: the response's selectors are installed only after each was found inside one of the
         offered selectors, and after the mode of the response equalled the requested one.
R3       rekey: the request's selector lists must equal those of the replaced SA (crossed, the stored view
         is local); TrafficSelector equality covers all six fields; the rekey request re-offers exactly the
         replaced SA's selectors.
R4 (A11) TrafficSelector.is_subset is set inclusion: its body is evaluated by the checker's interpreter
         over every weak ordering of the port and address endpoints x protocol/type equality atoms and
         compared with the definition.
R5       from_network / get_port constants (port 0 <-> 0..65535), address range = first/last address of the
         network, type by IP version; TsUnacceptable -> TS_UNACCEPTABLE.
R6       kernel selectors are derived from the CHILD_SA's own tsi/tsr only.
"""
import ast
import itertools

from ..finite import evaluate
from ..model import src, walk_no_nested
from ..terms import callee_name, calls_in, compare_parts, inline, kwargs_of, single_def
from . import common

EXPLANATION = ('static analysis: inclusion facts collected from the is_subset conditions dominating each return of the '
               'policy lookup, dominance of installation by the selector and mode validations on both roles, and an '
               'exhaustive finite-abstraction evaluation of TrafficSelector.is_subset (a function that touches its operands '
               'only through comparisons) against the definition of inclusion')
ASSUMPTIONS = [
    'declined: the result of get_network()\'s supernet loop for all ranges (runtime address arithmetic); narrowing over '
    'all TS lists of arbitrary length beyond the per-element facts',
    'is_subset is invariant under order-preserving maps of ports and addresses (it only compares them), so the weak '
    'orderings of the four endpoints per dimension are exhaustive',
]

IKESA = 'ikesa.IkeSa'


def subset_fact(e):
    """(a, b) for the call `a.is_subset(b)`"""
    if isinstance(e, ast.Call) and callee_name(e) == 'is_subset' and len(e.args) == 1:
        return src(e.func.value), src(e.args[0])
    return None


def run(ctx):
    prog, res = ctx.prog, ctx.res
    esc = ctx.escape('engine', kills=common.engine_kills(ctx))

    # ---------------------------------------------------------------- R1
    fi = ctx.func(IKESA + '._get_ipsec_configuration')
    g = esc.add_exception_edges(fi)
    ps = fi.call_params()
    ctx.require(len(ps) == 2, 'anchor vanished: _get_ipsec_configuration(payload_tsi, payload_tsr)')
    loops = [l for h, l in g.loops if isinstance(l, ast.For)]
    elem_of = {}   # loop variable -> which request list it ranges over
    conf_var = None
    for l in loops:
        it = src(l.iter)
        for i, p in enumerate(ps):
            if it in ('reversed(%s.traffic_selectors)' % p, '%s.traffic_selectors' % p):
                elem_of[src(l.target)] = ('tsi', 'tsr')[i]
        if it == 'self.configuration.protect':
            conf_var = src(l.target)
    ctx.check(sorted(elem_of.values()) == ['tsi', 'tsr'] and conf_var is not None, 'R1',
              'the policy lookup ranges over the request\'s TSi x TSr x every protect entry', key=('R1', 'loops'),
              site=ctx.site(fi, fi.node))
    rets = [n for n in g.nodes if n.kind == 'stmt' and isinstance(n.ast, ast.Return)]
    ctx.check(len(rets) >= 1, 'R1', '_get_ipsec_configuration returns matches', key=('R1', 'returns'))
    tsi_var = next((v for v, k in elem_of.items() if k == 'tsi'), None)
    tsr_var = next((v for v, k in elem_of.items() if k == 'tsr'), None)
    for r in rets:
        v = r.ast.value
        ok = isinstance(v, ast.Tuple) and len(v.elts) == 3 and src(v.elts[0]) == conf_var
        ctx.check(ok, 'R1', 'a match returns (policy entry, local selector, peer selector)', key=('R1', 'return-shape', src(v)),
                  site=ctx.site(fi, r.ast))
        if not ok:
            continue
        local, peer = src(v.elts[1]), src(v.elts[2])
        facts = set()
        for c in g.nodes:
            if c.kind == 'cond':
                f = subset_fact(c.ast)
                if f and common.dominated_by_edge(g, r, c, 'T'):
                    facts.add(f)
        need = [(local, conf_var + '.my_ts', 'local selector inside the policy\'s my_ts'),
                (local, tsr_var, 'local selector inside the requested TSr'),
                (peer, conf_var + '.peer_ts', 'peer selector inside the policy\'s peer_ts'),
                (peer, tsi_var, 'peer selector inside the requested TSi')]
        for a, b, what in need:
            ctx.check(a == b or (a, b) in facts, 'R1', 'return %s: %s' % (src(v), what),
                      key=('R1', 'inclusion', src(v), what), site=ctx.site(fi, r.ast), detail={'facts': sorted(facts)})
    ctx.check(g.exit.id not in g.reach([g.entry], blocked_nodes=rets, follow_exc=False) and
              'TsUnacceptable' in esc.escapes(fi), 'R1', 'a request matching no policy raises TsUnacceptable',
              key=('R1', 'fallthrough'), site=ctx.site(fi, fi.node))
    # caller: orientation of the unpacking and of what is installed / answered
    rq = ctx.func(IKESA + '._process_create_child_sa_negotiation_req')
    gq = esc.add_exception_edges(rq)
    msg = rq.call_params()[0]
    calls = [(n, x) for n, x in common.nodes_calling(ctx, rq, gq, common.calls_named('_get_ipsec_configuration'))]
    ctx.check(len(calls) == 1 and isinstance(calls[0][0].ast, ast.Assign) and isinstance(calls[0][0].ast.targets[0], ast.Tuple)
              and len(calls[0][0].ast.targets[0].elts) == 3, 'R1', 'the responder looks the request up in its policies',
              key=('R1', 'caller'), site=ctx.site(rq, rq.node))
    if len(calls) == 1:
        n, x = calls[0]
        conf_l, local_l, peer_l = [src(e) for e in n.ast.targets[0].elts]
        args = [inline(res, rq, a, 3, frozenset([msg])) for a in x.args]
        ok = len(args) == 2 and src(args[0]).startswith('%s.get_payload(Payload.Type.TSi, True' % msg) \
            and src(args[1]).startswith('%s.get_payload(Payload.Type.TSr, True' % msg)
        ctx.check(ok, 'R1', 'the lookup receives the request\'s protected TSi and TSr payloads in that order',
                  key=('R1', 'caller-args'), site=ctx.site(rq, x))
        cs = [c for c in calls_in(rq.node) if callee_name(c) == 'ChildSa']
        ctx.check(len(cs) == 1, 'R1', 'the responder builds one ChildSa', key=('R1', 'childsa'), site=ctx.site(rq, rq.node))
        for c in cs:
            kw = kwargs_of(c, names=[])
            ctx.check(src(kw.get('tsi')) == local_l and src(kw.get('tsr')) == peer_l, 'R1',
                      'the installed CHILD_SA takes the narrowed local selector as tsi and the narrowed peer selector as tsr',
                      key=('R1', 'childsa-orientation'), site=ctx.site(rq, c))
            ctx.check(src(kw.get('lifetime')) == conf_l + '.lifetime' and src(kw.get('original_proposal')) == conf_l + '.proposal',
                      'R1', 'lifetime and original proposal come from the matched policy entry', key=('R1', 'childsa-conf'),
                      site=ctx.site(rq, c))
            mode_var = src(kw.get('mode'))
        tsi_p = [c for c in calls_in(rq.node) if callee_name(c) == 'PayloadTSi']
        tsr_p = [c for c in calls_in(rq.node) if callee_name(c) == 'PayloadTSr']
        ctx.check(len(tsi_p) == 1 and len(tsr_p) == 1 and src(tsi_p[0].args[0]) == '[%s]' % peer_l
                  and src(tsr_p[0].args[0]) == '[%s]' % local_l, 'R1',
                  'the response announces exactly the narrowed pair (TSi = peer side, TSr = local side)',
                  key=('R1', 'response-ts'), site=ctx.site(rq, rq.node))
        # mode
        inst = [m for m, y in common.nodes_calling(ctx, rq, gq, common.calls_named('create_child_sa'))] + \
               [m for m, y in common.nodes_calling(ctx, rq, gq, common.calls_named('append')) if 'child_sas' in src(y.func.value)]
        mc = []
        req_mode = None
        for c in gq.nodes:
            cp = compare_parts(c.ast) if c.kind == 'cond' else None
            if cp and cp[1] in (ast.NotEq, ast.Eq) and conf_l + '.mode' in (src(cp[0]), src(cp[2])) \
                    and src(cp[0]) != src(cp[2]):
                mc.append((c, 'F' if cp[1] is ast.NotEq else 'T'))
                req_mode = src(cp[2]) if src(cp[0]) == conf_l + '.mode' else src(cp[0])
        ctx.check(len(mc) == 1, 'R1', 'the requested mode is compared with the policy\'s mode', key=('R1', 'mode-compare'),
                  site=ctx.site(rq, rq.node))
        for c, passing in mc:
            failing = 'T' if passing == 'F' else 'F'
            fn = [m for l2, m in c.succ if l2 == failing]
            ctx.check(bool(fn) and all(isinstance(m.ast, ast.Raise) and 'TsUnacceptable' in src(m.ast) for m in fn), 'R1',
                      'a mode mismatch raises TsUnacceptable', key=('R1', 'mode-raise'), site=ctx.site(rq, c.ast))
            ctx.check(len(inst) >= 2 and all(common.dominated_by_edge(gq, m, c, passing) for m in inst), 'R1',
                      'tracking and kernel installation happen only after the mode matched', key=('R1', 'mode-dominates'),
                      site=ctx.site(rq, c.ast))
        ctx.check(len(inst) >= 2 and all(m.id not in gq.reach([gq.entry], blocked_nodes=[n]) for m in inst), 'R1',
                  'tracking and kernel installation happen only after the policy lookup succeeded',
                  key=('R1', 'lookup-dominates'), site=ctx.site(rq, x))
        if len(mc) == 1:
            ctx.check(mode_var in (req_mode, conf_l + '.mode'), 'R1', 'the installed CHILD_SA has the mode that was compared',
                      key=('R1', 'childsa-mode'), site=ctx.site(rq, rq.node))
            check_mode_var(ctx, rq, gq, req_mode, msg, 'R1')

    # ---------------------------------------------------------------- R2
    rs = ctx.func(IKESA + '._process_create_child_sa_negotiation_res')
    gs = esc.add_exception_edges(rs)
    msg = rs.call_params()[0]
    rep = [(n, x) for n, x in common.nodes_calling(ctx, rs, gs, common.calls_named('_replace'))]
    ctx.check(len(rep) == 1, 'R2', 'the initiator completes its pending ChildSa from the response', key=('R2', 'replace'),
              site=ctx.site(rs, rs.node))
    inst = [m for m, y in common.nodes_calling(ctx, rs, gs, common.calls_named('create_child_sa'))] + \
           [m for m, y in common.nodes_calling(ctx, rs, gs, common.calls_named('append')) if 'child_sas' in src(y.func.value)] + \
           [n for n, x in rep]
    for n, x in rep:
        kw = kwargs_of(x, names=[])
        for side, ptype in (('tsi', 'TSi'), ('tsr', 'TSr')):
            chosen = kw.get(side)
            e = inline(res, rs, chosen, 4, frozenset([msg])) if chosen is not None else None
            ok = e is not None and src(e) == '%s.get_payload(Payload.Type.%s, True).traffic_selectors[0]' % (msg, ptype)
            ctx.check(ok, 'R2', 'the installed %s is the first selector of the response\'s protected %s payload' % (side, ptype),
                      key=('R2', 'chosen', side), site=ctx.site(rs, x))
            # matches list: [x for x in self.creating_child_sa.<side> if chosen.is_subset(x)]
            good = None
            for name, defs in res.local_defs(rs).items():
                if len(defs) == 1 and isinstance(defs[0], ast.ListComp) and len(defs[0].generators) == 1:
                    gen = defs[0].generators[0]
                    if src(gen.iter) == 'self.creating_child_sa.' + side and len(gen.ifs) == 1 \
                            and subset_fact(gen.ifs[0]) == (src(chosen), src(gen.target)) and src(defs[0].elt) == src(gen.target):
                        good = name
            ctx.check(good is not None, 'R2', 'the chosen %s is searched among the offered %s selectors with is_subset' % (side, side),
                      key=('R2', 'matches', side), site=ctx.site(rs, x))
            if good:
                cs = [c for c in gs.nodes if c.kind == 'cond' and src(c.ast) == good]
                ok = False
                for c in cs:
                    fn = [m for l2, m in c.succ if l2 == 'F']
                    raises = bool(fn) and all(isinstance(m.ast, ast.Raise) and 'TsUnacceptable' in src(m.ast) for m in fn)
                    ok = ok or (raises and all(common.dominated_by_edge(gs, m, c, 'T') for m in inst))
                ctx.check(ok, 'R2', 'a response whose %s is not inside the offer raises TsUnacceptable before anything is '
                          'tracked or installed' % side, key=('R2', 'widened', side), site=ctx.site(rs, x))
    mc = []
    for c in gs.nodes:
        cp = compare_parts(c.ast) if c.kind == 'cond' else None
        if cp and cp[1] in (ast.NotEq, ast.Eq) and 'self.creating_child_sa.mode' in (src(cp[0]), src(cp[2])):
            other = cp[2] if src(cp[0]) == 'self.creating_child_sa.mode' else cp[0]
            mc.append((c, 'F' if cp[1] is ast.NotEq else 'T', src(other)))
    ctx.check(len(mc) == 1, 'R2', 'the mode of the response is compared with the requested one', key=('R2', 'mode-compare'),
              site=ctx.site(rs, rs.node))
    for c, passing, mv in mc:
        failing = 'T' if passing == 'F' else 'F'
        fn = [m for l2, m in c.succ if l2 == failing]
        ctx.check(bool(fn) and all(isinstance(m.ast, ast.Raise) and 'TsUnacceptable' in src(m.ast) for m in fn), 'R2',
                  'a changed mode raises TsUnacceptable', key=('R2', 'mode-raise'), site=ctx.site(rs, c.ast))
        ctx.check(len(inst) >= 3 and all(common.dominated_by_edge(gs, m, c, passing) for m in inst), 'R2',
                  'nothing is tracked or installed unless the mode matched', key=('R2', 'mode-dominates'), site=ctx.site(rs, c.ast))
        d = single_def(res, rs, mv)
        ok = isinstance(d, ast.IfExp) and src(d.body) == 'xfrm.Mode.TRANSPORT' and src(d.orelse) == 'xfrm.Mode.TUNNEL' \
            and src(inline(res, rs, d.test, 3, frozenset([msg]))) == '%s.get_notifies(PayloadNOTIFY.Type.USE_TRANSPORT_MODE, True)' % msg
        ctx.check(ok, 'R2', 'the response asks for transport mode iff it carries a protected USE_TRANSPORT_MODE notification',
                  key=('R2', 'mode-value'), site=ctx.site(rs, c.ast))

    # ---------------------------------------------------------------- R3
    ok = False
    for c1 in gq.nodes:
        if c1.kind != 'cond':
            continue
        cp = compare_parts(c1.ast)
        if cp and cp[1] is ast.NotEq and src(cp[0]).endswith('.traffic_selectors') and src(cp[2]).startswith('[rekeyed_child_sa.'):
            pass
    conds = []
    for c in gq.nodes:
        cp = compare_parts(c.ast) if c.kind == 'cond' else None
        if cp and cp[1] in (ast.NotEq, ast.Eq) and isinstance(cp[2], ast.List) and len(cp[2].elts) == 1 \
                and src(cp[0]).endswith('.traffic_selectors'):
            lst = inline(res, rq, cp[0].value, 3, frozenset([rq.call_params()[0]]))
            which = 'TSi' if 'Type.TSi' in src(lst) else 'TSr' if 'Type.TSr' in src(lst) else None
            conds.append((c, 'F' if cp[1] is ast.NotEq else 'T', which, src(cp[2].elts[0])))
    got = {w: e for _, _, w, e in conds}
    rk = None
    for name, defs in res.local_defs(rq).items():
        if len(defs) == 1 and isinstance(defs[0], ast.Call) and callee_name(defs[0]) == 'get_child_sa' \
                and 'rekey' in src(defs[0].args[0]):
            rk = name
    ctx.check(rk is not None and got == {'TSi': rk + '.tsr', 'TSr': rk + '.tsi'}, 'R3',
              'a rekey request must carry exactly the selectors of the replaced SA (TSi = its peer-side tsr, TSr = its local tsi)',
              key=('R3', 'rekey-compare'), site=ctx.site(rq, rq.node), detail={'found': got})
    inst_q = [m for m, y in common.nodes_calling(ctx, rq, gq, common.calls_named('create_child_sa'))]
    rekc = [c for c in gq.nodes if c.kind == 'cond' and src(c.ast) == 'rekey_notify']
    for c, passing, which, _ in conds:
        failing = 'T' if passing == 'F' else 'F'
        fn = [m for l2, m in c.succ if l2 == failing]
        ctx.check(bool(fn) and all(isinstance(m.ast, ast.Raise) and 'TsUnacceptable' in src(m.ast) for m in fn), 'R3',
                  'differing %s on a rekey raises TsUnacceptable' % which, key=('R3', 'raise', which), site=ctx.site(rq, c.ast))
        blocked = [(c.id, passing, m.id) for l2, m in c.succ if l2 == passing] + \
                  [(k.id, 'F', m.id) for k in rekc for l2, m in k.succ if l2 == 'F']
        ctx.check(bool(rekc) and all(m.id not in gq.reach([gq.entry], blocked_edges=blocked, follow_exc=False) for m in inst_q),
                  'R3', 'for a rekey, nothing is installed unless the %s comparison passed' % which,
                  key=('R3', 'dominates', which), site=ctx.site(rq, c.ast))
    eq = ctx.func('message.TrafficSelector.__eq__')
    t = src(eq.node.body[-1])
    fields = ['ts_type', 'ip_proto', 'start_port', 'end_port', 'start_addr', 'end_addr']
    ctx.check(all('self.' + f in t and 'other.' + f in t for f in fields) and '==' in t and ' or ' not in t, 'R3',
              'TrafficSelector equality covers type, protocol, both ports and both addresses', key=('R3', 'ts-eq'),
              site=ctx.site(eq, eq.node))
    pe = ctx.func(IKESA + '.process_expire')
    cs = [c for c in calls_in(pe.node) if callee_name(c) == 'ChildSa']
    ok = len(cs) == 1
    if ok:
        kw = kwargs_of(cs[0], names=[])
        old = None
        for name, defs in res.local_defs(pe).items():
            if len(defs) == 1 and isinstance(defs[0], ast.Call) and callee_name(defs[0]) == 'get_child_sa':
                old = name
        ok = old is not None and src(kw.get('tsi')) == '[%s.tsi]' % old and src(kw.get('tsr')) == '[%s.tsr]' % old \
            and src(kw.get('mode')) == old + '.mode'
    ctx.check(ok, 'R3', 'a rekey request re-offers exactly the selectors and mode of the SA being replaced',
              key=('R3', 'rekey-offer'), site=ctx.site(pe, pe.node))

    # ---------------------------------------------------------------- R4
    isub = ctx.func('message.TrafficSelector.is_subset')
    ANY = prog.const_eval(ast.parse('TrafficSelector.IpProtocol.ANY', mode='eval').body, isub.module, isub.cls)
    quads = [q for q in itertools.product(range(4), repeat=4) if q[0] <= q[1] and q[2] <= q[3]]
    protos = [(ANY, ANY), (6, ANY), (6, 6), (6, 17), (ANY, 6)]
    n = 0
    bad = None
    for (t1, t2) in ((7, 7), (7, 8), (8, 7)):
        for (p1, p2) in protos:
            for (a, b, c, d) in quads:
                for (e, f, gg, h) in quads:
                    env = {'self.ts_type': t1, 'other.ts_type': t2, 'self.ip_proto': p1, 'other.ip_proto': p2,
                           'self.start_port': a, 'self.end_port': b, 'other.start_port': c, 'other.end_port': d,
                           'self.start_addr': e, 'self.end_addr': f, 'other.start_addr': gg, 'other.end_addr': h}
                    got = bool(evaluate(prog, isub, env))
                    want = t1 == t2 and (p2 == ANY or p1 == p2) and c <= a and b <= d and gg <= e and f <= h
                    n += 1
                    if got != want and bad is None:
                        bad = (env, got, want)
    ctx.stats['R4 abstract cases evaluated'] = n
    ctx.check(bad is None, 'R4', 'TrafficSelector.is_subset coincides with inclusion of the denoted packet sets on all %d '
              'abstract cases (type x protocol x weak orderings of port and address endpoints)' % n,
              key=('R4', 'is-subset-semantics'), site=ctx.site(isub, isub.node),
              detail={'counterexample': {k: v for k, v in bad[0].items()}, 'got': bad[1], 'expected': bad[2]} if bad else None)

    # ---------------------------------------------------------------- R5
    fn_ = ctx.func('message.TrafficSelector.from_network')
    psn = fn_.call_params()
    rets = [r for r in walk_no_nested(fn_.node) if isinstance(r, ast.Return)]
    ok = len(rets) == 1 and isinstance(rets[0].value, ast.Call) and callee_name(rets[0].value) == 'TrafficSelector' \
        and len(rets[0].value.args) == 6
    if ok:
        a = rets[0].value.args
        ty = inline(res, fn_, a[0], 2)
        ok = src(a[1]) == psn[2] and src(a[2]) == psn[1] and src(a[4]) == psn[0] + '[0]' and src(a[5]) == psn[0] + '[-1]' \
            and src(a[3]) in ('65535 if %s == 0 else %s' % (psn[1], psn[1]), '%s if %s != 0 else 65535' % (psn[1], psn[1])) \
            and isinstance(ty, ast.IfExp) and src(ty.test) == psn[0] + '[0].version == 6' \
            and src(ty.body).endswith('TS_IPV6_ADDR_RANGE') and src(ty.orelse).endswith('TS_IPV4_ADDR_RANGE')
    ctx.check(ok, 'R5', 'from_network: port 0 means 0..65535, otherwise the single port; addresses are the first and last of '
              'the network; type by IP version', key=('R5', 'from-network'), site=ctx.site(fn_, fn_.node))
    gp = ctx.func('message.TrafficSelector.get_port')
    vals = {}
    for sp, ep in ((0, 65535), (0, 0), (80, 80), (1, 65535), (0, 65534), (443, 443)):
        vals[(sp, ep)] = evaluate(prog, gp, {'self.start_port': sp, 'self.end_port': ep})
    ctx.check(vals == {(0, 65535): 0, (0, 0): 0, (80, 80): 80, (1, 65535): 65535, (0, 65534): 65534, (443, 443): 443}, 'R5',
              'get_port is the inverse: the full range gives 0, a single port gives that port', key=('R5', 'get-port'),
              site=ctx.site(gp, gp.node), detail={'found': {str(k): v for k, v in vals.items()}})
    gn = ctx.func('message.TrafficSelector.get_network')
    t = [src(s) for s in gn.node.body]
    ctx.check(t == ['network = ip_network(self.start_addr)', 'while self.end_addr not in network:\n    network = network.supernet()',
                    'return network'], 'R5', 'get_network is the smallest network starting at start_addr widened until it '
              'contains end_addr', key=('R5', 'get-network'), site=ctx.site(gn, gn.node))
    fe = ctx.func('message.PayloadNOTIFY.from_exception')
    tab = None
    for n_ in walk_no_nested(fe.node):
        if isinstance(n_, ast.Assign) and isinstance(n_.value, ast.Dict):
            tab = {src(k): src(v).split('.')[-1] for k, v in zip(n_.value.keys, n_.value.values)}
    ctx.check(tab is not None and tab.get('TsUnacceptable') == 'TS_UNACCEPTABLE', 'R5', 'TsUnacceptable -> TS_UNACCEPTABLE',
              key=('R5', 'table'), site=ctx.site(fe, fe.node))
    hs = [h for h in gq.nodes if h.kind == 'handler' and h.ast.type is not None and 'TsUnacceptable' in src(h.ast.type)]
    ctx.check(any(len([s for s in h.ast.body if isinstance(s, ast.Return)]) == 1 and src(
        [s for s in h.ast.body if isinstance(s, ast.Return)][0].value) == '[PayloadNOTIFY.from_exception(%s)]' % h.ast.name
        for h in hs), 'R5', 'the responder answers TsUnacceptable with the single notification built from it',
        key=('R5', 'refusal-reply'), site=ctx.site(rq, rq.node))

    # ---------------------------------------------------------------- R6
    cc = ctx.func('xfrm.Xfrm.create_child_sa')
    want = {'src_selector': 'child_sa.tsi.get_network()', 'dst_selector': 'child_sa.tsr.get_network()',
            'src_port': 'child_sa.tsi.get_port()', 'dst_port': 'child_sa.tsr.get_port()'}
    for k, v in want.items():
        d = single_def(res, cc, k)
        ctx.check(isinstance(d, ast.AST) and src(d) == v, 'R6', 'kernel %s is %s' % (k, v), key=('R6', k), site=ctx.site(cc, cc.node))


def check_mode_var(ctx, fi, g, mode_var, msg, rule):
    defs = ctx.res.local_defs(fi).get(mode_var, [])
    vals = sorted(src(d) for d in defs if isinstance(d, ast.AST))
    ok = vals == ['xfrm.Mode.TRANSPORT', 'xfrm.Mode.TUNNEL']
    if ok:
        tr = [n for n in g.nodes if n.kind == 'stmt' and isinstance(n.ast, ast.Assign) and src(n.ast.targets[0]) == mode_var
              and src(n.ast.value) == 'xfrm.Mode.TRANSPORT']
        tu = [n for n in g.nodes if n.kind == 'stmt' and isinstance(n.ast, ast.Assign) and src(n.ast.targets[0]) == mode_var
              and src(n.ast.value) == 'xfrm.Mode.TUNNEL']
        conds = [c for c in g.nodes if c.kind == 'cond'
                 and src(c.ast) == '%s.get_notifies(PayloadNOTIFY.Type.USE_TRANSPORT_MODE, True)' % msg]
        ok = len(tr) == 1 and len(tu) == 1 and len(conds) == 1 and common.dominated_by_edge(g, tr[0], conds[0], 'T') \
            and tr[0].id in g.reach([tu[0]]) and tu[0].id not in g.reach([tr[0]]) \
            and [m for l2, m in conds[0].succ if l2 == 'T'][0].id in g.reach([tu[0]])
    ctx.check(ok, rule, 'the requested mode is TRANSPORT iff the request carries a protected USE_TRANSPORT_MODE notification, '
              'else TUNNEL', key=(rule, 'mode-value'), site=ctx.site(fi, fi.node))


MANIFEST = {
    'level': 'Static decision on every path: each return of the responder\'s policy lookup is dominated by the is_subset facts '
             'that place the returned local/peer selectors inside both the request and the policy (both narrowing '
             'orientations), the fall-through raises TsUnacceptable, the triple is installed and announced in the same '
             'orientation, and mode / lookup validations dominate tracking and kernel installation on both roles; rekey '
             'selectors must equal the replaced SA\'s (crossed) with full-field equality; TrafficSelector.is_subset is '
             'evaluated by the checker\'s own interpreter on all abstract cases (type x protocol atoms x weak orderings of '
             'the four port and four address endpoints, 150 000 cases) and equals set inclusion; from_network/get_port '
             'constants; kernel selectors come from the CHILD_SA\'s own selectors.',
    'note': 'Trusted: resolver typing; order-invariance of is_subset (it only compares). Declined: get_network\'s supernet '
            'result for all ranges; list-level narrowing beyond per-element facts.',
    'technique': 'dominance with inclusion facts + exhaustive finite-abstraction evaluation of the containment predicate',
    'design_ref': 'DESIGN.md 3/C12',
}
