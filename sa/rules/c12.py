"""C12 - Traffic selectors are only ever narrowed and the mode must match.

R1 (A5+A4) responder: every return of _get_ipsec_configuration hands out a (policy, local selector, peer
         selector) triple whose selectors are contained both in the request's and in the policy's, by the
         is_subset facts that dominate that return; the fall-through raises TsUnacceptable; the triple is
         unpacked and installed in the same orientation; the mode test dominates installation.
R2       initiator: the response's selectors are installed only after each was found inside one of the
         offered selectors, and after the mode of the response equalled the requested one.
R3       rekey: the request's selector lists must equal those of the replaced SA (crossed, the stored view
         is local); TrafficSelector equality covers all six fields; the rekey request re-offers exactly the
         replaced SA's selectors.
R4 (A11) TrafficSelector.is_subset is set inclusion: its body is evaluated by the checker's interpreter
         over every weak ordering of the port and address endpoints x protocol/type equality atoms and
         compared with the definition.
R5       from_network / get_port constants (port 0 <-> 0..65535), address range = first/last address of the
         network, type by IP version; TsUnacceptable -> TS_UNACCEPTABLE.
R6       kernel selectors are derived from the CHILD_SA's own tsi/tsr only.
"""
import ast
import itertools

from ..finite import evaluate
from ..model import src, walk_no_nested
from ..sval import NONE, const, norm_pc, same, strip_ids
from .. import tq
from . import common

EXPLANATION = ('static analysis: inclusion facts collected from the is_subset conditions dominating each return of the '
               'policy lookup, dominance of installation by the selector and mode validations on both roles, and an '
               'exhaustive finite-abstraction evaluation of TrafficSelector.is_subset (a function that touches its operands '
               'only through comparisons) against the definition of inclusion')
ASSUMPTIONS = [
    'declined: the result of get_network()\'s supernet loop for all ranges (runtime address arithmetic); narrowing over '
    'all TS lists of arbitrary length beyond the per-element facts',
    'is_subset is invariant under order-preserving maps of ports and addresses (it only compares them), so the weak '
    'orderings of the four endpoints per dimension are exhaustive',
]

IKESA = 'ikesa.IkeSa'


SELF = ('param', 'self')


def attr(t, n):
    return ('attr', t, n)


def subset_facts(pc):
    """{(a, b)} for the atoms `a.is_subset(b)` that hold on the path"""
    out = set()
    for t, pol in pc:
        t = strip_ids(t)
        if pol and tq.is_call(t, 'message.TrafficSelector.is_subset') and len(t[3]) == 1:
            out.add((t[2], t[3][0][1]))
    return out


def mode_term(sv, msg):
    return sv.expr('xfrm.Mode.TRANSPORT if %s.get_notifies(PayloadNOTIFY.Type.USE_TRANSPORT_MODE, True) else xfrm.Mode.TUNNEL' % msg)


def ts_kernel_view(ctx, rule):
    """the three conversions between a traffic selector and what configuration / kernel use: from_network (network, port, protocol ->
    selector), get_port (selector -> the kernel's single port, 0 = any) and get_network (selector -> the smallest network that covers
    the range, found by widening the start address's network until the end address is inside)"""
    fn_ = ctx.func('message.TrafficSelector.from_network')
    F = ctx.sval(fn_)
    psn = fn_.call_params()
    r = F.ret()
    ok = tq.is_call(r, 'new message.TrafficSelector')
    if ok:
        a = tq.args(r)
        net, port, proto = (('param', x) for x in psn[:3])
        ok = a.get('ip_proto') == proto and a.get('start_port') == port and a.get('start_addr') == ('index', net, const(0)) \
            and a.get('end_addr') == ('index', net, const(-1))
        ends = common.term_table(ctx, a.get('end_port', NONE), [{psn[1]: 0}, {psn[1]: 80}, {psn[1]: 65535}], None)
        ok = ok and ends == [65535, 80, 65535]
        tys = []
        for v in (4, 6):
            def leaf(t, v=v):
                if strip_ids(t) == attr(('index', net, const(0)), 'version'):
                    return v
                if t[0] == 'global':
                    return t[1].split('.')[-1]
                raise tq.NoValue()
            try:
                tys.append(tq.teval(a.get('ts_type', NONE), leaf))
            except (tq.NoValue, Exception):
                tys.append(None)
        ok = ok and tys == ['TS_IPV4_ADDR_RANGE', 'TS_IPV6_ADDR_RANGE']
    ctx.check(ok, rule, 'from_network: port 0 means 0..65535, otherwise the single port; addresses are the first and last of '
              'the network; type by IP version', key=(rule, 'from-network'), site=ctx.site(fn_, fn_.node), detail={'returned': tq.text(r, 500)})
    gp = ctx.func('message.TrafficSelector.get_port')
    vals = {}
    for sp, ep in ((0, 65535), (0, 0), (80, 80), (1, 65535), (0, 65534), (443, 443)):
        v = common.term_table(ctx, ctx.sval(gp).ret(), [{'self.start_port': sp, 'self.end_port': ep}], None)
        vals[(sp, ep)] = v[0] if v else None
    ctx.check(vals == {(0, 65535): 0, (0, 0): 0, (80, 80): 80, (1, 65535): 65535, (0, 65534): 65534, (443, 443): 443}, rule,
              'get_port is the inverse: the full range gives 0, a single port gives that port', key=(rule, 'get-port'),
              site=ctx.site(gp, gp.node), detail={'found': {str(k): v for k, v in vals.items()}})
    gn = ctx.func('message.TrafficSelector.get_network')
    N = ctx.sval(gn)
    loops = list(N.loops.items())
    ok = len(loops) == 1 and isinstance(loops[0][1][0], ast.While)
    if ok:
        lid = loops[0][0]
        ups, inits = N.loop_updates[lid], N.loop_inits[lid]
        var = [k for k, v in inits.items() if same(v, N.expr('ip_network(self.start_addr)'))]
        ok = len(var) == 1
        if ok:
            cur = ('acc', var[0], 0)
            ok = strip_ids(loops[0][1][1]) == ('while', ('not', strip_ids(N.mk_cmp('in', attr(SELF, 'end_addr'), cur)))) and \
                strip_ids(ups[var[0]]) == ('call', 'method.supernet', cur, ()) and \
                [strip_ids(t)[:2] for _, t, _ in N.returns] == [('loopout', var[0])]
    ctx.check(ok, rule, 'get_network is the smallest network starting at start_addr widened until it contains end_addr',
              key=(rule, 'get-network'), site=ctx.site(gn, gn.node))


def run(ctx):
    prog, res = ctx.prog, ctx.res
    esc = ctx.escape('engine', kills=common.engine_kills(ctx))

    # ---------------------------------------------------------------- R1
    fi = ctx.func(IKESA + '._get_ipsec_configuration')
    G = ctx.sval(fi)
    ps = fi.call_params()
    ctx.require(len(ps) >= 2 and len(ps) - len(fi.defaults()) <= 2, 'anchor vanished: _get_ipsec_configuration(payload_tsi, payload_tsr)')
    site = ctx.site(fi, fi.node)
    protect = attr(attr(SELF, 'configuration'), 'protect')
    req = {'tsi': attr(('param', ps[0]), 'traffic_selectors'), 'tsr': attr(('param', ps[1]), 'traffic_selectors')}

    def kind_of(t):
        """which collection an element term ranges over: 'conf' / 'tsi' / 'tsr'"""
        t = strip_ids(t)
        if t[0] != 'elem':
            return None
        if t[1] == protect:
            return 'conf'
        def base(x):
            """the sequence whose elements x enumerates: reversed(s), list(s), tuple(s), s[:] and s[::-1] enumerate those of s"""
            while True:
                if tq.is_call(x) and x[1] in ('builtins.reversed', 'builtins.list', 'builtins.tuple') and len(x[3]) == 1:
                    x = x[3][0][1]
                elif x[0] == 'slice' and x[2] == NONE and x[3] == NONE and x[4] in (NONE, const(-1), const(1)):
                    x = x[1]
                else:
                    return x
        for k, lst in req.items():
            if base(t[1]) == lst:
                return k
        return None
    rets = [(pc, strip_ids(t)) for pc, t, _ in G.returns]
    ctx.check(len(rets) >= 1, 'R1', '_get_ipsec_configuration returns matches', key=('R1', 'returns'))
    doms = set()
    for pc, t in rets:
        for x in tq.find(t, lambda y: y[0] == 'elem'):
            doms.add(kind_of(x))
        for a, b in subset_facts(pc):
            doms.add(kind_of(a))
            doms.add(kind_of(b))
    ctx.check({'conf', 'tsi', 'tsr'} <= doms, 'R1', 'the policy lookup ranges over the request\'s TSi x TSr x every protect entry',
              key=('R1', 'loops'), site=site)
    for pc, v in rets:
        ok = v[0] == 'tuple' and len(v[1]) == 3 and kind_of(v[1][0]) == 'conf'
        ctx.check(ok, 'R1', 'a match returns (policy entry, local selector, peer selector)', key=('R1', 'return-shape', tq.text(v, 80)),
                  site=site)
        if not ok:
            continue
        conf, local, peer = v[1]
        facts = subset_facts(strip_ids(pc))
        tsr_el = [x for f_ in facts for x in f_ if kind_of(x) == 'tsr'] + [x for x in (local, peer) if kind_of(x) == 'tsr']
        tsi_el = [x for f_ in facts for x in f_ if kind_of(x) == 'tsi'] + [x for x in (local, peer) if kind_of(x) == 'tsi']
        need = [(local, [attr(conf, 'my_ts')], 'local selector inside the policy\'s my_ts'),
                (local, tsr_el, 'local selector inside the requested TSr'),
                (peer, [attr(conf, 'peer_ts')], 'peer selector inside the policy\'s peer_ts'),
                (peer, tsi_el, 'peer selector inside the requested TSi')]
        for a, bs, what in need:
            ctx.check(any(a == b or (a, b) in facts for b in bs), 'R1', 'return %s: %s' % (tq.text(v, 80), what),
                      key=('R1', 'inclusion', tq.text(v, 80), what), site=site,
                      detail={'facts': sorted('%s in %s' % (tq.text(x), tq.text(y)) for x, y in facts)})
    ctx.check(len(G.exit_envs) == len(G.returns) and 'TsUnacceptable' in esc.escapes(fi) and
              any(tq.is_call(t, 'new message.TsUnacceptable') and not pc for pc, t, _ in G.raises), 'R1',
              'a request matching no policy raises TsUnacceptable', key=('R1', 'fallthrough'), site=site)
    # caller: orientation of the unpacking and of what is installed / answered
    rq = ctx.func(IKESA + '._process_create_child_sa_negotiation_req')
    Q = ctx.sval(rq)
    msg = rq.call_params()[0]
    calls = Q.calls_to(qual=fi.qual)
    ctx.check(len(calls) == 1, 'R1', 'the responder looks the request up in its policies', key=('R1', 'caller'), site=ctx.site(rq, rq.node))
    inst_q = []
    if len(calls) == 1:
        lk = calls[0]
        conf_l, local_l, peer_l = (('index', lk.term, const(i)) for i in range(3))
        ok = tq.match(Q.expr('%s.get_payload(Payload.Type.TSi, True)' % msg), lk.args.get(ps[0], NONE)) is not None and \
            tq.match(Q.expr('%s.get_payload(Payload.Type.TSr, True)' % msg), lk.args.get(ps[1], NONE)) is not None
        ctx.check(ok, 'R1', 'the lookup receives the request\'s protected TSi and TSr payloads in that order',
                  key=('R1', 'caller-args'), site=ctx.site(rq, lk.node))
        cs = Q.calls_to(callee='namedtuple.ChildSa')
        ctx.check(len(cs) == 1, 'R1', 'the responder builds one ChildSa', key=('R1', 'childsa'), site=ctx.site(rq, rq.node))
        want_mode = mode_term(Q, msg)
        for c in cs:
            kw = c.args
            ctx.check(kw.get('tsi') == local_l and kw.get('tsr') == peer_l, 'R1',
                      'the installed CHILD_SA takes the narrowed local selector as tsi and the narrowed peer selector as tsr',
                      key=('R1', 'childsa-orientation'), site=ctx.site(rq, c.node))
            ctx.check(kw.get('lifetime') == attr(conf_l, 'lifetime') and kw.get('original_proposal') == attr(conf_l, 'proposal'),
                      'R1', 'lifetime and original proposal come from the matched policy entry', key=('R1', 'childsa-conf'),
                      site=ctx.site(rq, c.node))
            ctx.check(kw.get('mode') is not None and (same(kw['mode'], want_mode) or kw['mode'] == attr(conf_l, 'mode')), 'R1',
                      'the installed CHILD_SA has the mode that was compared (TRANSPORT iff the request carries a protected '
                      'USE_TRANSPORT_MODE notification, else TUNNEL)', key=('R1', 'childsa-mode'), site=ctx.site(rq, c.node),
                      detail={'found': tq.text(kw.get('mode', NONE), 300)})
        tsi_p = Q.calls_to(callee='new message.PayloadTSi')
        tsr_p = Q.calls_to(callee='new message.PayloadTSr')
        ctx.check(len(tsi_p) == 1 and len(tsr_p) == 1 and list(tsi_p[0].args.values())[:1] == [('list', (peer_l,))]
                  and list(tsr_p[0].args.values())[:1] == [('list', (local_l,))], 'R1',
                  'the response announces exactly the narrowed pair (TSi = peer side, TSr = local side)',
                  key=('R1', 'response-ts'), site=ctx.site(rq, rq.node))
        # mode
        inst_q = Q.calls_to(qual='xfrm.Xfrm.create_child_sa') + [c for c in Q.calls if c.name == 'append' and strip_ids(c.recv or NONE) == attr(SELF, 'child_sas')]
        goal = Q.mk_cmp('==', attr(conf_l, 'mode'), want_mode)
        ctx.check(len(inst_q) >= 2 and all(tq.entails(c.pc, goal) is True for c in inst_q), 'R1',
                  'tracking and kernel installation happen only after the requested mode matched the policy\'s mode',
                  key=('R1', 'mode-dominates'), site=ctx.site(rq, rq.node))
        bad = [(rpc, rt) for rpc, rt, _ in Q.raises if tq.entails(rpc, ('not', goal)) is True]
        ctx.check(bool(bad) and all(tq.is_call(rt, 'new message.TsUnacceptable') for _, rt in bad), 'R1',
                  'a mode mismatch raises TsUnacceptable', key=('R1', 'mode-raise'), site=ctx.site(rq, rq.node))
        ctx.check(len(inst_q) >= 2 and all(c.seq > lk.seq and tq.contains(c.term, lk.term) for c in inst_q), 'R1',
                  'tracking and kernel installation happen only after the policy lookup succeeded (and use its result)',
                  key=('R1', 'lookup-dominates'), site=ctx.site(rq, lk.node))

    # the selectors that are narrowed are the ones the peer sent: the decoder hands every field of a received selector on unchanged
    # (a decoder that widens or rewrites ports, protocol or addresses makes the containment tests decide about something else)
    from .c05 import check_ts
    check_ts(ctx, 'R1', 'R1')

    # "the policy" a request is narrowed against is this connection's: the loader gives every connection its own list of entries
    from .c19 import own_protect_list
    own_protect_list(ctx, 'R1')

    # ---------------------------------------------------------------- R2
    rs = ctx.func(IKESA + '._process_create_child_sa_negotiation_res')
    S = ctx.sval(rs)
    msg2 = rs.call_params()[0]
    pending = attr(SELF, 'creating_child_sa')
    rep = S.calls_to(callee='method._replace')
    ctx.check(len(rep) == 1, 'R2', 'the initiator completes its pending ChildSa from the response', key=('R2', 'replace'),
              site=ctx.site(rs, rs.node))
    inst = S.calls_to(qual='xfrm.Xfrm.create_child_sa') + [c for c in S.calls if c.name == 'append' and strip_ids(c.recv or NONE) == attr(SELF, 'child_sas')] + rep
    all_matches = []
    for c in rep:
        kw = c.args
        for side, ptype in (('tsi', 'TSi'), ('tsr', 'TSr')):
            chosen = kw.get(side, NONE)
            ok = tq.match(S.expr('%s.get_payload(Payload.Type.%s, True).traffic_selectors[0]' % (msg2, ptype)), chosen) is not None
            ctx.check(ok, 'R2', 'the installed %s is the first selector of the response\'s protected %s payload' % (side, ptype),
                      key=('R2', 'chosen', side), site=ctx.site(rs, c.node))
            offered = attr(pending, side)
            el = ('elem', offered, 0)
            matches = ('list', (('each', 0, offered, norm_pc(((('call', 'message.TrafficSelector.is_subset', strip_ids(chosen), (('other', el),)), True),)), el),))
            want_exists = tq.exists_form(matches)

            def is_search(a):
                """the atom says: some offered selector contains the chosen one (a filtering comprehension that is non-empty, or any())"""
                return a[1] is True and tq.exists_form(a[0]) == want_exists
            found = any(is_search(a) for x in inst for a in x.pc)
            ctx.check(found, 'R2', 'the chosen %s is searched among the offered %s selectors with is_subset' % (side, side),
                      key=('R2', 'matches', side), site=ctx.site(rs, c.node))
            ok = len(inst) >= 3 and all(any(is_search(a) for a in x.pc) for x in inst)
            all_matches.append(matches)
            # the refusal: an exception raised exactly when one of the searches found nothing
            bad = [(rpc, rt) for rpc, rt, _ in S.raises if any(tq.find(a[0], lambda y: tq.exists_form(y) == want_exists) or
                                                               tq.exists_form(a[0]) == want_exists for a in strip_ids(rpc))]
            ok = ok and bool(bad) and all(tq.is_call(rt, 'new message.TsUnacceptable') for _, rt in bad)
            ctx.check(ok, 'R2', 'a response whose %s is not inside the offer raises TsUnacceptable before anything is '
                      'tracked or installed' % side, key=('R2', 'widened', side), site=ctx.site(rs, c.node))
    goal = S.mk_cmp('==', attr(pending, 'mode'), mode_term(S, msg2))
    ctx.check(len(inst) >= 3 and all(tq.entails(x.pc, goal) is True for x in inst), 'R2',
              'nothing is tracked or installed unless the mode of the response (transport iff it carries a protected '
              'USE_TRANSPORT_MODE notification) equals the requested one', key=('R2', 'mode-dominates'), site=ctx.site(rs, rs.node))
    bad = [(rpc, rt) for rpc, rt, _ in S.raises if tq.entails(rpc, ('not', goal)) is True]
    ctx.check(bool(bad) and all(tq.is_call(rt, 'new message.TsUnacceptable') for _, rt in bad), 'R2',
              'a changed mode raises TsUnacceptable', key=('R2', 'mode-raise'), site=ctx.site(rs, rs.node))

    # ---------------------------------------------------------------- R3
    rekey = Q.expr('%s.get_notifies(PayloadNOTIFY.Type.REKEY_SA, encrypted=True)' % msg)
    rk = Q.expr('self.get_child_sa(%s.get_notifies(PayloadNOTIFY.Type.REKEY_SA, encrypted=True)[0].spi)' % msg)
    tsi_l = Q.expr('%s.get_payload(Payload.Type.TSi, True).traffic_selectors' % msg)
    tsr_l = Q.expr('%s.get_payload(Payload.Type.TSr, True).traffic_selectors' % msg)
    g_tsi = Q.mk_cmp('==', tsi_l, ('list', (attr(rk, 'tsr'),)))
    g_tsr = Q.mk_cmp('==', tsr_l, ('list', (attr(rk, 'tsi'),)))
    cc = Q.calls_to(qual='xfrm.Xfrm.create_child_sa')
    for which, goal in (('TSi', g_tsi), ('TSr', g_tsr)):
        ok = bool(cc) and all(tq.entails(tuple(c.pc) + ((strip_ids(rekey), True),), strip_ids(goal)) is True for c in cc)
        ctx.check(ok, 'R3', 'for a rekey, nothing is installed unless the request\'s %s equals the replaced SA\'s %s' % (
            which, 'peer-side tsr' if which == 'TSi' else 'local tsi'), key=('R3', 'dominates', which), site=ctx.site(rq, rq.node))
    bad = [(rpc, rt) for rpc, rt, _ in Q.raises if tq.entails(rpc, ('or', (('not', strip_ids(g_tsi)), ('not', strip_ids(g_tsr))))) is True
           and any(strip_ids(a[0]) == strip_ids(rekey) and a[1] for a in rpc)]
    ctx.check(bool(bad) and all(tq.is_call(rt, 'new message.TsUnacceptable') for _, rt in bad), 'R3',
              'differing selectors on a rekey raise TsUnacceptable', key=('R3', 'raise'), site=ctx.site(rq, rq.node))
    eq = ctx.func('message.TrafficSelector.__eq__')
    EQ = ctx.sval(eq)
    o = eq.call_params()[0]
    fields = ['ts_type', 'ip_proto', 'start_port', 'end_port', 'start_addr', 'end_addr']
    base = {}
    for f in fields:
        base['self.' + f] = 1
        base[o + '.' + f] = 1
    vals = [common.term_table(ctx, EQ.ret(), [base], None)]
    for f in fields:
        vals.append(common.term_table(ctx, EQ.ret(), [dict(base, **{o + '.' + f: 2})], None))
    ctx.check(vals[0] is not None and bool(vals[0][0]) is True and all(v is not None and bool(v[0]) is False for v in vals[1:]), 'R3',
              'TrafficSelector equality covers type, protocol, both ports and both addresses', key=('R3', 'ts-eq'),
              site=ctx.site(eq, eq.node), detail={'returned': tq.text(EQ.ret(), 400)})
    pe = ctx.func(IKESA + '.process_expire')
    PE = ctx.sval(pe)
    cs = PE.calls_to(callee='namedtuple.ChildSa')
    ok = len(cs) == 1
    if ok:
        kw = cs[0].args
        old = PE.expr('self.get_child_sa(%s)' % pe.call_params()[0])
        ok = same(kw.get('tsi', NONE), ('list', (attr(old, 'tsi'),))) and same(kw.get('tsr', NONE), ('list', (attr(old, 'tsr'),))) \
            and same(kw.get('mode', NONE), attr(old, 'mode'))
    ctx.check(ok, 'R3', 'a rekey request re-offers exactly the selectors and mode of the SA being replaced',
              key=('R3', 'rekey-offer'), site=ctx.site(pe, pe.node))

    # ---------------------------------------------------------------- R4
    isub = ctx.func('message.TrafficSelector.is_subset')
    ANY = prog.const_eval(ast.parse('TrafficSelector.IpProtocol.ANY', mode='eval').body, isub.module, isub.cls)
    quads = [q for q in itertools.product(range(4), repeat=4) if q[0] <= q[1] and q[2] <= q[3]]
    protos = [(ANY, ANY), (6, ANY), (6, 6), (6, 17), (ANY, 6)]
    n = 0
    bad = None
    for (t1, t2) in ((7, 7), (7, 8), (8, 7)):
        for (p1, p2) in protos:
            for (a, b, c, d) in quads:
                for (e, f, gg, h) in quads:
                    env = {'self.ts_type': t1, 'other.ts_type': t2, 'self.ip_proto': p1, 'other.ip_proto': p2,
                           'self.start_port': a, 'self.end_port': b, 'other.start_port': c, 'other.end_port': d,
                           'self.start_addr': e, 'self.end_addr': f, 'other.start_addr': gg, 'other.end_addr': h}
                    got = bool(evaluate(prog, isub, env))
                    want = t1 == t2 and (p2 == ANY or p1 == p2) and c <= a and b <= d and gg <= e and f <= h
                    n += 1
                    if got != want and bad is None:
                        bad = (env, got, want)
    ctx.stats['R4 abstract cases evaluated'] = n
    ctx.check(bad is None, 'R4', 'TrafficSelector.is_subset coincides with inclusion of the denoted packet sets on all %d '
              'abstract cases (type x protocol x weak orderings of port and address endpoints)' % n,
              key=('R4', 'is-subset-semantics'), site=ctx.site(isub, isub.node),
              detail={'counterexample': {k: v for k, v in bad[0].items()}, 'got': bad[1], 'expected': bad[2]} if bad else None)

    # ---------------------------------------------------------------- R5
    ts_kernel_view(ctx, 'R5')
    fe = ctx.func('message.PayloadNOTIFY.from_exception')
    ctx.check(common.notify_type_of(ctx, 'TsUnacceptable') == 'TS_UNACCEPTABLE', 'R5', 'TsUnacceptable -> TS_UNACCEPTABLE', key=('R5', 'table'), site=ctx.site(fe, fe.node))
    ok = common.own_notify_for(ctx, rq, 'TsUnacceptable')
    ctx.check(ok, 'R5', 'the responder answers TsUnacceptable with the single notification built from it',
              key=('R5', 'refusal-reply'), site=ctx.site(rq, rq.node))

    # ---------------------------------------------------------------- R6
    # what the kernel is told a selector is: addresses, prefix lengths, ports, masks, protocol and the address FAMILY of the selector
    # network itself (the tunnel endpoints may be of the other family), in the SA and in the policies (shared with C01 O8 / C14 L3 / C15 Y2)
    common.create_sa_orientation(ctx, 'R6')
    # the policy the responder narrows against is the configured one: each connection's selectors are built from its own section
    common.loaders_read_only(ctx, 'R2')
    from .c14 import check_policy_builder
    check_policy_builder(ctx, 'R6')
    cc = ctx.func('xfrm.Xfrm.create_child_sa')
    C = ctx.sval(cc)
    outs = [c for c in C.calls_to(qual='xfrm.Xfrm.create_sa') if c.args.get('spi') == attr(('param', 'child_sa'), 'outbound_spi')]
    want = {'src_selector': 'child_sa.tsi.get_network()', 'dst_selector': 'child_sa.tsr.get_network()',
            'src_port': 'child_sa.tsi.get_port()', 'dst_port': 'child_sa.tsr.get_port()'}
    for k, v in want.items():
        ctx.check(len(outs) == 1 and same(outs[0].args.get(k, NONE), C.expr(v)), 'R6', 'kernel %s (outbound SA) is %s' % (k, v),
                  key=('R6', k), site=ctx.site(cc, cc.node))
    # the inbound SA selects the same traffic seen from the other end: selectors and ports exchanged
    ins = [c for c in C.calls_to(qual='xfrm.Xfrm.create_sa') if c.args.get('spi') == attr(('param', 'child_sa'), 'inbound_spi')]
    want_in = {'src_selector': 'child_sa.tsr.get_network()', 'dst_selector': 'child_sa.tsi.get_network()',
               'src_port': 'child_sa.tsr.get_port()', 'dst_port': 'child_sa.tsi.get_port()'}
    for k, v in want_in.items():
        ctx.check(len(ins) == 1 and same(ins[0].args.get(k, NONE), C.expr(v)), 'R6', 'kernel %s (inbound SA) is %s' % (k, v),
                  key=('R6', 'inbound', k), site=ctx.site(cc, cc.node))


MANIFEST = {
    'level': 'Static decision on every path: each return of the responder\'s policy lookup is dominated by the is_subset facts '
             'that place the returned local/peer selectors inside both the request and the policy (both narrowing '
             'orientations), the fall-through raises TsUnacceptable, the triple is installed and announced in the same '
             'orientation, and mode / lookup validations dominate tracking and kernel installation on both roles; rekey '
             'selectors must equal the replaced SA\'s (crossed) with full-field equality; TrafficSelector.is_subset is '
             'evaluated by the checker\'s own interpreter on all abstract cases (type x protocol atoms x weak orderings of '
             'the four port and four address endpoints, 150 000 cases) and equals set inclusion; from_network/get_port '
             'constants; kernel selectors come from the CHILD_SA\'s own selectors.',
    'note': 'Trusted: resolver typing; order-invariance of is_subset (it only compares). Declined: get_network\'s supernet '
            'result for all ranges; list-level narrowing beyond per-element facts.',
    'technique': 'inclusion facts from path conditions (value terms) + entailment of the validations + exhaustive finite-abstraction evaluation of the containment predicate',
    'design_ref': 'DESIGN.md 3/C12',
}
MANIFEST['note'] += (' Also decided here (necessary conditions shared between properties or added after the independent '
                     'change rounds, DESIGN.md 8.7): traffic-selector codec hands fields on unchanged (from C05), each connection owns its protect list (from C19), inbound SA selectors/ports. Rounds 7-8: configuration loaders never write to the mapping they read.')
