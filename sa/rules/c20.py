"""C20 - Secrets appear in the log only in verbose (debug) mode.

Z1 (A9)  taint: sources are the PSK, SKEYSEED, the prf+ key material and everything split from it, every
         Keyring / Crypto key field, DH shared secrets and private keys, the cookie secret and the PSK key
         pad; propagation through assignment, tuple unpacking, attribute access on tainted objects,
         .hex()/str()/repr()/f-strings/format/%/+/containers/getattr, loop variables, arguments and returns
         over the resolved call graph, and *exception objects* (raise E(f'..{x}') taints E; the variable of
         every handler that can catch E is tainted).  One-way functions (prf, prf+, HMAC, compute, sign,
         encrypt) clear taint; their results are secrets again only when stored under a secret name.
Z2       sinks: every logging call of level >= INFO (logging.info/warning/error/critical/exception,
         logging.log with a constant level, IkeSa.log_info/log_warning/log_error, print).  No tainted value
         reaches one.  Debug sinks are enumerated in the evidence with what they receive.
Z3       the structured message dump (to_dict of a Message: AUTH data, KE data, ciphertext) is passed to
         log_debug only; the INFO line of log_message is built from names and sizes; every __str__ of the
         payload hierarchy returns names only; the status query's IkeSa.to_dict carries no key.
Z4       verbosity switch: the root level is DEBUG iff --verbose, else INFO; nothing else changes levels.
"""
import ast
import os
import tempfile

from ..escape import Hierarchy
from ..model import AnalysisError, src, walk_no_nested
from ..terms import callee_name, calls_in
from . import common

EXPLANATION = ('static analysis: interprocedural, exception-aware taint analysis from every key-material source to every logging '
               'sink classified by level, with one-way functions as sanitisers; plus the provenance of the message dump, the content '
               'of every __str__ used by the INFO line, and the verbosity switch')
ASSUMPTIONS = [
    'taint envelope: identifiers listed in SECRET_IDS name key material wherever they occur (checked floor: each is present in '
    'the tree); library exceptions do not embed key bytes in their messages; traceback.print_exc() writes to stderr, not to a '
    'log record',
    'one-way functions (prf, prf+, HMAC, integrity.compute, sign, encrypt, digest) clear taint: their outputs are not the listed '
    'kinds of secret unless stored under a secret name (skeyseed, keymat, keypad, sk_*); prf(PSK, "Key Pad for IKEv2") is secret by value',
]

SECRET_IDS = {'psk', 'skeyseed', 'keymat', 'keypad', 'shared_secret', 'sk_d', 'sk_ai', 'sk_ar', 'sk_ei', 'sk_er', 'sk_pi', 'sk_pr',
              'sk_e', 'sk_a', 'sk_p', 'old_sk_d', '_private_key', 'privkey', 'cookie_secret', 'ike_sa_keyring', 'child_sa_keyring',
              'keyring', 'ike_conf', 'ikeconf'}
SECRET_CONTAINERS = {'my_auth', 'peer_auth', 'configuration', 'ike_configurations'}   # records whose repr() shows credentials
SECRET_IDS_BY_MODULE = {'crypto': {'key'}, 'xfrm': {'key'}, 'configuration': {'conf_dict', 'ikeconfdict'}, 'pyikev2': {'conf_dict'}}
SECRET_KEYS = {'psk', 'privkey', 'my_auth', 'peer_auth'}     # keys of the configuration mapping that hold credentials
SANITISERS = {'len', 'prf', 'prfplus', 'compute', 'HMAC', 'digest', 'sign', 'verify', 'encrypt', 'decrypt', 'int', 'bool', 'isinstance',
              'type', 'hasattr', 'id', 'compute_secret', 'exchange', 'public_key', 'public_numbers', 'from_group', 'is_subset',
              'intersection', 'get_transform', 'get_transforms', 'bit_length', 'update', 'finalize'}
LOG_WRAPPERS = {'log_msg', 'log_info', 'log_warning', 'log_error', 'log_debug'}
INFO_SINKS = {'log_info', 'log_warning', 'log_error'}
LOGGING_INFO = {'info', 'warning', 'warn', 'error', 'critical', 'exception', 'fatal'}
LEVELS = {'DEBUG': 10, 'INFO': 20, 'WARNING': 30, 'WARN': 30, 'ERROR': 40, 'CRITICAL': 50, 'FATAL': 50, 'NOTSET': 0}


class Secrets:
    def __init__(self, prog, res):
        self.prog, self.res = prog, res
        self.hier = Hierarchy(prog)
        self.names = {}       # qual -> set of tainted local names
        self.ret = set()      # quals of functions whose return value is tainted
        self.exc = set()      # tainted exception class names
        self._tries = {}
        self.implicit = []    # (function, line, exception, construct): library / mapping operations that raise with a secret operand
        self.funcs = prog.all_functions()
        for f in self.funcs:
            self.names[f.qual] = set()
        self._fix()

    def _try_map(self, fi):
        m = self._tries.get(fi.qual)
        if m is None:
            m = {}

            def walk(node, stack):
                for c in ast.iter_child_nodes(node):
                    if isinstance(c, (ast.FunctionDef, ast.AsyncFunctionDef, ast.ClassDef)) and c is not fi.node:
                        continue
                    if isinstance(c, ast.Try):
                        for b in c.body:
                            m[id(b)] = [c] + stack
                            walk(b, [c] + stack)
                        for part in c.handlers + c.orelse + c.finalbody:
                            m[id(part)] = stack
                            walk(part, stack)
                    else:
                        m[id(c)] = stack
                        walk(c, stack)
            walk(fi.node, [])
            self._tries[fi.qual] = m
        return m

    def _guarded_lookup(self, fi, n):
        """d[k] under `if k in d:` (or after `if k not in d: <leave>`) cannot miss"""
        key, base = src(n.slice), src(n.value)

        def is_in(test, neg):
            for c in ast.walk(test):
                if isinstance(c, ast.Compare) and len(c.ops) == 1 and isinstance(c.ops[0], ast.NotIn if neg else ast.In) \
                        and src(c.left) == key and src(c.comparators[0]) == base:
                    return True
            return False

        def find(stmts):
            for i, st in enumerate(stmts):
                if any(x is n for x in ast.walk(st)):
                    # guard clause earlier in the same block
                    for prev in stmts[:i]:
                        if isinstance(prev, ast.If) and is_in(prev.test, True) and prev.body and isinstance(
                                prev.body[-1], (ast.Return, ast.Raise, ast.Continue, ast.Break)):
                            return True
                    if isinstance(st, ast.If):
                        if any(x is n for b in st.body for x in ast.walk(b)):
                            return (is_in(st.test, False) and not isinstance(st.test, ast.BoolOp)) or \
                                (isinstance(st.test, ast.BoolOp) and isinstance(st.test.op, ast.And) and is_in(st.test, False)) or find(st.body)
                        if any(x is n for b in st.orelse for x in ast.walk(b)):
                            return (is_in(st.test, True) and not isinstance(st.test, ast.BoolOp)) or find(st.orelse)
                        return False
                    for fld in ('body', 'orelse', 'finalbody', 'handlers'):
                        sub = getattr(st, fld, None)
                        if isinstance(sub, list) and sub:
                            blocks = [h.body for h in sub] if fld == 'handlers' else [sub]
                            for b in blocks:
                                if any(x is n for y in b for x in ast.walk(y)):
                                    return find(b)
                    return False
            return False
        return find(fi.node.body)

    def _implicit(self, fi, n, exc, tainted_locals):
        """an operation at node n raises `exc` with a secret operand in its text: caught in this function -> the handler's variable
        is tainted (nothing if it binds none); otherwise the exception class is tainted for every handler that can catch it"""
        for tr in self._try_map(fi).get(id(n), []):
            for h in tr.handlers:
                names = []
                if h.type is None:
                    names = ['BaseException']
                else:
                    for el in (h.type.elts if isinstance(h.type, ast.Tuple) else [h.type]):
                        nm = self.hier.name_of(el, fi.module, fi.cls)
                        if nm:
                            names.append(nm)
                if any(self.hier.is_sub(exc, c) for c in names):
                    if h.name and h.name not in tainted_locals:
                        tainted_locals.add(h.name)
                        self.implicit.append((fi.qual, n.lineno, exc, src(n)[:80], 'caught locally as ' + h.name))
                        return True
                    return False
        if exc in self.exc:
            return False
        self.exc.add(exc)
        self.implicit.append((fi.qual, n.lineno, exc, src(n)[:80], 'escapes the function'))
        return True

    def secret_id(self, fi, ident):
        return ident in SECRET_IDS or ident in SECRET_IDS_BY_MODULE.get(fi.module.name if fi else '', ())

    # ------------------------------------------------------------------ expression taint
    def why(self, fi, e, depth=0):
        """reason string when expression e may carry key material, else None"""
        if e is None or depth > 40:
            return None
        if isinstance(e, ast.Name):
            if self.secret_id(fi, e.id):
                return 'secret name `%s`' % e.id
            if fi is not None and e.id in self.names.get(fi.qual, ()):
                return 'local `%s` derived from key material' % e.id
            return None
        if isinstance(e, ast.Attribute):
            if self.secret_id(fi, e.attr):
                return 'secret field `%s`' % src(e)
            # field-sensitive for records: a field of an object that holds secrets is a secret only if the field itself
            # is one (secret id) or is a nested credential record; rendering the whole object is caught at the Name
            if e.attr in SECRET_CONTAINERS:
                return 'credential record `%s`' % src(e)
            return None
        if isinstance(e, ast.Subscript):
            if isinstance(e.slice, ast.Constant) and isinstance(e.slice.value, str):
                # field-sensitive read of the configuration mapping
                return 'configuration value %s' % src(e) if e.slice.value in SECRET_KEYS else None
            return self.why(fi, e.value, depth + 1) or (None if isinstance(e.slice, ast.Slice) else self.why(fi, e.slice, depth + 1))
        if isinstance(e, ast.Call):
            nm = callee_name(e)
            if any(k.arg == 'capture_locals' and not (isinstance(k.value, ast.Constant) and not k.value.value) for k in e.keywords):
                # a traceback rendered with the locals of every frame shows repr() of whatever those frames held: keyrings, key seeds, PSKs
                return 'traceback with the local variables of every frame (%s)' % src(e)[:50]
            if nm == 'prf' and any(isinstance(a, ast.Constant) and a.value == b'Key Pad for IKEv2' for a in e.args):
                # prf(PSK, "Key Pad for IKEv2") stands in for the PSK in every AUTH computation: as secret as the PSK, whatever
                # the variable holding it is called (and also when no variable holds it)
                return 'key pad %s (a PSK equivalent)' % src(e)[:50]
            if nm in SANITISERS:
                return None
            if nm == 'to_dict' and isinstance(e.func, ast.Attribute):
                r = self.res.resolve_call(e, fi, count=False) if fi is not None else None
                if (r is not None and r.targets and r.note != 'cha' and all(t.module.name == 'message' for t in r.targets)) \
                        or src(e.func.value) in ('message', 'request', 'response'):
                    return 'structured message dump %s (AUTH data, KE data, nonces, ciphertext)' % src(e)[:40]
            if nm in LOG_WRAPPERS:
                return None
            if nm == 'get' and isinstance(e.func, ast.Attribute) and e.args and isinstance(e.args[0], ast.Constant) \
                    and isinstance(e.args[0].value, str):
                if e.args[0].value in SECRET_KEYS:
                    return 'configuration value %s' % src(e)[:50]
                return self.why(fi, e.args[1], depth + 1) if len(e.args) > 1 else None
            if isinstance(e.func, ast.Attribute):
                w = self.why(fi, e.func.value, depth + 1)
                if w:
                    return w
            r = self.res.resolve_call(e, fi, count=False) if fi is not None else None
            if r is not None and r.kind in ('repo', 'dyn') and r.targets:
                # (dyn: a call through a local that holds one of several repository callables, or a lambda wrapping them)
                tg = r.targets
                if r.note.startswith('cha'):
                    # name-based fallback: prefer the candidates of the calling module (ChildSa.to_dict in ikesa.py) when there are any
                    same = [t for t in tg if fi is not None and t.module is fi.module]
                    tg = same or tg
                hit = [t for t in tg if t.qual in self.ret]
                if hit:
                    return 'result of %s, which returns key material' % hit[0].qual
                return None
            if r is not None and r.kind == 'ctor' and r.cls is not None and not any(
                    'Structure' in b for b in r.cls.all_ext_bases()):
                return None      # repository objects do not render their fields (ctypes structures do: bytes(obj))
            for a in list(e.args) + [k.value for k in e.keywords]:
                w = self.why(fi, a, depth + 1)
                if w:
                    return w
            return None
        if isinstance(e, ast.JoinedStr):
            for v in e.values:
                w = self.why(fi, v, depth + 1)
                if w:
                    return w
            return None
        if isinstance(e, ast.FormattedValue):
            return self.why(fi, e.value, depth + 1)
        if isinstance(e, (ast.GeneratorExp, ast.ListComp, ast.SetComp)):
            for g in e.generators:
                w = self.why(fi, g.iter, depth + 1)
                if w:
                    return w
            return self.why(fi, e.elt, depth + 1)
        if isinstance(e, ast.Lambda):
            return self.why(fi, e.body, depth + 1)
        if isinstance(e, ast.Constant):
            return None
        for c in ast.iter_child_nodes(e):
            if isinstance(c, ast.expr):
                w = self.why(fi, c, depth + 1)
                if w:
                    return w
        return None

    # ------------------------------------------------------------------ fixpoint
    def _fix(self):
        changed = True
        rounds = 0
        while changed:
            changed = False
            rounds += 1
            if rounds > 40:
                raise AnalysisError('secret taint did not converge')
            for fi in self.funcs:
                t = self.names[fi.qual]
                before = len(t)
                for n in walk_no_nested(fi.node):
                    if isinstance(n, ast.Assign) and self.why(fi, n.value):
                        for tg in n.targets:
                            for x in ast.walk(tg):
                                if isinstance(x, ast.Name) and isinstance(x.ctx, ast.Store):
                                    t.add(x.id)
                            if isinstance(tg, ast.Subscript) and isinstance(tg.value, ast.Name):
                                t.add(tg.value.id)      # container[...] = secret taints the container
                    elif isinstance(n, ast.AugAssign) and isinstance(n.target, ast.Name) and self.why(fi, n.value):
                        t.add(n.target.id)
                    elif isinstance(n, (ast.For, ast.comprehension)) and self.why(fi, n.iter):
                        tg = n.target
                        if isinstance(n.iter, ast.Call) and callee_name(n.iter) == 'items' and isinstance(tg, ast.Tuple) and len(tg.elts) == 2:
                            tg = tg.elts[1]     # keys of a mapping are names, only the values can be credentials
                        for x in ast.walk(tg):
                            if isinstance(x, ast.Name):
                                t.add(x.id)
                    elif isinstance(n, ast.Return) and n.value is not None and fi.qual not in self.ret and self.why(fi, n.value):
                        self.ret.add(fi.qual)
                        changed = True
                    elif isinstance(n, ast.Raise) and n.exc is not None:
                        tgt = n.exc.func if isinstance(n.exc, ast.Call) else n.exc
                        name = self.hier.name_of(tgt, fi.module, fi.cls)
                        if name and name not in self.exc and isinstance(n.exc, ast.Call) and any(
                                self.why(fi, a) for a in list(n.exc.args) + [k.value for k in n.exc.keywords]):
                            self.exc.add(name)
                            changed = True
                    elif isinstance(n, ast.Subscript) and isinstance(n.ctx, ast.Load) and not isinstance(n.slice, (ast.Slice, ast.Constant)) \
                            and self.why(fi, n.slice) and not self._guarded_lookup(fi, n):
                        # a mapping lookup that misses raises KeyError(key): the exception text is the key
                        if self._implicit(fi, n, 'KeyError', t):
                            changed = True
                    elif isinstance(n, ast.ExceptHandler) and n.name and n.name not in t:
                        caught = []
                        if n.type is None:
                            caught = ['BaseException']
                        else:
                            for el in (n.type.elts if isinstance(n.type, ast.Tuple) else [n.type]):
                                nm = self.hier.name_of(el, fi.module, fi.cls)
                                if nm:
                                    caught.append(nm)
                        if any(self.hier.is_sub(e, c) or self.hier.is_sub(c, e) for e in self.exc for c in caught):
                            t.add(n.name)
                    elif isinstance(n, ast.Call):
                        # library conversions whose failure message (or repr) embeds the operand they were given
                        nm_ = callee_name(n)
                        ex_ = None
                        if nm_ in ('encode', 'decode') and isinstance(n.func, ast.Attribute) and self.why(fi, n.func.value):
                            codec = n.args[0] if n.args else next((k.value for k in n.keywords if k.arg == 'encoding'), None)
                            lossless = codec is None or (isinstance(codec, ast.Constant) and str(codec.value).lower().replace('_', '-') in
                                                         ('utf-8', 'utf8')) and nm_ == 'encode'
                            if not lossless:
                                ex_ = 'UnicodeEncodeError' if nm_ == 'encode' else 'UnicodeDecodeError'
                        elif nm_ in ('int', 'float', 'ip_address', 'ip_network', 'ip_interface', 'UUID') and isinstance(n.func, ast.Name) \
                                and n.args and self.why(fi, n.args[0]):
                            ex_ = 'ValueError'
                        if ex_ and self._implicit(fi, n, ex_, t):
                            changed = True
                        r = self.res.resolve_call(n, fi, count=False)
                        if r.kind in ('repo', 'ctor') and callee_name(n) not in LOG_WRAPPERS | SANITISERS:
                            for tgt in r.targets:
                                params = tgt.call_params()
                                for i, a in enumerate(n.args):
                                    if i < len(params) and params[i] not in self.names[tgt.qual] and self.why(fi, a):
                                        self.names[tgt.qual].add(params[i])
                                        changed = True
                                for kw in n.keywords:
                                    if kw.arg and kw.arg in params and kw.arg not in self.names[tgt.qual] and self.why(fi, kw.value):
                                        self.names[tgt.qual].add(kw.arg)
                                        changed = True
                if len(t) != before:
                    changed = True


def level_of(prog, fi, e):
    """numeric level of a `logging.X` expression, or None"""
    t = src(e)
    if t.startswith('logging.') and t.split('.')[-1] in LEVELS:
        return LEVELS[t.split('.')[-1]]
    if isinstance(e, ast.Constant) and isinstance(e.value, int):
        return e.value
    return None


def scan(ctx, prog, res, sec, strict=True):
    """classify every logging / print call; returns (violations, debug sinks with tainted content, counts)"""
    viol, debug, counts = [], [], {'info+': 0, 'debug': 0, 'print': 0}
    for fi in prog.all_functions() + [None]:
        nodes = []
        if fi is None:
            continue
        for x in walk_no_nested(fi.node, include_lambda=True):
            if isinstance(x, ast.Call):
                nodes.append(x)
        for x in nodes:
            nm = callee_name(x)
            f = x.func
            args = list(x.args) + [k.value for k in x.keywords]
            kind = None
            if isinstance(f, ast.Attribute) and src(f.value) == 'logging':
                if nm in LOGGING_INFO:
                    kind = 'info+'
                elif nm == 'debug':
                    kind = 'debug'
                elif nm == 'log':
                    lv = level_of(prog, fi, x.args[0]) if x.args else None
                    if lv is None:
                        if fi.name == 'log_msg':
                            continue        # the wrapper itself: its callers are classified by their constant level
                        kind = 'info+'
                        viol.append((fi, x, 'Z2', 'logging.log with a level that is not a constant: cannot be classified'))
                        continue
                    kind = 'debug' if lv < 20 else 'info+'
                    args = args[1:]
            elif nm in INFO_SINKS and isinstance(f, ast.Attribute):
                kind = 'info+'
            elif nm == 'log_debug' and isinstance(f, ast.Attribute):
                kind = 'debug'
            elif nm == 'log_msg' and isinstance(f, ast.Attribute):
                lv = level_of(prog, fi, x.args[0]) if x.args else None
                if fi.name in LOG_WRAPPERS and lv is not None:
                    want = {'log_error': 40, 'log_info': 20, 'log_warning': 30, 'log_debug': 10}.get(fi.name)
                    if want is not None and lv != want:
                        viol.append((fi, x, 'Z2', '%s logs at level %s instead of %s' % (fi.name, lv, want)))
                    continue
                if lv is None:
                    viol.append((fi, x, 'Z2', 'log_msg with a level that is not a constant'))
                    continue
                kind = 'debug' if lv < 20 else 'info+'
                args = args[1:]
            elif isinstance(f, ast.Name) and f.id == 'print':
                kind = 'print'
            if kind is None:
                continue
            counts[kind] = counts.get(kind, 0) + 1
            for a in args:
                w = sec.why(fi, a)
                if not w:
                    continue
                if kind == 'debug':
                    debug.append((fi, x, w))
                else:
                    viol.append((fi, x, 'Z2', '%s sink `%s` receives %s' % ('print' if kind == 'print' else 'INFO-or-above logging',
                                                                              src(x)[:70], w)))
    # module-level statements (pyikev2.py)
    for m in prog.modules.values():
        for st in m.tree.body:
            if isinstance(st, (ast.FunctionDef, ast.ClassDef)):
                continue
            if isinstance(st, ast.Try):
                for h in st.handlers:
                    if not h.name or h.type is None:
                        continue
                    caught = [src(el).split('.')[-1] for el in (h.type.elts if isinstance(h.type, ast.Tuple) else [h.type])]
                    hot = any(sec.hier.is_sub(e, c) or sec.hier.is_sub(c, e) for e in sec.exc for c in caught)
                    for x in ast.walk(ast.Module(body=h.body, type_ignores=[])):
                        if hot and isinstance(x, ast.Call) and isinstance(x.func, ast.Attribute) and src(x.func.value) == 'logging' \
                                and x.func.attr in LOGGING_INFO and any(isinstance(y, ast.Name) and y.id == h.name for a in x.args
                                                                        for y in ast.walk(a)):
                            viol.append((None, x, 'Z2', 'module-level handler logs `%s`, an exception whose message can embed key '
                                                        'material' % h.name))
            for x in ast.walk(st):
                if isinstance(x, ast.Call) and isinstance(x.func, ast.Attribute) and src(x.func.value) == 'logging' \
                        and x.func.attr in LOGGING_INFO:
                    counts['info+'] += 1
                    for a in list(x.args):
                        w = sec.why(None, a)
                        if w:
                            viol.append((None, x, 'Z2', 'module-level logging call receives %s' % w))
    return viol, debug, counts


FIXTURE_IKESA = '''
import logging
from message import IkeSaError


class IkeSa(object):
    def log_msg(self, level, message):
        logging.log(level, message)

    def log_info(self, message):
        self.log_msg(logging.INFO, message)

    def log_error(self, message):
        self.log_msg(logging.ERROR, message)

    def log_debug(self, message):
        self.log_msg(logging.DEBUG, message)

    def derive(self, keymat):
        sk_d, sk_ai = keymat[:4], keymat[4:]
        self.log_debug(f'key {sk_d.hex()}')
        self.log_info(f'Generated key: {sk_ai.hex()}')
        return sk_d

    def fail(self):
        raise IkeSaError(f'bad key {self.my_crypto.sk_e}')

    def handle(self):
        try:
            self.fail()
        except IkeSaError as ex:
            self.log_error(str(ex))
'''
FIXTURE_MESSAGE = '''
class IkeSaError(Exception):
    pass
'''


def positive_control(ctx):
    from ..driver import Ctx
    with tempfile.TemporaryDirectory() as d:
        with open(os.path.join(d, 'ikesa.py'), 'w') as f:
            f.write(FIXTURE_IKESA)
        with open(os.path.join(d, 'message.py'), 'w') as f:
            f.write(FIXTURE_MESSAGE)
        c2 = Ctx('C20', root=d, quiet=True, normalise=False)
        sec = Secrets(c2.prog, c2.res)
        viol, debug, counts = scan(c2, c2.prog, c2.res, sec, strict=False)
    msgs = [v[3] for v in viol]
    direct = any('sk_ai' in m for m in msgs)
    via_exc = any('str(ex)' in m or 'log_error(str(ex))' in m for m in msgs)
    return direct and via_exc and len(debug) == 1 and len(viol) == 2


def run(ctx):
    prog, res = ctx.prog, ctx.res
    # ---------------------------------------------------------------- Z1 anchors
    idents = set()
    for m in prog.modules.values():
        for x in ast.walk(m.tree):
            if isinstance(x, ast.Name):
                idents.add(x.id)
            elif isinstance(x, ast.Attribute):
                idents.add(x.attr)
            elif isinstance(x, ast.arg):
                idents.add(x.arg)
    missing = sorted(SECRET_IDS - idents - {'keyring', 'ike_conf', 'ikeconf', 'keypad'})
    ctx.require(not missing, 'anchor vanished: secret identifiers no longer present in the tree: %s (extend SECRET_IDS with their '
                'new names)' % missing)
    ctx.require(positive_control(ctx), 'positive control failed: the taint rules do not report the leaking fixture')
    ctx.ok('Z1', 'positive control: a key logged at INFO and a key embedded in an exception message that a handler logs at ERROR are '
           'both reported on the fixture, the debug dump is not')
    sec = Secrets(prog, res)
    ctx.stats["operations that raise with a secret operand (KeyError of a lookup, failing conversions)"] = [list(x) for x in sec.implicit]
    ctx.stats['Z1 functions holding key material'] = {q: sorted(s) for q, s in sec.names.items() if s}
    ctx.stats['Z1 functions returning key material'] = sorted(sec.ret)
    ctx.stats['Z1 exception classes carrying key material'] = sorted(sec.exc)
    ctx.floor('Z1 functions holding key material', sum(1 for s in sec.names.values() if s), 12)

    # ---------------------------------------------------------------- Z2
    viol, debug, counts = scan(ctx, prog, res, sec)
    ctx.floor('Z2 logging calls at INFO or above', counts['info+'], 40)
    ctx.floor('Z2 debug logging calls', counts['debug'], 10)
    for fi, x, rule, msg in viol:
        where = fi.qual if fi is not None else 'module level'
        ctx.bad(rule, (rule, where, src(x)[:80]), '%s: %s' % (where, msg), ctx.site(fi, x) if fi is not None else 'pyikev2.py:%s' % x.lineno)
    if not viol:
        ctx.ok('Z2', 'no key material reaches any of the %d logging calls of level INFO or above (nor print)' % (counts['info+'] + counts['print']))
    ctx.floor('Z2 debug sinks that do receive key material (the promised verbose output)', len(debug), 7)
    for fi, x, w in debug:
        ctx.ok('Z2', 'debug-only: `%s` receives %s' % (src(x)[:60], w), ctx.site(fi, x))
    ctx.stats['Z2 call counts'] = counts

    # ---------------------------------------------------------------- Z3
    lm = ctx.func('ikesa.IkeSa.log_message')
    dumps = [c for c in calls_in(lm.node) if callee_name(c) == 'to_dict']
    ctx.check(len(dumps) == 1, 'Z3', 'log_message renders the structured dump once', key=('Z3', 'dump'), site=ctx.site(lm, lm.node))
    users = []
    for fi in prog.all_functions():
        for c in calls_in(fi.node):
            if callee_name(c) == 'to_dict' and isinstance(c.func, ast.Attribute) and src(c.func.value) in ('message', 'request', 'response') \
                    and fi.module.name != 'message':
                users.append(fi.qual)
    ctx.check(users == ['ikesa.IkeSa.log_message'], 'Z3', 'the message dump is produced only in IkeSa.log_message (where it goes to '
              'log_debug, see Z2)', key=('Z3', 'dump-users', ','.join(users)))
    # __str__ of the payload hierarchy
    nstr = 0
    for c in prog.module('message').classes.values():
        s = c.methods.get('__str__')
        if s is None:
            continue
        nstr += 1
        rets = [r for r in walk_no_nested(s.node) if isinstance(r, ast.Return)]
        ok = len(rets) == 1
        if ok:
            for x in ast.walk(rets[0].value):
                if isinstance(x, ast.Attribute) and src(x.value) == 'self':
                    ok = ok and x.attr in ('type', 'notification_type')
                if isinstance(x, ast.Attribute) and x.attr not in ('type', 'notification_type', 'name'):
                    ok = False
        ctx.check(ok, 'Z3', '%s.__str__ shows type names only' % c.name, key=('Z3', 'str', c.name), site=ctx.site(s, s.node))
    ctx.floor('Z3 __str__ methods in message.py', nstr, 2)
    itd = ctx.func('ikesa.IkeSa.to_dict')
    w = None
    for r in walk_no_nested(itd.node):
        if isinstance(r, (ast.Return, ast.Assign)):
            w = w or sec.why(itd, r.value)
    ctx.check(w is None, 'Z3', 'the status query (IkeSa.to_dict) carries no key material', key=('Z3', 'status'), site=ctx.site(itd, itd.node),
              detail={'found': w})
    for q in ('ikesa.ChildSa.to_dict', 'ikesa.ChildSa.__str__'):
        f = prog.functions.get(q)
        if f is not None:
            w = None
            for r in walk_no_nested(f.node):
                if isinstance(r, ast.Return):
                    w = sec.why(f, r.value)
            ctx.check(w is None, 'Z3', '%s carries no key material' % q, key=('Z3', q), site=ctx.site(f, f.node))

    # ---------------------------------------------------------------- Z4
    py = prog.module('pyikev2')
    cfg = []
    for m in prog.modules.values():
        for x in ast.walk(m.tree):
            if isinstance(x, ast.Call) and callee_name(x) in ('basicConfig', 'setLevel', 'disable', 'addLevelName'):
                cfg.append((m.name, x))
    ctx.check(len(cfg) == 1 and cfg[0][0] == 'pyikev2' and callee_name(cfg[0][1]) == 'basicConfig', 'Z4',
              'the log level is configured in exactly one place (pyikev2.py, logging.basicConfig)', key=('Z4', 'single-config'),
              detail={'found': [(a, src(b)[:60]) for a, b in cfg]})
    if cfg:
        from ..sval import module_body, mk_cond
        from .. import tq
        MB = module_body(prog, res, py)
        bc = [c for c in MB.calls if c.node is cfg[0][1]]
        lv = bc[0].args.get('level') if bc else None
        want = None
        if lv is not None and lv[0] == 'cond':
            verbose = lv[1]
            want = mk_cond(verbose, MB.expr('logging.DEBUG'), MB.expr('logging.INFO'))
            ok = lv == want and verbose[0] == 'attr' and verbose[2] == 'verbose' and tq.is_call(verbose[1]) and verbose[1][1] == 'method.parse_args'
        else:
            ok = False
        ctx.check(ok and not bc[0].pc, 'Z4', 'the root level is DEBUG exactly when --verbose is given, else INFO (configured unconditionally)',
                  key=('Z4', 'level'), detail={'found': tq.text(lv) if lv is not None else None})
    # the start-up failure path: a YAML error of the configuration file is logged at ERROR with the parser's own message.  PyYAML quotes
    # the offending lines in that message when it was given the text (a str / bytes: Mark.get_snippet), not when it reads a stream -
    # and the offending line may be the one with the PSK.  The file goes to the parser as the open file object.
    if cfg:
        yl = [c for c in MB.calls if isinstance(c.callee, str) and c.callee.startswith('yaml.') and c.callee.split('.')[-1] in (
            'load', 'safe_load', 'full_load', 'unsafe_load', 'load_all', 'safe_load_all')]
        ctx.floor('Z2 YAML parser calls in pyikev2.py', len(yl), 1, rule='Z2')
        for c in yl:
            a0 = c.args.get('#0', c.args.get('stream'))
            ok = a0 is not None and a0[0] == 'with' and tq.is_call(a0[1], 'builtins.open')
            ctx.check(ok, 'Z2', 'the configuration file is parsed from the open file (a stream), not from its text: the parser\'s error message, '
                      'which is logged at ERROR, then quotes nothing of the file', key=('Z2', 'yaml-stream'),
                      detail={'argument': tq.text(a0, 160) if a0 is not None else None})
    adds = [x for x in ast.walk(py.tree) if isinstance(x, ast.Call) and callee_name(x) == 'add_argument' and any(
        isinstance(a, ast.Constant) and a.value == '--verbose' for a in x.args)]
    ok = len(adds) == 1 and any(k.arg == 'action' and isinstance(k.value, ast.Constant) and k.value.value == 'store_true' for k in adds[0].keywords)
    ctx.check(ok, 'Z4', '--verbose is an opt-in flag (off by default)', key=('Z4', 'flag'))
    lm_ = ctx.func('ikesa.IkeSa.log_msg')
    # (by value: the level that reaches logging.log is the parameter itself on every path - not one raised, lowered or replaced on the
    # way; the classification of every log_msg / log_debug call site above rests on this)
    LM = ctx.sval(lm_)
    emits = [c for c in LM.calls if c.callee in ('logging.log',) or (c.name == 'log' and 'logging' in tq.text(c.recv or ('undef',)))]
    lvl = ('param', lm_.call_params()[0])
    ctx.check(bool(emits) and all(list(c.args.values())[:1] == [lvl] for c in emits)
              and not any(c.name in ('debug', 'info', 'warning', 'error', 'critical', 'exception') and 'logging' in tq.text(c.recv or ('undef',))
                          for c in LM.calls), 'Z4', 'IkeSa.log_msg emits at the level it is given', key=('Z4', 'log_msg'),
              site=ctx.site(lm_, lm_.node), detail={'levels': [tq.text(list(c.args.values())[0], 120) for c in emits if c.args]})


MANIFEST = {
    'level': 'All-paths (flow-insensitive, interprocedural, exception-aware) taint decision inside the stated envelope: no value '
             'derived from the PSK, SKEYSEED, prf+ key material, any SK_*/CHILD key, a DH shared secret or private key, the cookie '
             'secret or the PSK key pad reaches any logging call of level INFO or above or print - directly, through helper '
             'arguments/returns, or through the message of an exception that a handler logs; the structured message dump goes to '
             'log_debug only; __str__ of payloads shows names only; the status query carries no key; the level is DEBUG iff --verbose. '
             'A positive control (fixture with a direct and an exception-borne leak) must be reported on every run.',
    'note': 'Trusted: the list of secret identifiers (floor-checked for presence), one-way functions as sanitisers, library '
            'exception texts. traceback.print_exc() (stderr) is outside the log.',
    'technique': 'interprocedural exception-aware taint analysis to level-classified logging sinks',
    'design_ref': 'DESIGN.md 3/C20',
}
MANIFEST['note'] += (' Also decided here (necessary conditions shared between properties or added after the independent '
                     'change rounds, DESIGN.md 8.7): operations that raise with a secret operand (KeyError of a lookup, failing conversions) as taint sources, scoped by local handlers. Rounds 7-8: prf(PSK, key pad text) is a secret by value; the table of connection records is a credential container; the YAML parser gets a stream.')
