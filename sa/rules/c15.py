"""C15 - Installed policies mirror the configuration and acquires map back to it.

Y1 (A4)  start/stop ordering: both flushes dominate the first policy installation, which covers every
         connection and every protect entry; close() flushes both on every path.
Y2 (A5)  per protect entry exactly three policies with directions OUT / IN / FWD: OUT = (local net, peer net,
         local port, peer port, my_addr -> peer_addr, index); IN and FWD are its argument-wise mirror and
         carry no index; protocol, IPsec protocol and mode are the same in all three.
Y3 (A7/A11) index encoding `index << 3 | XFRM_POLICY_OUT` and the decoding `>> 3` in the controller agree
         (same shift; directions fit below the shift), evaluated for many indices.
Y4 (A4/A5) acquire handling: addresses from the template, selectors from the acquire's selector, index
         decoded; an IKE_SA with that peer is reused before a new initiator IKE_SA is created; IkeSa.process_acquire
         looks the entry up by index, does nothing for an unknown index, and takes proposal, mode, lifetime and the
         offered selectors from that entry.
"""
import ast

from ..sval import NONE, const, same, strip_ids
from .. import tq
from . import common

EXPLANATION = ('static analysis: dominance of policy installation by the flushes, the three create_policy calls compared as an '
               'involution with their direction constants, finite evaluation of the index encode/decode pair, and provenance of '
               'every value the acquire path hands to the negotiation')
ASSUMPTIONS = [
    'declined: restart / crash-point histories; that the kernel\'s acquire selectors lie inside the policy entry (kernel behaviour); '
    'the SPD contents as a runtime model',
]

def attr(t, n):
    return ('attr', t, n)


def P(n):
    return ('param', n)


def mirror(t, pairs):
    if isinstance(t, tuple):
        for x, y in pairs:
            if t == x:
                return y
            if t == y:
                return x
        return tuple(mirror(z, pairs) for z in t)
    return t


def run(ctx):
    prog, res = ctx.prog, ctx.res

    # ---------------------------------------------------------------- Y1
    ci = ctx.func('ikesacontroller.IkeSaController.__init__')
    CI = ctx.sval(ci)
    site = ctx.site(ci, ci.node)
    fp = CI.calls_to(qual='xfrm.Xfrm.flush_policies')
    fs = CI.calls_to(qual='xfrm.Xfrm.flush_sas')
    cp = CI.calls_to(qual='xfrm.Xfrm.create_policies')
    ctx.check(len(fp) >= 1 and len(fs) >= 1, 'Y1', 'the controller flushes the SPD and the SAD at start-up', key=('Y1', 'flushes-present'), site=site)
    ctx.check(len(cp) == 1, 'Y1', 'the controller installs the configured policies at start-up', key=('Y1', 'install-present'), site=site)
    for c in cp:
        ctx.check(any(not f.pc and f.seq < c.seq for f in fp), 'Y1', 'no policy is installed before the SPD was flushed (unconditionally)',
                  key=('Y1', 'flush-policies-first'), site=ctx.site(ci, c.node))
        ctx.check(any(not f.pc and f.seq < c.seq for f in fs), 'Y1', 'no policy is installed before the SAD was flushed (unconditionally)',
                  key=('Y1', 'flush-sas-first'), site=ctx.site(ci, c.node))
        a = strip_ids(list(c.args.values())[0]) if c.args else ('undef',)
        conf = strip_ids(CI.expr('self.configuration.ike_configurations.values()', dict(CI.entry_env, **{'self.configuration': CI.final('self.configuration') or attr(P('self'), 'configuration')})))
        alt = strip_ids(CI.expr('self.configuration.ike_configurations.values()'))
        ok = a[0] == 'elem' and a[1] in (conf, alt, strip_ids(CI.expr('configuration.ike_configurations.values()'))) and not c.pc
        ctx.check(ok, 'Y1', 'policies are installed for every connection of the configuration', key=('Y1', 'all-connections'),
                  site=ctx.site(ci, c.node), detail={'argument': tq.text(a), 'condition': [tq.text(x[0]) for x in c.pc]})
    cl = ctx.func('ikesacontroller.IkeSaController.close')
    CL = ctx.sval(cl)
    last_flush = 0
    for name in ('flush_policies', 'flush_sas'):
        ns = CL.calls_to(qual='xfrm.Xfrm.' + name)
        ctx.check(any(not c.pc for c in ns), 'Y1', 'close() calls %s on every path' % name, key=('Y1', 'close', name), site=ctx.site(cl, cl.node))
        last_flush = max([last_flush] + [c.seq for c in ns if not c.pc][:1])
    # ... and first: close() can be called (SIGINT) before main_loop has created the sockets it also closes; whatever else it does comes
    # after the two flushes, so that a failure there cannot leave the policies installed
    before = [c for c in CL.calls if c.seq < last_flush and not (c.callee or '').startswith(('logging.', 'xfrm.Xfrm.flush_')) and
              not (isinstance(c.callee, str) and c.callee.startswith('method.') and tq.text(c.recv or NONE).startswith('logging'))]
    ctx.check(not before, 'Y1', 'close() flushes the SPD and the SAD before anything else that can fail', key=('Y1', 'close', 'flush-first'),
              site=ctx.site(cl, cl.node), detail={'runs before the flushes': [tq.text(c.term, 80) for c in before]})
    py = prog.module('pyikev2')
    from ..sval import module_body
    MB = module_body(prog, res, py)
    sig = [c for c in MB.calls if c.callee == 'signal.signal' and tq.text(c.args.get('#0', NONE)) == 'signal.SIGINT']
    hname = None
    if len(sig) == 1:
        h = sig[0].args.get('#1', NONE)
        hname = h[1] if h[0] == 'localdef' else None
    hf = prog.functions.get('pyikev2.%s' % hname) if hname else None
    ok = hf is not None and any(c.name == 'close' and any(q.endswith('IkeSaController.close') for q in c.quals) or
                                (c.name == 'close' and 'controller' in tq.text(c.recv or NONE)) for c in ctx.sval(hf).calls)
    ctx.check(ok, 'Y1', 'the daemon closes the controller on SIGINT', key=('Y1', 'sigint'))

    # ---------------------------------------------------------------- Y2
    cps = ctx.func('xfrm.Xfrm.create_policies')
    cpf = ctx.func('xfrm.Xfrm.create_policy')
    S = ctx.sval(cps)
    site = ctx.site(cps, cps.node)
    conn = P(cps.call_params()[0])
    calls = S.calls_to(qual=cpf.qual)
    ents = {strip_ids(x) for c in calls for x in tq.find(c.term, lambda t: t[0] == 'elem')}
    E = ('elem', attr(conn, 'protect'), 0)
    ctx.check(ents == {E}, 'Y2', 'create_policies covers every protect entry of the connection', key=('Y2', 'all-entries'), site=site,
              detail={'iterates': [tq.text(x) for x in ents]})
    ctx.check(len(calls) == 3 and all(not c.pc for c in calls) and len({c.seq for c in calls}) == 3, 'Y2',
              'exactly three policies are installed per entry, unconditionally', key=('Y2', 'three'), site=site, detail={'found': len(calls)})
    # the selector of a policy is the network get_network() makes of the configured range, the port what get_port() makes of it:
    # the smallest network covering the range, found by widening (shared with C12 R5 / C14 L3)
    from .c12 import ts_kernel_view
    ts_kernel_view(ctx, 'Y2')
    enc = None
    if len(calls) == 3:
        bs = [{k: strip_ids(v) for k, v in c.args.items()} for c in calls]
        dirs = {tq.text(b.get('direction', NONE)).split('.')[-1]: b for b in bs}
        ctx.check(set(dirs) == {'XFRM_POLICY_OUT', 'XFRM_POLICY_IN', 'XFRM_POLICY_FWD'}, 'Y2',
                  'the three policies have directions OUT, IN and FWD', key=('Y2', 'directions'), site=site, detail={'found': sorted(dirs)})
        out = dirs.get('XFRM_POLICY_OUT')
        if out is not None and len(dirs) == 3:
            X = lambda text: strip_ids(S.expr(text, dict(S.entry_env, E=E)))    # noqa: E731
            want = {'src_selector': X('E.my_ts.get_network()'), 'dst_selector': X('E.peer_ts.get_network()'),
                    'src_port': X('E.my_ts.get_port()'), 'dst_port': X('E.peer_ts.get_port()'), 'ip_proto': X('E.my_ts.ip_proto'),
                    'mode': X('E.mode'), 'src': attr(conn, 'my_addr'), 'dst': attr(conn, 'peer_addr')}
            for k, v in want.items():
                ctx.check(out.get(k) == v, 'Y2', 'outbound policy: %s = %s' % (k, tq.text(v)), key=('Y2', 'out', k), site=site,
                          detail={'found': tq.text(out[k]) if k in out else None})
            pr = out.get('ipsec_proto')
            vals = None
            if pr is not None:
                vals = []
                for proto in ('ESP', 'AH'):
                    def leaf(t, proto=proto):
                        if t == attr(attr(E, 'proposal'), 'protocol_id'):
                            return proto
                        if t[0] == 'global' and t[1].endswith('Protocol.ESP'):
                            return 'ESP'
                        if t[0] == 'global' and t[1] in ('socket.IPPROTO_ESP', 'socket.IPPROTO_AH'):
                            return t[1]
                        raise tq.NoValue()
                    try:
                        vals.append(tq.teval(pr, leaf))
                    except (tq.NoValue, Exception):
                        vals.append(None)
            ctx.check(vals == ['socket.IPPROTO_ESP', 'socket.IPPROTO_AH'], 'Y2', 'the template protocol is ESP for ESP entries and AH otherwise',
                      key=('Y2', 'ipsec-proto'), site=site, detail={'found': tq.text(pr) if pr is not None else None})
            enc = out.get('index')
            ctx.check(enc is not None, 'Y2', 'the outbound policy carries the index', key=('Y2', 'out', 'index'), site=site)
            sigma = [(attr(E, 'my_ts'), attr(E, 'peer_ts')), (attr(conn, 'my_addr'), attr(conn, 'peer_addr'))]
            for d in ('XFRM_POLICY_IN', 'XFRM_POLICY_FWD'):
                b = dirs[d]
                ctx.check(b.get('index') in (None, const(0)), 'Y2', '%s policy carries no index (acquires come from outbound policies only)' % d[12:],
                          key=('Y2', d, 'no-index'), site=site)
                for k in cpf.call_params():
                    if k in ('direction', 'index'):
                        continue
                    v1 = out.get(k)
                    exp = mirror(v1, sigma) if v1 is not None else None
                    if k == 'ip_proto':
                        exp = v1
                    ctx.check(v1 is not None and b.get(k) == exp, 'Y2', '%s policy: %s is the mirror image of the outbound policy\'s' % (d[12:], k),
                              key=('Y2', d, 'mirror', k), site=site,
                              detail={'outbound': tq.text(v1) if v1 else None, 'found': tq.text(b[k]) if k in b else None})

    # the values create_policy receives reach the policy message: selectors (family following the selector, not the tunnel endpoint),
    # ports, protocol, direction, index; and the template: endpoints, family, mode, IPsec protocol
    from .c14 import check_policy_builder, check_layouts
    check_policy_builder(ctx, 'Y2')
    # ... in the layout the kernel reads them: selector, policy, template and acquire mirrors against the UAPI structures
    from ..uapi import Headers
    check_layouts(ctx, Headers(), 'Y2', only=('xfrm.XfrmAddress', 'xfrm.XfrmSelector', 'xfrm.XfrmId', 'xfrm.XfrmUserTmpl',
                                               'xfrm.XfrmUserPolicyInfo', 'xfrm.XfrmUserAcquire'), floor=60)

    # ---------------------------------------------------------------- Y3
    # the entry index the pair encodes: configured, or an independent random draw per entry (shared with C19 B2)
    from .c19 import entry_index
    entry_index(ctx, 'Y3')
    pa = ctx.func('ikesacontroller.IkeSaController.process_acquire')
    A = ctx.sval(pa)
    p0, p1 = pa.call_params()[0], pa.call_params()[1]
    dec = A.calls_to(qual='ikesa.IkeSa.process_acquire')
    ctx.check(enc is not None and len(dec) == 1 and 'index' in dec[0].args, 'Y3', 'anchors: index encoding in create_policies '
              'and decoding in the controller', key=('Y3', 'anchors'))
    if enc is not None and len(dec) == 1 and 'index' in dec[0].args:
        dterm = dec[0].args['index']
        out_v = prog.const_eval(ast.parse('XFRM_POLICY_OUT', mode='eval').body, cps.module)
        bad = None
        src_t = attr(attr(P(p0), 'policy'), 'index')
        for i in list(range(0, 40)) + [255, 256, 2 ** 20, 2 ** 20 - 1, 123457]:
            def leaf_e(t, i=i):
                if t == attr(E, 'index'):
                    return i
                if t[0] == 'global' and t[1].endswith('XFRM_POLICY_OUT'):
                    return out_v
                raise tq.NoValue()
            try:
                e = tq.teval(enc, leaf_e)

                def leaf_d(t, e=e):
                    if strip_ids(t) == src_t:
                        return e
                    raise tq.NoValue()
                d = tq.teval(dterm, leaf_d)
            except (tq.NoValue, Exception) as ex:
                bad = bad or (i, 'cannot evaluate', str(ex)[:80])
                continue
            if d != i or e % 8 != out_v or e >> 3 != i:
                bad = bad or (i, e, d)
        ctx.check(bad is None, 'Y3', 'policy index = entry index << 3 | XFRM_POLICY_OUT, and the controller recovers the entry index '
                  'with >> 3 (45 indices evaluated)', key=('Y3', 'roundtrip'), site=ctx.site(cps, cps.node),
                  detail={'index,encoded,decoded': bad, 'encode': tq.text(enc), 'decode': tq.text(dterm)})
        ctx.check(tq.contains(dterm, src_t), 'Y3', 'the decoded value is the index of the policy that triggered the acquire',
                  key=('Y3', 'decode-source'), site=ctx.site(pa, dec[0].node))
        dv = [prog.const_eval(ast.parse(n, mode='eval').body, cps.module) for n in ('XFRM_POLICY_IN', 'XFRM_POLICY_OUT', 'XFRM_POLICY_FWD')]
        ctx.check(all(0 <= v < 8 for v in dv) and len(set(dv)) == 3, 'Y3', 'the three direction constants are distinct and fit in the 3 low bits',
                  key=('Y3', 'dir-bits'), detail={'found': dv})

    # ---------------------------------------------------------------- Y4 controller
    site = ctx.site(pa, pa.node)
    fam = '%s[xfrm.XFRMA_TMPL].family' % p1
    peer = strip_ids(A.expr('%s.id.daddr.to_ipaddr(%s)' % (p0, fam)))
    mine = strip_ids(A.expr('%s.saddr.to_ipaddr(%s)' % (p0, fam)))
    look = A.calls_to(qual='ikesacontroller.IkeSaController._get_ike_sa_by_peer_addr')
    ctors = A.calls_to(callee='new ikesa.IkeSa')
    ok = len(look) == 1 and len(ctors) == 1 and strip_ids(list(look[0].args.values())[0]) == peer
    ctx.check(ok, 'Y4', 'an IKE_SA is looked up by the template destination (id.daddr, in the template\'s family)', key=('Y4', 'addresses'),
              site=site, detail={'lookup': [tq.text(v) for c in look for v in c.args.values()]})
    ok = ok and look[0].seq < ctors[0].seq and not any(a[0][0] == 'caught' for a in look[0].pc) and common.lookup_missed(
        ctors[0].pc, common.lookup_protocol(ctx, 'ikesacontroller.IkeSaController._get_ike_sa_by_peer_addr'), look[0].term)
    ctx.check(ok, 'Y4', 'an IKE_SA with that peer is looked up first; a new one is created only when there is none', key=('Y4', 'reuse'), site=site)
    bp = ctx.func('ikesacontroller.IkeSaController._get_ike_sa_by_peer_addr')
    B = ctx.sval(bp)
    ctx.check(same(B.ret(), B.expr('next((x for x in self.ike_sas if x.peer_addr == %s))' % bp.call_params()[0])), 'Y4',
              'the lookup compares the peer address of each table entry', key=('Y4', 'by-peer'), site=ctx.site(bp, bp.node),
              detail={'returned': tq.text(B.ret())})
    # "an IKE_SA with that peer" found by address is a real one: besides the IKE_SAs the controller creates itself, the table only
    # gains the successor of a completed rekey (never the half-built object of a refused rekey, which has the same peer address and
    # would be handed the ACQUIRE as if it were established)
    from .c16 import successor_registration
    successor_registration(ctx, ctx.escape('engine', kills=common.engine_kills(ctx)), 'Y4')
    for c in ctors:
        b = {k: strip_ids(v) for k, v in c.args.items()}
        conf = strip_ids(A.expr('self.configuration.get_ike_configuration(MY, PEER)', dict(A.entry_env, MY=mine, PEER=peer)))
        ok = b.get('is_initiator') == const(True) and b.get('my_addr') == mine and b.get('peer_addr') == peer and b.get('configuration') == conf
        ctx.check(ok, 'Y4', 'the new IKE_SA is an initiator for (local = saddr, peer = id.daddr) with the connection configured for that '
                  'address pair', key=('Y4', 'new-ike-sa'), site=ctx.site(pa, c.node), detail={'found': {k: tq.text(v, 200) for k, v in b.items()}})
        ap = [x for x in A.calls if x.name == 'append' and strip_ids(x.recv or NONE) == attr(P('self'), 'ike_sas')]
        ctx.check(len(ap) == 1 and list(ap[0].args.values())[0] == c.term and ap[0].seq > c.seq, 'Y4', 'and is registered in the table',
                  key=('Y4', 'registered'), site=ctx.site(pa, c.node))
    if len(dec) == 1:
        d = dec[0]
        for name, addr, port in (('tsi', 'saddr', 'sport'), ('tsr', 'daddr', 'dport')):
            want = strip_ids(A.expr('TrafficSelector.from_network(ip_network(%s.sel.%s.to_ipaddr(%s.sel.family)), %s.sel.%s, %s.sel.proto)' % (
                p0, addr, p0, p0, port, p0)))
            ctx.check(strip_ids(d.args.get(name, NONE)) == want, 'Y4', 'the %s selector is built from the acquire selector\'s %s / %s / proto, read '
                      'in the selector\'s family' % ('source' if name == 'tsi' else 'destination', addr, port), key=('Y4', 'small_' + name),
                      site=site, detail={'found': tq.text(d.args.get(name, NONE), 300)})
        recv = strip_ids(d.recv or NONE)
        def leaves(t):
            return leaves(t[2]) | leaves(t[3]) if t[0] == 'cond' else {t}
        parts = leaves(recv) - {NONE}       # (a None left by the miss handler is replaced by the new IKE_SA before it gets here)
        okr = parts <= {strip_ids(look[0].term) if look else None, strip_ids(ctors[0].term) if ctors else None} and len(parts) == 2
        ctx.check(okr, 'Y4', 'the IKE_SA found or created is asked to negotiate with (source selector, destination selector, entry index)',
                  key=('Y4', 'hand-over'), site=ctx.site(pa, d.node), detail={'receiver': tq.text(recv, 300)})
        # no ACQUIRE is swallowed by the controller: whatever it returns is what that IKE_SA's process_acquire produced (which queues the
        # trigger itself when it is busy), on every path that does not raise
        rets = [(pc, t) for pc, t, _ in A.returns]
        ctx.check(bool(rets) and all(tq.contains(t, d.term) for _, t in rets) and not d.pc, 'Y4',
                  'every ACQUIRE is handed to the IKE_SA: each return of the controller\'s process_acquire carries the result of that call',
                  key=('Y4', 'always-handed-over'), site=ctx.site(pa, d.node),
                  detail={'returns': [tq.text(t, 160) for _, t in rets], 'hand-over condition': [tq.text(a[0], 120) for a in d.pc]})

    # ---------------------------------------------------------------- Y4 IkeSa.process_acquire
    # "with that entry's proposal": the entry is still what the configuration said when the second ACQUIRE for it arrives
    common.config_not_mutated(ctx, 'Y4')
    ia = ctx.func('ikesa.IkeSa.process_acquire')
    I = ctx.sval(ia)
    ps = ia.call_params()
    site = ctx.site(ia, ia.node)
    want_lk = strip_ids(I.expr('next((x for x in self.configuration.protect if x.index == %s))' % ps[2]))
    lk = [c for c in I.calls if strip_ids(c.term) == want_lk]
    ctx.check(len(lk) == 1, 'Y4', 'the protect entry is looked up by the decoded index', key=('Y4', 'entry-lookup'), site=site,
              detail={'next() calls': [tq.text(c.term, 200) for c in I.calls if c.callee == 'builtins.next']})
    if len(lk) == 1:
        ent = lk[0].term
        miss = [(pc, t) for pc, t, _ in I.returns if any(a[0][0] == 'caught' and 'StopIteration' in tq.text(a[0]) for a in pc)]
        under = [c for c in I.calls if any(a[0][0] == 'caught' and 'StopIteration' in tq.text(a[0]) for a in c.pc)]
        st_under = [x for x in I.stores if any(a[0][0] == 'caught' and 'StopIteration' in tq.text(a[0]) for a in x[2])]
        ok = len(miss) >= 1 and all(t == NONE for _, t in miss) and not st_under and all(
            (c.name or '').startswith('log_') or c.callee in ('method.format', 'method.hex', 'builtins.str') for c in under)
        ctx.check(ok, 'Y4', 'an acquire for an unknown index is ignored (logged, nothing else)', key=('Y4', 'unknown-index'),
                  site=ctx.site(ia, lk[0].node))
        cs = I.calls_to(callee='namedtuple.ChildSa')
        ctx.check(len(cs) == 1, 'Y4', 'process_acquire builds the pending ChildSa', key=('Y4', 'childsa'), site=site)
        for c in cs:
            kw = c.args
            want = {'proposal': attr(ent, 'proposal'), 'original_proposal': attr(ent, 'proposal'), 'mode': attr(ent, 'mode'),
                    'lifetime': attr(ent, 'lifetime'), 'tsi': ('tuple', (P(ps[0]), attr(ent, 'my_ts'))),
                    'tsr': ('tuple', (P(ps[1]), attr(ent, 'peer_ts')))}
            for k, v in want.items():
                ctx.check(kw.get(k) == v, 'Y4', 'the negotiation uses %s of that entry' % k, key=('Y4', 'childsa', k),
                          site=ctx.site(ia, c.node), detail={'found': tq.text(kw[k], 200) if k in kw else None})
        early = [x for x in I.stores if x[4] < lk[0].seq and x[0][0] == 'attr']
        ctx.check(not early, 'Y4', 'nothing is stored on the IKE_SA before the entry was found', key=('Y4', 'no-early-store'), site=site)


MANIFEST = {
    'level': 'Static decision on every path: both flushes dominate the policy installation, which ranges over every connection and '
             'every protect entry, and close() flushes both; the three create_policy calls per entry have directions OUT/IN/FWD, the '
             'outbound one carries (local net/port -> peer net/port, my_addr -> peer_addr, index) and IN/FWD are its argument-wise '
             'mirror without index; the index encode (<< 3 | OUT) / decode (>> 3) pair is evaluated for 45 indices; the acquire path '
             'takes addresses, selectors and the index from the right kernel fields, reuses an IKE_SA with that peer before creating an '
             'initiator IKE_SA for the configured address pair, ignores unknown indices and takes proposal/mode/lifetime/selectors from '
             'the entry found.',
    'note': 'Trusted: resolver typing. Declined: restart/crash-point histories; kernel SPD contents; that acquire selectors lie inside '
            'the entry (kernel behaviour).',
    'technique': 'ordering and path conditions of calls over value terms + mirror (involution) check of sibling calls + finite evaluation of the index codec + provenance',
    'design_ref': 'DESIGN.md 3/C15',
}
MANIFEST['note'] += (' Also decided here (necessary conditions shared between properties or added after the independent '
                     'change rounds, DESIGN.md 8.7): policy message builder and mirror layouts (from C14), close() flushes first, every ACQUIRE handed over, configuration not mutated, registration of a rekey successor (from C16). Rounds 7-8: get_network / get_port semantics (from C12).')
MANIFEST['note'] += (' Round 10: the entry index is the configured one or an independent draw from the module-level generator '
                     '(from C19 B2) - the encode/decode pair presupposes distinct indices.')
