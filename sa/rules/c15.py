"""C15 - Installed policies mirror the configuration and acquires map back to it.

Y1 (A4)  start/stop ordering: both flushes dominate the first policy installation, which covers every
         connection and every protect entry; close() flushes both on every path.
Y2 (A5)  per protect entry exactly three policies with directions OUT / IN / FWD: OUT = (local net, peer net,
         local port, peer port, my_addr -> peer_addr, index); IN and FWD are its argument-wise mirror and
         carry no index; protocol, IPsec protocol and mode are the same in all three.
Y3 (A7/A11) index encoding `index << 3 | XFRM_POLICY_OUT` and the decoding `>> 3` in the controller agree
         (same shift; directions fit below the shift), evaluated for many indices.
Y4 (A4/A5) acquire handling: addresses from the template, selectors from the acquire's selector, index
         decoded; an IKE_SA with that peer is reused before a new initiator IKE_SA is created; IkeSa.process_acquire
         looks the entry up by index, does nothing for an unknown index, and takes proposal, mode, lifetime and the
         offered selectors from that entry.
"""
import ast

from ..finite import Interp
from ..model import src, walk_no_nested
from ..terms import callee_name, calls_in, compare_parts, kwargs_of, single_def
from . import common

EXPLANATION = ('static analysis: dominance of policy installation by the flushes, the three create_policy calls compared as an '
               'involution with their direction constants, finite evaluation of the index encode/decode pair, and provenance of '
               'every value the acquire path hands to the negotiation')
ASSUMPTIONS = [
    'declined: restart / crash-point histories; that the kernel\'s acquire selectors lie inside the policy entry (kernel behaviour); '
    'the SPD contents as a runtime model',
]

SIGMA = {'src_selector': 'dst_selector', 'dst_selector': 'src_selector', 'src_port': 'dst_port', 'dst_port': 'src_port',
         'ike_conf.my_addr': 'ike_conf.peer_addr', 'ike_conf.peer_addr': 'ike_conf.my_addr'}


def run(ctx):
    prog, res = ctx.prog, ctx.res
    esc = ctx.escape('engine', kills=common.engine_kills(ctx))

    # ---------------------------------------------------------------- Y1
    ci = ctx.func('ikesacontroller.IkeSaController.__init__')
    g = esc.add_exception_edges(ci)
    fp = [n for n, x in common.nodes_calling(ctx, ci, g, common.calls_named('flush_policies'))]
    fs = [n for n, x in common.nodes_calling(ctx, ci, g, common.calls_named('flush_sas'))]
    cp = [(n, x) for n, x in common.nodes_calling(ctx, ci, g, common.calls_named('create_policies'))]
    ctx.check(len(fp) >= 1 and len(fs) >= 1, 'Y1', 'the controller flushes the SPD and the SAD at start-up', key=('Y1', 'flushes-present'),
              site=ctx.site(ci, ci.node))
    ctx.check(len(cp) == 1, 'Y1', 'the controller installs the configured policies at start-up', key=('Y1', 'install-present'),
              site=ctx.site(ci, ci.node))
    for n, x in cp:
        ctx.check(bool(fp) and n.id not in g.reach([g.entry], blocked_nodes=fp, follow_exc=False), 'Y1',
                  'no policy is installed before the SPD was flushed', key=('Y1', 'flush-policies-first'), site=ctx.site(ci, x))
        ctx.check(bool(fs) and n.id not in g.reach([g.entry], blocked_nodes=fs, follow_exc=False), 'Y1',
                  'no policy is installed before the SAD was flushed', key=('Y1', 'flush-sas-first'), site=ctx.site(ci, x))
        loops = [l for h, l in g.loops if isinstance(l, ast.For) and any(y is x for y in ast.walk(l))]
        ok = len(loops) == 1 and src(loops[0].iter) == 'self.configuration.ike_configurations.values()' \
            and [src(a) for a in x.args] == [src(loops[0].target)] and len(loops[0].body) == 1
        ctx.check(ok, 'Y1', 'policies are installed for every connection of the configuration', key=('Y1', 'all-connections'),
                  site=ctx.site(ci, x))
    cl = ctx.func('ikesacontroller.IkeSaController.close')
    gc = esc.add_exception_edges(cl)
    for name in ('flush_policies', 'flush_sas'):
        ns = [n for n, x in common.nodes_calling(ctx, cl, gc, common.calls_named(name))]
        ctx.check(bool(ns) and gc.exit.id not in gc.reach([gc.entry], blocked_nodes=ns, follow_exc=False), 'Y1',
                  'close() calls %s on every path' % name, key=('Y1', 'close', name), site=ctx.site(cl, cl.node))
    py = prog.module('pyikev2')
    t = src(py.tree)
    ctx.check('ike_sa_controller.close()' in t and 'signal.signal(signal.SIGINT, signal_handler)' in t, 'Y1',
              'the daemon closes the controller on SIGINT', key=('Y1', 'sigint'))

    # ---------------------------------------------------------------- Y2
    cps = ctx.func('xfrm.Xfrm.create_policies')
    cpf = ctx.func('xfrm.Xfrm.create_policy')
    loops = [n for n in walk_no_nested(cps.node) if isinstance(n, ast.For)]
    ok = len(loops) == 1 and src(loops[0].iter) == cps.call_params()[0] + '.protect'
    ctx.check(ok, 'Y2', 'create_policies covers every protect entry of the connection', key=('Y2', 'all-entries'), site=ctx.site(cps, cps.node))
    ent = src(loops[0].target) if ok else 'ipsec_conf'
    calls = [c for c in calls_in(cps.node) if callee_name(c) == 'create_policy']
    ctx.check(len(calls) == 3 and ok and all(any(c is y for y in ast.walk(loops[0])) for c in calls) and not any(
        isinstance(n, (ast.If, ast.Continue, ast.Break)) for n in ast.walk(loops[0])), 'Y2',
        'exactly three policies are installed per entry, unconditionally', key=('Y2', 'three'), site=ctx.site(cps, cps.node),
        detail={'found': len(calls)})
    if len(calls) == 3:
        bs = [{k: src(v) for k, v in kwargs_of(c, target=cpf).items()} for c in calls]
        dirs = {b.get('direction'): b for b in bs}
        ctx.check(set(dirs) == {'XFRM_POLICY_OUT', 'XFRM_POLICY_IN', 'XFRM_POLICY_FWD'}, 'Y2',
                  'the three policies have directions OUT, IN and FWD', key=('Y2', 'directions'), site=ctx.site(cps, cps.node),
                  detail={'found': sorted(str(d) for d in dirs)})
        out = dirs.get('XFRM_POLICY_OUT')
        if out is not None and len(dirs) == 3:
            want = {'src_selector': 'src_selector', 'dst_selector': 'dst_selector', 'src_port': 'src_port', 'dst_port': 'dst_port',
                    'ip_proto': 'ip_proto', 'ipsec_proto': 'ipsec_proto', 'mode': ent + '.mode', 'src': 'ike_conf.my_addr',
                    'dst': 'ike_conf.peer_addr', 'index': 'index'}
            for k, v in want.items():
                ctx.check(out.get(k) == v, 'Y2', 'outbound policy: %s = %s' % (k, v), key=('Y2', 'out', k), site=ctx.site(cps, cps.node),
                          detail={'found': out.get(k)})
            for d in ('XFRM_POLICY_IN', 'XFRM_POLICY_FWD'):
                b = dirs[d]
                ctx.check('index' not in b, 'Y2', '%s policy carries no index (acquires come from outbound policies only)' % d[12:],
                          key=('Y2', d, 'no-index'), site=ctx.site(cps, cps.node))
                for k in cpf.call_params():
                    if k in ('direction', 'index'):
                        continue
                    v1 = out.get(k)
                    ctx.check(v1 is not None and b.get(k) == SIGMA.get(v1, v1), 'Y2', '%s policy: %s is the mirror image of the outbound '
                              'policy\'s (%s)' % (d[12:], k, SIGMA.get(v1, v1) if v1 else '?'), key=('Y2', d, 'mirror', k),
                              site=ctx.site(cps, cps.node), detail={'outbound': v1, 'found': b.get(k)})
        loc = {'src_selector': ent + '.my_ts.get_network()', 'dst_selector': ent + '.peer_ts.get_network()',
               'src_port': ent + '.my_ts.get_port()', 'dst_port': ent + '.peer_ts.get_port()', 'ip_proto': ent + '.my_ts.ip_proto'}
        for k, v in loc.items():
            d = single_def(res, cps, k)
            ctx.check(isinstance(d, ast.AST) and src(d) == v, 'Y2', '%s = %s' % (k, v), key=('Y2', 'local', k), site=ctx.site(cps, cps.node))
        d = single_def(res, cps, 'ipsec_proto')
        ok = isinstance(d, ast.IfExp) and src(d.body) == 'socket.IPPROTO_ESP' and src(d.orelse) == 'socket.IPPROTO_AH' \
            and src(d.test) == ent + '.proposal.protocol_id == Proposal.Protocol.ESP'
        ctx.check(ok, 'Y2', 'the template protocol is ESP for ESP entries and AH otherwise', key=('Y2', 'ipsec-proto'), site=ctx.site(cps, cps.node))

    # ---------------------------------------------------------------- Y3
    idx = single_def(res, cps, 'index')
    pa = ctx.func('ikesacontroller.IkeSaController.process_acquire')
    dec = [c for c in calls_in(pa.node) if callee_name(c) == 'process_acquire']
    ctx.check(isinstance(idx, ast.AST) and len(dec) == 1 and len(dec[0].args) == 3, 'Y3', 'anchors: index encoding in create_policies '
              'and decoding in the controller', key=('Y3', 'anchors'))
    if isinstance(idx, ast.AST) and len(dec) == 1 and len(dec[0].args) == 3:
        dexpr = dec[0].args[2]
        out_v = prog.const_eval(ast.parse('XFRM_POLICY_OUT', mode='eval').body, cps.module)
        bad = None
        for i in list(range(0, 40)) + [255, 256, 2 ** 20, 2 ** 20 - 1, 123457]:
            enc = Interp(prog, cps, {ent + '.index': i, 'XFRM_POLICY_OUT': out_v}).ev(idx)
            d = Interp(prog, pa, {'xfrm_acquire.policy.index': enc}).ev(dexpr)
            if d != i or enc % 8 != out_v or enc >> 3 != i:
                bad = bad or (i, enc, d)
        ctx.check(bad is None, 'Y3', 'policy index = entry index << 3 | XFRM_POLICY_OUT, and the controller recovers the entry index '
                  'with >> 3 (45 indices evaluated)', key=('Y3', 'roundtrip'), site=ctx.site(cps, cps.node),
                  detail={'index,encoded,decoded': bad, 'encode': src(idx), 'decode': src(dexpr)})
        ctx.check(src(dexpr).startswith('xfrm_acquire.policy.index'), 'Y3', 'the decoded value is the index of the policy that triggered '
                  'the acquire', key=('Y3', 'decode-source'), site=ctx.site(pa, dec[0]))
        dv = [prog.const_eval(ast.parse(n, mode='eval').body, cps.module) for n in ('XFRM_POLICY_IN', 'XFRM_POLICY_OUT', 'XFRM_POLICY_FWD')]
        ctx.check(all(0 <= v < 8 for v in dv) and len(set(dv)) == 3, 'Y3', 'the three direction constants are distinct and fit in the 3 low bits',
                  key=('Y3', 'dir-bits'), detail={'found': dv})

    # ---------------------------------------------------------------- Y4 controller
    g = esc.add_exception_edges(pa)
    p0, p1 = pa.call_params()[0], pa.call_params()[1]
    fam = single_def(res, pa, 'family')
    ctx.check(isinstance(fam, ast.AST) and src(fam) == '%s[xfrm.XFRMA_TMPL].family' % p1, 'Y4', 'the address family is the template\'s',
              key=('Y4', 'family'), site=ctx.site(pa, pa.node))
    pd = [src(d) for d in res.local_defs(pa).get('peer_addr', []) if isinstance(d, ast.AST)]
    md = [src(d) for d in res.local_defs(pa).get('my_addr', []) if isinstance(d, ast.AST)]
    ctx.check(pd == ['%s.id.daddr.to_ipaddr(family)' % p0] and set(md) == {'%s.saddr.to_ipaddr(family)' % p0}, 'Y4',
              'peer address = template destination (id.daddr), local address = saddr', key=('Y4', 'addresses'), site=ctx.site(pa, pa.node),
              detail={'peer': pd, 'my': md})
    look = [(n, x) for n, x in common.nodes_calling(ctx, pa, g, common.calls_named('_get_ike_sa_by_peer_addr'))]
    ctors = [(n, x) for n, x in common.nodes_calling(ctx, pa, g, common.calls_named('IkeSa'))]
    ok = len(look) == 1 and len(ctors) == 1 and [src(a) for a in look[0][1].args] == ['peer_addr'] \
        and any(part == 'handler' and 'StopIteration' in src(hn.ast.type) for (_, part, hn) in ctors[0][0].try_ctx if part == 'handler')
    ctx.check(ok, 'Y4', 'an IKE_SA with that peer is looked up first; a new one is created only when there is none', key=('Y4', 'reuse'),
              site=ctx.site(pa, pa.node))
    bp = ctx.func('ikesacontroller.IkeSaController._get_ike_sa_by_peer_addr')
    ctx.check(src(bp.node.body[-1]) == 'return next((x for x in self.ike_sas if x.peer_addr == %s))' % bp.call_params()[0], 'Y4',
              'the lookup compares the peer address of each table entry', key=('Y4', 'by-peer'), site=ctx.site(bp, bp.node))
    for n, x in ctors:
        b = {k: src(v) for k, v in kwargs_of(x, target=ctx.func('ikesa.IkeSa.__init__')).items()}
        conf = single_def(res, pa, b.get('configuration', ''))
        ok = b.get('is_initiator') == 'True' and b.get('my_addr') == 'my_addr' and b.get('peer_addr') == 'peer_addr' \
            and isinstance(conf, ast.AST) and src(conf) == 'self.configuration.get_ike_configuration(my_addr, peer_addr)'
        ctx.check(ok, 'Y4', 'the new IKE_SA is an initiator for (local, peer) with the connection configured for that address pair',
                  key=('Y4', 'new-ike-sa'), site=ctx.site(pa, x), detail={'found': b})
        ap = [m for m, y in common.nodes_calling(ctx, pa, g, common.calls_named('append')) if 'ike_sas' in src(y.func.value)]
        ctx.check(len(ap) == 1 and ap[0].id in g.reach([n]), 'Y4', 'and is registered in the table', key=('Y4', 'registered'), site=ctx.site(pa, x))
    for name, addr, port in (('small_tsi', 'saddr', 'sport'), ('small_tsr', 'daddr', 'dport')):
        d = single_def(res, pa, name)
        ok = isinstance(d, ast.Call) and callee_name(d) == 'from_network' and [src(a) for a in d.args] == [
            'ip_network(%s.sel.%s.to_ipaddr(sel_family))' % (p0, addr), '%s.sel.%s' % (p0, port), '%s.sel.proto' % p0]
        ctx.check(ok, 'Y4', '%s is built from the acquire selector\'s %s / %s / proto' % (name, addr, port), key=('Y4', name),
                  site=ctx.site(pa, pa.node))
    sf = single_def(res, pa, 'sel_family')
    ctx.check(isinstance(sf, ast.AST) and src(sf) == p0 + '.sel.family', 'Y4', 'selector addresses are read in the selector\'s family',
              key=('Y4', 'sel-family'), site=ctx.site(pa, pa.node))
    if len(dec) == 1:
        ctx.check([src(a) for a in dec[0].args[:2]] == ['small_tsi', 'small_tsr'] and src(dec[0].func.value) == 'ike_sa', 'Y4',
                  'the IKE_SA is asked to negotiate with (source selector, destination selector, entry index)', key=('Y4', 'hand-over'),
                  site=ctx.site(pa, dec[0]))

    # ---------------------------------------------------------------- Y4 IkeSa.process_acquire
    ia = ctx.func('ikesa.IkeSa.process_acquire')
    gi = esc.add_exception_edges(ia)
    ps = ia.call_params()
    lk = None
    for name, defs in res.local_defs(ia).items():
        for d in defs:
            if isinstance(d, ast.Call) and callee_name(d) == 'next' and len(d.args) == 1 and isinstance(d.args[0], ast.GeneratorExp):
                ge = d.args[0]
                if src(ge.generators[0].iter) == 'self.configuration.protect' and len(ge.generators[0].ifs) == 1:
                    v = src(ge.generators[0].target)
                    if src(ge.generators[0].ifs[0]) in ('%s.index == %s' % (v, ps[2]), '%s == %s.index' % (ps[2], v)) and src(ge.elt) == v:
                        lk = (name, d)
    ctx.check(lk is not None, 'Y4', 'the protect entry is looked up by the decoded index', key=('Y4', 'entry-lookup'), site=ctx.site(ia, ia.node))
    if lk is not None:
        ent, call = lk
        n = common.node_of(gi, call)[0]
        hs = [hn for (_, part, hns) in n.try_ctx if part == 'body' for hn in hns if 'StopIteration' in src(hn.ast.type)]
        ok = len(hs) == 1
        if ok:
            r = gi.reach([hs[0]], follow_exc=False)
            body = [m for m in gi.nodes if m.id in r and m.kind == 'stmt']
            ok = all(isinstance(m.ast, ast.Return) and (m.ast.value is None or src(m.ast.value) == 'None') or (
                isinstance(m.ast, ast.Expr) and isinstance(m.ast.value, ast.Call) and callee_name(m.ast.value).startswith('log_'))
                for m in body) and any(isinstance(m.ast, ast.Return) for m in body)
        ctx.check(ok, 'Y4', 'an acquire for an unknown index is ignored (logged, nothing else)', key=('Y4', 'unknown-index'), site=ctx.site(ia, call))
        cs = [c for c in calls_in(ia.node) if callee_name(c) == 'ChildSa']
        ctx.check(len(cs) == 1, 'Y4', 'process_acquire builds the pending ChildSa', key=('Y4', 'childsa'), site=ctx.site(ia, ia.node))
        for c in cs:
            kw = {k: src(v) for k, v in kwargs_of(c, names=[]).items()}
            want = {'proposal': ent + '.proposal', 'original_proposal': ent + '.proposal', 'mode': ent + '.mode', 'lifetime': ent + '.lifetime',
                    'tsi': '(%s, %s.my_ts)' % (ps[0], ent), 'tsr': '(%s, %s.peer_ts)' % (ps[1], ent)}
            for k, v in want.items():
                ctx.check(kw.get(k) == v, 'Y4', 'the negotiation uses %s = %s of that entry' % (k, v), key=('Y4', 'childsa', k),
                          site=ctx.site(ia, c), detail={'found': kw.get(k)})
        # before the lookup: only the busy test
        st = [m for m in gi.nodes if m.kind == 'stmt' and isinstance(m.ast, (ast.Assign, ast.AugAssign)) and any(
            isinstance(y, ast.Attribute) and isinstance(y.ctx, ast.Store) for t in (m.ast.targets if isinstance(m.ast, ast.Assign) else [m.ast.target])
            for y in ast.walk(t)) and n.id in gi.reach([m])]
        ctx.check(not st, 'Y4', 'nothing is stored on the IKE_SA before the entry was found', key=('Y4', 'no-early-store'), site=ctx.site(ia, ia.node))


MANIFEST = {
    'level': 'Static decision on every path: both flushes dominate the policy installation, which ranges over every connection and '
             'every protect entry, and close() flushes both; the three create_policy calls per entry have directions OUT/IN/FWD, the '
             'outbound one carries (local net/port -> peer net/port, my_addr -> peer_addr, index) and IN/FWD are its argument-wise '
             'mirror without index; the index encode (<< 3 | OUT) / decode (>> 3) pair is evaluated for 45 indices; the acquire path '
             'takes addresses, selectors and the index from the right kernel fields, reuses an IKE_SA with that peer before creating an '
             'initiator IKE_SA for the configured address pair, ignores unknown indices and takes proposal/mode/lifetime/selectors from '
             'the entry found.',
    'note': 'Trusted: resolver typing. Declined: restart/crash-point histories; kernel SPD contents; that acquire selectors lie inside '
            'the entry (kernel behaviour).',
    'technique': 'dominance + mirror (involution) check of sibling calls + finite evaluation of the index codec + provenance',
    'design_ref': 'DESIGN.md 3/C15',
}
